#!/bin/bash
# tools/thoroughq.sh <ids...> : runs thorough tiers sequentially at low priority; verified ones are appended to tools/thorough_ok.txt
cd /verif
for id in "$@"; do
  cp evidence/$id.json /tmp/ev_quick_$id.json
  s=$(date +%s); VERIF_NPROC=8 nice -n 19 timeout 2400 ./check $id --tier thorough > /tmp/thor_$id.log 2>&1; rc=$?; e=$(date +%s)
  cp evidence/$id.json /tmp/ev_thorough_$id.json; cp /tmp/ev_quick_$id.json evidence/$id.json     # committed evidence stays the quick run
  echo "$id rc=$rc wall=$((e-s))s viol=$(grep -c '^VIOLATION' /tmp/thor_$id.log) $(grep "^$id tier" /tmp/thor_$id.log | cut -c1-140)" >> /tmp/thorough.log
  if [ $rc -eq 0 ] && ! grep -q '^VIOLATION' /tmp/thor_$id.log; then echo $id >> tools/thorough_ok.txt; mkdir -p evidence/thorough; cp /tmp/ev_thorough_$id.json evidence/thorough/$id.json; fi
done

#!/usr/bin/env python3
"""Regenerates the generated block of DESIGN.md (Appendix B: checks as built) from checks/*.py META, evidence/*.json,
known findings and seeded/*/meta.json."""
import ast, glob, json, os, re
V = os.path.dirname(os.path.dirname(os.path.abspath(__file__)))
claimed = [l.strip() for l in open(os.path.join(V, "tools", "claimed.txt")) if l.strip()]
rows = []
for path in sorted(glob.glob(os.path.join(V, "checks", "C*.py"))):
    pid = os.path.basename(path)[:-3]
    tree = ast.parse(open(path).read()); meta = {}; level = ""
    for node in tree.body:
        if isinstance(node, ast.Assign) and isinstance(node.targets[0], ast.Name):
            if node.targets[0].id == "META": meta = ast.literal_eval(node.value)
            if node.targets[0].id == "LEVEL": level = ast.literal_eval(node.value)
    ev = {}
    ep = os.path.join(V, "evidence", pid + ".json")
    if os.path.exists(ep): ev = json.load(open(ep))
    cov = ev.get("coverage", {})
    extra = ""
    if "states" in cov: extra = " states=%s transitions=%s" % (cov.get("states"), cov.get("transitions"))
    rows.append("| %s | %s | %s | %s | %s | %s%s | %s | %s |" % (
        pid, "yes" if pid in claimed else "no", level, meta.get("technique", "")[:90], ev.get("tier", "-"), cov.get("evaluations", "-"), extra,
        cov.get("distinct_nontrivial", "-"), ev.get("wall_s", "-")))
fnd = []
for p in [os.path.join(V, "known_findings.json")] + sorted(glob.glob(os.path.join(V, "known_findings.d", "*.json"))):
    fnd += json.load(open(p))["findings"]
seeds = []
for mp in sorted(glob.glob(os.path.join(V, "seeded", "*", "meta.json"))):
    m = json.load(open(mp))
    seeds.append("| %s | %s | %s | %s | %s |" % (os.path.basename(os.path.dirname(mp)), m.get("property"), m.get("summary", "")[:110].replace("|", "/"),
                                              m.get("needs", "")[:90].replace("|", "/"), m.get("caught_by", "?")))
out = ["<!-- BEGIN GENERATED (tools/mkstatus.py) -->", "", "### B.1 Checks as built (last committed evidence)", "",
       "| id | claimed | level | deciding technique | tier | evaluations | distinct non-trivial | wall s |", "|---|---|---|---|---|---|---|---|"] + rows
out += ["", "### B.2 Genuine defects found by the checks", "", "| finding | property | status | commit | what |", "|---|---|---|---|---|"]
for e in sorted(fnd, key=lambda e: (e["property"], e["id"])):
    out.append("| %s | %s | %s | %s | %s |" % (e["id"], e["property"], e["status"], e.get("commit", ""), re.sub(r"^fixed: property=\S+ \S+ ", "", e["what"])[:220].replace("|", "/")))
out += ["", "### B.3 Seeded changes (independent authors) and which check catches them", "", "| seed | property | change | needs | caught by |", "|---|---|---|---|---|"] + seeds
out += ["", "<!-- END GENERATED -->"]
dp = os.path.join(V, "DESIGN.md"); s = open(dp).read()
blk = "\n".join(out)
if "<!-- BEGIN GENERATED" in s:
    s = re.sub(r"<!-- BEGIN GENERATED.*?<!-- END GENERATED -->", lambda m: blk, s, flags=re.S)
else:
    s += "\n\n--------------------------------------------------------------------------------------------\n\n## Appendix B. Status as built (generated from evidence, findings and seeded changes)\n\n" + blk + "\n"
open(dp, "w").write(s)
print("DESIGN.md Appendix B: %d checks, %d findings, %d seeds" % (len(rows), len(fnd), len(seeds)))

#!/bin/bash
# tools/runq.sh <ids...>: run quick checks sequentially with triage, logs in /tmp/q_<id>.log, summary lines in /tmp/q_summary.log
cd /verif
for id in "$@"; do
  VERIF_TRIAGE=1 ./check $id > /tmp/q_$id.log 2>&1; rc=$?
  echo "$(date +%H:%M) $id rc=$rc $(grep "^$id tier" /tmp/q_$id.log | cut -c1-160)" >> /tmp/q_summary.log
done

#!/usr/bin/env python3
"""Writes seeded/<name>/meta.json from meta.orig.json + result.txt (what was run, which checks caught it)."""
import glob, json, os, re
V = os.path.dirname(os.path.dirname(os.path.abspath(__file__)))
rows = []
for d in sorted(glob.glob(os.path.join(V, "seeded", "*"))):
    name = os.path.basename(d)
    rp = os.path.join(d, "result.txt")
    if not os.path.exists(rp):
        continue
    orig = {}
    if os.path.exists(os.path.join(d, "meta.orig.json")):
        try:
            orig = json.load(open(os.path.join(d, "meta.orig.json")))
        except Exception:
            orig = {}
    txt = open(rp).read()
    m = re.search(r"demo_unchanged_exit=(\d+) demo_changed_exit=(\d+)", txt)
    caught, missed = [], []
    for cm in re.finditer(r"check=(C\d+) rc=(\d+)", txt):
        (caught if cm.group(2) == "1" else missed).append(cm.group(1))
    hist = []
    hp = os.path.join(d, "history.txt")
    if os.path.exists(hp):
        hist = [l.strip() for l in open(hp) if l.strip()]
    meta = {"property": orig.get("property", name.split("-")[0]), "summary": orig.get("summary", ""), "needs": orig.get("needs", ""),
            "author": "independent sub-agent (saw only the property text and a scratch worktree)",
            "tests_run_by_author": orig.get("tests_run", ""),
            "confirmed_by_lead": {"patch_applies_to_head": True, "demo_unchanged_exit": int(m.group(1)) if m else None,
                                  "demo_changed_exit": int(m.group(2)) if m else None,
                                  "full_test_suite": open(os.path.join(d, "suite.txt")).read().strip() if os.path.exists(os.path.join(d, "suite.txt")) else "see seeded/SUITE.md"},
            "checks_run": sorted(set(caught + missed)), "caught_by": sorted(set(caught)) or "none",
            "history": hist}
    json.dump(meta, open(os.path.join(d, "meta.json"), "w"), indent=1)
    rows.append((name, meta["property"], meta["caught_by"], m.groups() if m else None))
for r in rows:
    print(*r)

#!/bin/bash
# tools/mkseedwt.sh <prop-id> : scratch worktree /tmp/seed-<id> with the brief and the property text only
id=$1
wt=/tmp/seed-$id
git -C /repo worktree remove --force $wt 2>/dev/null
git -C /repo worktree add --detach $wt HEAD -q
cp /verif/tools/SEED_BRIEF.md $wt/SEED_BRIEF.md
grep "\"id\": \"$id\"" /verif/properties.jsonl | /venv/bin/python -c "
import json,sys
p=json.loads(sys.stdin.read())
print('PROPERTY', p['id'], '-', p['title']); print(); print('Statement:', p['statement']); print(); print('Quantified over:', p['quantifier']['text']); print(); print('Why tests cannot settle it:', p['why_tests_cant']); print(); print('Anchors (files):', ', '.join(p['anchors']['files'])); print('Mechanisms:'); [print('  -', m.get('name'), '@', m.get('where')) for m in p['anchors']['mechanism']]
" > $wt/PROPERTY.txt
echo $wt

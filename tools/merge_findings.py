#!/usr/bin/env python3
"""Merges known_findings.d/*.json into the single committed known_findings.json (the per-property files were only a means to let
several authors work in parallel)."""
import glob, json, os
V = os.path.dirname(os.path.dirname(os.path.abspath(__file__)))
main = json.load(open(os.path.join(V, "known_findings.json")))
ids = {e["id"] for e in main["findings"]}
n = 0
for p in sorted(glob.glob(os.path.join(V, "known_findings.d", "*.json"))):
    for e in json.load(open(p))["findings"]:
        if e["id"] not in ids:
            main["findings"].append(e); ids.add(e["id"]); n += 1
    os.remove(p)
main["findings"].sort(key=lambda e: (e["property"], e["id"]))
json.dump(main, open(os.path.join(V, "known_findings.json"), "w"), indent=1)
print("merged", n, "entries; total", len(main["findings"]), "open", sum(1 for e in main["findings"] if e["status"] == "open"))

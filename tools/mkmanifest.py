#!/venv/bin/python
"""Regenerates MANIFEST.json from the check modules present in checks/ (META dicts) and validates it."""
import ast
import glob
import json
import os
import re
import sys

V = os.path.dirname(os.path.dirname(os.path.abspath(__file__)))
props = [json.loads(l) for l in open(os.path.join(V, "properties.jsonl"))]
NA = {}
na_path = os.path.join(V, "tools", "not_applicable.json")
if os.path.exists(na_path):
    NA = json.load(open(na_path))


def meta_of(path):
    tree = ast.parse(open(path).read())
    out = {}
    for node in tree.body:
        if isinstance(node, ast.Assign) and len(node.targets) == 1 and isinstance(node.targets[0], ast.Name):
            if node.targets[0].id in ("PROPERTY", "LEVEL", "META"):
                out[node.targets[0].id] = ast.literal_eval(node.value)
    return out


THOROUGH_OK = set()
tp = os.path.join(V, "tools", "thorough_ok.txt")
if os.path.exists(tp):
    THOROUGH_OK = {l.strip() for l in open(tp) if l.strip() and not l.startswith("#")}
checks, claimed = [], set()
CLAIM = [l.strip() for l in open(os.path.join(V, "tools", "claimed.txt")) if l.strip() and not l.startswith("#")]
for path in sorted(glob.glob(os.path.join(V, "checks", "C*.py"))):
    if os.path.basename(path)[:-3] not in CLAIM:
        continue
    m = meta_of(path)
    pid = m["PROPERTY"]
    meta = m.get("META", {})
    claimed.add(pid)
    checks.append({
        "property_id": pid,
        "quick_cmd": "./check %s --tier quick" % pid,
        **({"thorough_cmd": "./check %s --tier thorough" % pid} if pid in THOROUGH_OK else {}),
        "evidence_file": "/verif/evidence/%s.json" % pid,
        "replay_cmd_template": "./check %s --replay {path}" % pid,
        "engine": meta.get("engine", "mc-explorers"),
        "level_claimed": {"category": m["LEVEL"], "text": meta.get("text", ""), "design_ref": meta.get("design_ref", "DESIGN.md §4 " + pid)},
        "level_note": meta.get("note", ""),
        "technique": meta.get("technique", "bounded exhaustive exploration of the real implementation"),
    })
base = json.load(open("/root/.vp/BASELINE.json"))
man = {
    "version": 1,
    "setup_cmd": "cd /verif && ./setup.sh",
    "hooks": {"guard": "E2NIEE_PANDAPOWER_VERIF", "enable": "no source hooks: checks drive /repo (editable install) from outside (sys.monitoring fault injection, harness-side pool replacement)",
              "baseline_off_cmd": base["cmd"].replace("--junitxml=<file>", "--junitxml=/tmp/baseline.junit.xml"),
              "source_commits": [], "add_only": True},
    "engines": [{"name": "mc-explorers", "path": "/verif/mc", "serves_properties": sorted(claimed),
                 "kind_free_text": "hand-written bounded exhaustive explorers on the real code: E1 deviation-bounded input enumeration, E2 explicit-state BFS over operation histories with canonical state hashing, E3 choice-point explorer, E4 sys.monitoring crash-point injector, E5 controlled worker-pool schedule enumerator"}],
    "checks": checks,
    "not_applicable": [{"property_id": p["id"], "reason": NA.get(p["id"], "check not built yet in this session (planned in DESIGN.md §4); no claim is made")}
                       for p in props if p["id"] not in claimed],
    "notes": "All checks: ./check <ID> --tier quick|thorough. Known genuine defects: /verif/known_findings.json. Design: /verif/DESIGN.md.",
}
json.dump(man, open(os.path.join(V, "MANIFEST.json"), "w"), indent=1)
try:
    sys.path.insert(0, "/opt/veriftools/pyvenv/lib/python3.11/site-packages")
    import jsonschema
    jsonschema.validate(man, json.load(open("/root/.vp/MANIFEST.schema.json")))
    print("MANIFEST ok: %d checks, %d not_applicable" % (len(checks), len(man["not_applicable"])))
except ImportError:
    print("MANIFEST written (jsonschema not importable here)")

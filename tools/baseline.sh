#!/bin/bash
# Runs the repository's pinned test suite (xdist-parallel) and compares with /root/.vp/BASELINE.json stable_pass.
# usage: tools/baseline.sh [repo_dir]   (default /repo)
REPO=${1:-/repo}
OUT=$(mktemp -d /tmp/baseline.XXXXXX)
cd "$REPO" && env -u E2NIEE_PANDAPOWER_VERIF /venv/bin/python -m pytest -q -p no:cacheprovider --timeout=900 --continue-on-collection-errors -n 14 --junitxml=$OUT/j.xml > $OUT/log 2>&1
tail -3 $OUT/log
/venv/bin/python - "$OUT/j.xml" <<'P'
import json, sys, xml.etree.ElementTree as ET
base = json.load(open('/root/.vp/BASELINE.json'))
stable = set(base['stable_pass'])
t = ET.parse(sys.argv[1])
passed = set()
for tc in t.iter('testcase'):
    name = tc.get('classname') + '::' + tc.get('name')
    if not any(ch.tag in ('failure', 'error', 'skipped') for ch in tc):
        passed.add(name)
missing = sorted(stable - passed)
print("stable_pass=%d passed_now=%d missing_from_stable=%d" % (len(stable), len(passed), len(missing)))
for m in missing[:40]:
    print("  MISSING", m)
sys.exit(1 if missing else 0)
P
rc=$?
rm -rf $OUT
exit $rc

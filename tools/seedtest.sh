#!/bin/bash
# tools/seedtest.sh <seed-dir> <name> <check-id> [more check ids]
# Confirms a seeded change (applies, demo fails with it / passes without) and runs the named quick checks against it.
sd=$1; name=$2; shift 2
wt=/tmp/sw-$name
out=/verif/seeded/$name
mkdir -p $out
if [ -f $out/result.txt ]; then grep "check=" $out/result.txt | sed "s/^/earlier run: /" | cut -c1-160 >> $out/history.txt; fi
git -C /repo worktree remove --force $wt 2>/dev/null
git -C /repo worktree add --detach $wt HEAD -q || exit 2
if [ "$(readlink -f $sd)" != "$(readlink -f $out)" ]; then cp $sd/patch.diff $sd/demo.py $out/ ; cp $sd/meta.json $out/meta.orig.json; fi
cd $wt
PYTHONPATH=$wt /venv/bin/python $out/demo.py > $out/demo_unchanged.log 2>&1; d0=$?
if git apply --check $out/patch.diff 2>/dev/null; then git apply $out/patch.diff
elif git apply --check --ignore-whitespace $out/patch.diff 2>/dev/null; then git apply --ignore-whitespace $out/patch.diff; echo "(applied with --ignore-whitespace)" > $out/apply_note.txt
elif git apply --3way $out/patch.diff 2>/dev/null && ! git diff --name-only --diff-filter=U | grep -q .; then echo "(applied with --3way on top of later fix commits)" > $out/apply_note.txt; git reset -q
else echo "$name: PATCH DOES NOT APPLY" | tee $out/result.txt; git -C /repo worktree remove --force $wt; exit 3; fi
git diff > $out/patch_as_applied.diff
PYTHONPATH=$wt /venv/bin/python $out/demo.py > $out/demo_changed.log 2>&1; d1=$?
echo "$name demo_unchanged_exit=$d0 demo_changed_exit=$d1" > $out/result.txt
cd /verif
for id in "$@"; do
  VERIF_REPO=$wt VERIF_TRIAGE=1 ./check $id > $out/check_$id.log 2>&1; rc=$?
  echo "$name check=$id rc=$rc $(grep -c '^VIOLATION' $out/check_$id.log) violation lines; $(grep "^$id tier" $out/check_$id.log | cut -c1-200)" >> $out/result.txt
done
git -C /repo worktree remove --force $wt
cat $out/result.txt

#!/bin/bash
# tools/seedsuite.sh : applies the seeded patches in greedy non-conflicting batches to scratch worktrees and runs the repository's
# full pinned test-suite on each batch (tools/baseline.sh). Result: seeded/SUITE.md
cd /verif
tag=$1; shift
out=seeded/SUITE$tag.md
echo "# Full test-suite runs on the seeded changes (batches of non-conflicting patches)" > $out
echo "" >> $out
if [ $# -gt 0 ]; then todo="$@"; else todo=$(ls -d seeded/C*-s* | xargs -n1 basename); fi
b=0
while [ -n "$todo" ]; do
  b=$((b+1)); wt=/tmp/suite$tag-$b
  git -C /repo worktree remove --force $wt 2>/dev/null; git -C /repo worktree add --detach $wt HEAD -q
  applied=""; rest=""
  for s in $todo; do
    p=/verif/seeded/$s/patch.diff
    if [ -f /verif/seeded/$s/patch_as_applied.diff ]; then p=/verif/seeded/$s/patch_as_applied.diff; fi
    if git -C $wt apply --check $p 2>/dev/null; then git -C $wt apply $p; applied="$applied $s"; else rest="$rest $s"; fi
  done
  if [ -z "$applied" ]; then echo "batch $b: nothing applies: $rest" >> $out; break; fi
  res=$(tools/baseline.sh $wt 2>&1 | grep -v conda | tail -4 | tr '\n' ' ')
  echo "## batch $b" >> $out; echo "patches:$applied" >> $out; echo "" >> $out; echo "result: $res" >> $out; echo "" >> $out
  for s in $applied; do echo "batch $b of seeded/SUITE$tag.md: $res" | cut -c1-300 > seeded/$s/suite.txt; done
  git -C /repo worktree remove --force $wt
  todo=$rest
done

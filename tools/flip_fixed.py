#!/usr/bin/env python3
"""tools/flip_fixed.py <finding-id> <commit-subject-substring>: marks a finding as fixed (looks up the commit in /repo)."""
import glob, json, subprocess, sys
fid, pat = sys.argv[1], sys.argv[2]
log = subprocess.run(["git", "-C", "/repo", "log", "--format=%h %s"], capture_output=True, text=True).stdout.splitlines()
hits = [l for l in log if pat.lower() in l.lower()]
assert hits, "no commit matches %r" % pat
sha = hits[0].split()[0]
for path in ["/verif/known_findings.json"] + glob.glob("/verif/known_findings.d/*.json"):
    d = json.load(open(path)); ch = False
    for e in d["findings"]:
        if e["id"] == fid:
            e["status"] = "fixed"; e["commit"] = sha
            if not e["what"].startswith("fixed:"):
                e["what"] = "fixed: property=%s %s %s" % (e["property"], sha, e["what"])
            ch = True
    if ch:
        json.dump(d, open(path, "w"), indent=1); print("flipped", fid, sha, path)

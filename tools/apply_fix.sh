#!/bin/bash
# tools/apply_fix.sh <name>  : applies /verif/proposed/<name>.diff to /repo and commits it with <name>.msg
set -e
n=$1
cd /repo
git apply --check /verif/proposed/$n.diff
git apply /verif/proposed/$n.diff
git add -A pandapower
git commit -q -F /verif/proposed/$n.msg
echo "applied $n -> $(git log --oneline | head -1)"

#!/bin/bash
# tools/finalpass.sh [tier] : runs every check once on /repo (idle machine, 16 workers), summary in /tmp/final_<tier>.log
tier=${1:-quick}
cd /verif
: > /tmp/final_$tier.log
for f in checks/C*.py; do id=$(basename $f .py)
  s=$(date +%s); VERIF_NPROC=16 timeout 3000 ./check $id --tier $tier > /tmp/final_${tier}_$id.log 2>&1; rc=$?; e=$(date +%s)
  echo "$id rc=$rc wall=$((e-s))s viol=$(grep -c '^VIOLATION' /tmp/final_${tier}_$id.log) $(grep "^$id tier" /tmp/final_${tier}_$id.log | cut -c1-150)" >> /tmp/final_$tier.log
done

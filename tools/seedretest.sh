#!/bin/bash
# tools/seedretest.sh <nproc> <names...> : re-runs the property's quick check against each seeded change (final checks)
np=$1; shift
cd /verif
for name in "$@"; do id=${name%%-*}; VERIF_NPROC=$np tools/seedtest.sh /verif/seeded/$name $name $id >> /tmp/seedretest.log 2>&1; done

#!/bin/bash
# tools/seedretest.sh <nproc> <names...> : re-runs the property's quick check against each seeded change (final checks);
# several instances may run in parallel on the same list (a marker directory makes each seed run once)
np=$1; shift
cd /verif
mkdir -p /tmp/retest_done
for name in "$@"; do
  mkdir /tmp/retest_done/$name 2>/dev/null || continue
  id=${name%%-*}; VERIF_NPROC=$np tools/seedtest.sh /verif/seeded/$name $name $id >> /tmp/seedretest.log 2>&1
done

"""C20 Saving and loading a network loses nothing - E1 over a value alphabet x formats."""
import copy
import os

import numpy as np
import pandas as pd

from mc import core
from mc import g_fullnet as gf, g_io, g_poison as gp

PROPERTY = "C20"
LEVEL = "exploration"
META = {
    "text": "A network in which every element table is non-empty and which carries std types, two controllers (one with a DFData source), two groups, two characteristics, user_pf_options and geodata is saved and loaded through every public format (to_json string / file / file object / encrypted, to_pickle file / file object, to_excel, to_sqlite) and through save/load sequences (sort_keys, indent=None, save -> partial load with elements_to_deserialize -> save -> load, two generations, json <-> pickle) after one or two slots were overwritten with a value from a finite alphabet (numeric-looking / empty / NA-like / unicode / long strings, NaN, +-inf, -0.0, subnormal, 1e308, 0.1+0.2, 1/3, 0, -1, 2**53+1, bools, None, nullable and narrow custom dtypes, date-named custom columns, gapped / permuted / named indices, result tables present).  The loaded net is walked against the original: tables, index labels / order / dtype / name, columns, dtypes, every cell (type and value, floats within 1e-14 for text formats, exact for pickle), std types, controller / characteristic objects attribute by attribute, groups, options, scalar attributes, and the results of runpp on both.  For Excel / SQLite only element-table cells that the storage format can hold are judged.",
    "note": "Trusted: mc/g_netcmp.py (the walker) and the representability predicate for xlsx / SQLite cells in mc/g_io.py.  Not demanded (statement grants it): sign of zero, None vs NaN as the missing marker of object columns, RangeIndex vs Int64 index class, list vs tuple; for Excel / SQLite also the name of an index, per-cell python types of mixed object columns, and values the cell store cannot hold (inf, |int| > 2**53 and the empty string in xlsx, list cells).  Tiny / huge floats whose only effect on runpp is to amplify the permitted 1e-14 (max_i_ka = 3e-11 kA, an angle of 1e16 degrees) are placed in columns that do not enter the power flow.  The out-of-service DC-grid specimens are saved and compared but removed from both nets before runpp (the power flow of this tree cannot number out-of-service DC buses).  Values outside the alphabet, geopandas frames and PostgreSQL are not covered.",
    "technique": "bounded exhaustive input enumeration (every 1- and 2-subset of a slot x value menu, times every format) with a structural round-trip oracle on the real I/O functions",
    "design_ref": "DESIGN.md §3 E1, §4 C20",
}

XS_FORMATS = ("excel", "sqlite")
LIST_TABLES = ("pwl_cost", "group")        # list-valued cells: not representable in xlsx / SQLite cells


# one specimen per Excel/SQLite mechanism found so far, present in every tier
XS_EXTRA = [["cell", "trafo", 0, "name", "s_1"], ["cell", "switch", 1, "type", "s_True"], ["index", "bus", "named"],
            ["cell", "bus", 2, "cust_f", "f_max"], ["cell", "bus", 1, "name", "s_None"]]


def _targets_list_tables(dev):
    return (dev[0] == "cell" and dev[1] in LIST_TABLES) or dev[0] == "pwl"


def build(case):
    net = gf.full()
    fmt = case["fmt"]
    if fmt in XS_FORMATS:
        for t in LIST_TABLES:
            net[t] = net[t].iloc[0:0]
    with_results = False
    for d in case["devs"]:
        if d[0] == "results":
            with_results = True
        else:
            gp.apply(net, d)
    if with_results:
        net = g_io.pf_view(net)
        g_io.run_pf(net)
    return net


# --------------------------------------------------------------------------------------------------------
# predicates that recompute exactly what each recorded defect does (known_findings.d/C20.json)
# --------------------------------------------------------------------------------------------------------
DBL_MIN = 2.2250738585072014e-308


def _is_inf(x):
    return isinstance(x, (float, np.floating)) and np.isinf(x)


def _missing(x):
    return x is None or x is pd.NA or (isinstance(x, (float, np.floating)) and np.isnan(x))


def _x_json_inf(case, d, fmt):
    """pandas.DataFrame.to_json writes +-inf as null: every infinite float inside a DataFrame (tables, the DFData frame of a
    controller, lists in object cells) comes back as the missing value"""
    return ("json" in fmt) and d["clause"] in ("value", "controller") and _is_inf(d.get("_a")) and _missing(d.get("_b"))


def _x_json_range(case, d, fmt):
    """DataFrame.to_json(double_precision=15) prints 15 significant digits; read_json(precise_float=True) rejects the text when
    strtod reports ERANGE: the rounded literal overflows (1.79769313486232e308) or is subnormal"""
    if not (("json" in fmt) and d["clause"] == "roundtrip_raises" and d.get("a") in ("ValueError", "UserWarning")
            and "Range error" in d.get("b", "")):     # from_json() re-raises the ValueError as UserWarning
        return False
    for dev in case["devs"]:
        if dev[0] in ("cell", "dfdata", "pwl") and dev[-1].startswith("f_"):
            v = gp.val(dev[-1])
            if v != v or np.isinf(v):
                continue
            try:
                f = float("%.15g" % v)
            except OverflowError:
                return True
            if np.isinf(f) or (v != 0 and abs(f) < DBL_MIN):
                return True
    return False


def _x_int64na(case, d, fmt):
    """nullable Int64 column that contains <NA>: the values travel as float64 (JSON: null forces a float parse; pickle file:
    DataFrame(data=[..., <NA>, ...]) infers float) -> integers beyond 2**53 are rounded"""
    a, b = d.get("_a"), d.get("_b")
    if d["clause"] != "value" or not (fmt.startswith("json") or fmt in ("pickle_file", "pickle_twice", "pickle_then_json")):   # every format that goes through JSON or to_pickle(path)
        return False
    if not any(dev[0] == "col" and dev[2] == "Int64NA" for dev in case["devs"]) or ".c_Int64NA[" not in d["where"]:
        return False
    return isinstance(a, (int, np.integer)) and isinstance(b, (int, np.integer)) and int(float(int(a))) == int(b) and int(a) != int(b)


def _x_date_named(case, d, fmt):
    """pandas.read_json(convert_dates=True) converts columns whose LABEL looks like a date ('date', 'timestamp', '*_at', ...)"""
    col = d["where"].split(".")[1].split("[")[0] if "." in d["where"] else ""
    return ("json" in fmt) and col in ("date", "timestamp") and d["clause"] in ("cell_type", "dtype", "value")


def _x_name_module(case, d, fmt):
    """json_pandapowernet() json.loads()es every string attribute of the net that contains '_module'"""
    return (("json" in fmt) and d["clause"] == "roundtrip_raises" and d.get("a") == "JSONDecodeError"
            and any(dev[0] == "attr" and isinstance(gp.val(dev[2]), str) and "_module" in gp.val(dev[2]) for dev in case["devs"]))


def _x_pickle_index_name(case, d, fmt):
    """to_pickle(net, path) stores DataFrame.to_dict('split'), which has no slot for index.name"""
    return fmt == "pickle_file" and d["clause"] == "index_name" and d.get("_b") is None and d.get("_a") is not None


def _x_excel_na_strings(case, d, fmt):
    """from_excel uses pandas.read_excel with the default NA strings: a text cell 'nan', 'None', 'null', 'NA' ... is read as missing"""
    return fmt == "excel" and d["clause"] == "value" and isinstance(d.get("_a"), str) and d["_a"] in g_io.PANDAS_NA_STRINGS \
        and _missing(d.get("_b"))


def _x_sqlite_dc_geo(case, d, fmt):
    """to_dict_of_dfs json.dumps()es the geo column of every table, from_dict_of_dfs decodes it for 'bus' and 'line' only:
    a missing geo of bus_dc / line_dc comes back as the string 'null' (Excel hides it: 'null' is an NA string there)"""
    return fmt == "sqlite" and d["where"].split("[")[0] in ("bus_dc.geo", "line_dc.geo") and _missing(d.get("_a")) and d.get("_b") == "null"


def _x_excel_text_inferred(case, d, fmt):
    """from_excel reads with pandas' type inference: an object column whose non-empty text cells ALL look like numbers /
    booleans ('1', '007', '1e5', 'inf', 'True', 'false') comes back as numbers / bools although the xlsx cells are text"""
    a, b = d.get("_a"), d.get("_b")
    if fmt != "excel" or d["clause"] != "cell_type" or not isinstance(a, str) or isinstance(b, str):
        return False
    if isinstance(b, (bool, np.bool_)):
        return a.lower() in ("true", "false") and (a.lower() == "true") == bool(b)
    try:
        return float(a) == float(b)
    except (TypeError, ValueError):
        return False


def _x_sqlite_named_index(case, d, fmt):
    """to_sqlite -> DataFrame.to_sql names the index column after index.name; from_sqlite reads index_col='index'"""
    return fmt == "sqlite" and d["clause"] == "roundtrip_raises" and d.get("a") == "KeyError" and "'index'" in d.get("b", "") \
        and any(dev[0] == "index" and dev[2] == "named" for dev in case["devs"])


def _x_partial_drop(case, d, fmt):
    """from_json_string(elements_to_deserialize=..., keep_serialized_elements=False) replaces every other serialized table by
    the table of an EMPTY net: KeyError for tables an empty net does not have (characteristic, custom tables)"""
    return fmt == "json_partial_drop" and d["clause"] == "roundtrip_raises" and d.get("a") == "KeyError" and "characteristic" in d.get("b", "")


EXPLAIN = {"partial_drop_extra_table": _x_partial_drop, "excel_text_inferred": _x_excel_text_inferred, "sqlite_named_index": _x_sqlite_named_index,
           "json_inf_as_null": _x_json_inf, "json_double_range": _x_json_range, "int64na_via_float": _x_int64na,
           "json_date_named_column": _x_date_named, "json_name_module": _x_name_module,
           "pickle_index_name_dropped": _x_pickle_index_name, "excel_na_strings": _x_excel_na_strings,
           "sqlite_dc_geo_null": _x_sqlite_dc_geo}


def _tokens(case, diff, fmt):
    toks = ["fmt=" + fmt, "family=" + ("json" if "json" in fmt else "pickle" if fmt.startswith("pickle") else fmt)]
    w = diff.get("where", "")
    toks.append("table=" + w.split(".")[0].split("[")[0])
    for d in case["devs"]:
        toks.append("dev=" + d[0])
        if d[0] in ("cell", "attr", "upo", "ctrl", "dfdata", "pwl", "geo", "stdname", "std", "char"):
            toks.append("val=" + str(d[-1]))
        if d[0] == "col":
            toks.append("colkind=" + d[2])
        if d[0] == "index":
            toks.append("index=" + d[2])
    for name, pred in EXPLAIN.items():
        if pred(case, diff, fmt):
            toks.append("explained=" + name)
    return sorted(set(toks))


def _viol(case, d, fmt, extra=()):
    toks = _tokens(case, d, fmt) + list(extra)
    pub = {k: v for k, v in d.items() if not k.startswith("_")}
    return core.violation(d["clause"], pub, tokens=toks, klass=fmt + "/" + d["clause"])


def run_case(case):
    fmt = case["fmt"]
    out = {"violations": [], "n": 1, "counts": {}}
    try:
        net = build(case)
    except Exception as e:     # the alphabet produced something pandapower itself refuses: not a round trip
        out["outcome"] = "build_" + type(e).__name__
        out["sig"] = None
        return out
    orig = gf.clone(net)
    try:
        loaded = g_io.roundtrip(net, fmt)
    except g_io.Unavailable:
        out["outcome"] = "unavailable"
        out["sig"] = None
        return out
    except Exception as e:
        import traceback
        if fmt in XS_FORMATS and any(d[0] == "cell" and not g_io.representable(fmt, gp.val(d[-1])) for d in case["devs"]):
            # a value the storage format cannot hold made the writer / reader give up: outside the Excel/SQLite clause
            out["outcome"] = "unrepresentable_value_refused"
            out["sig"] = None
            return out
        tb = traceback.extract_tb(e.__traceback__)
        site = next(("%s:%d" % (os.path.basename(f.filename), f.lineno) for f in reversed(tb) if "pandapower" in f.filename), "?")
        d = {"clause": "roundtrip_raises", "where": site, "a": type(e).__name__, "b": str(e)[:160]}
        out["violations"].append(_viol(case, d, fmt, ["exc=" + type(e).__name__]))
        out["outcome"] = "raised"
        out["sig"] = None
        return out
    # saving must not modify the net that was saved
    cm = g_io.compare_full(orig, net, "pickle")
    for d in cm.diffs[:3]:
        d["clause"] = "save_mutates_input"
        out["violations"].append(_viol(case, d, fmt))
    if fmt in XS_FORMATS:
        c = g_io.compare_elements(orig, loaded, fmt)
    elif fmt == "json_partial_drop":
        c = g_io.compare_full(orig, loaded, fmt, only=g_io.PARTIAL)     # the tables that were asked for
    else:
        c = g_io.compare_full(orig, loaded, fmt)
    seen = set()
    for d in c.diffs:
        key = (d["clause"], d["where"].split("[")[0])
        if key in seen:
            continue
        seen.add(key)
        out["violations"].append(_viol(case, d, fmt))
    out["counts"]["cells_compared"] = c.cells
    out["counts"]["float_cells_beyond_1e-14_relative_but_within_absolute"] = c.rel_only
    # calculation results: judged when the data itself came back (otherwise the difference is already reported above)
    if not c.diffs and fmt != "json_partial_drop":
        pa, pb = g_io.pf_view(orig), g_io.pf_view(loaded)
        oa = g_io.run_pf(pa)
        ob = g_io.run_pf(pb)
        out["counts"]["pf_" + oa] = 1
        if oa != ob:
            d = {"clause": "results", "where": "runpp outcome", "a": oa, "b": ob}
            out["violations"].append(_viol(case, d, fmt))
        elif oa == "ok":
            cr = g_io.compare_results(pa, pb, fmt)
            for d in cr.diffs[:2]:
                out["violations"].append(_viol(case, d, fmt))
    else:
        oa = "skipped"
    out["outcome"] = "ok"
    out["sig"] = "%s|%s|pf=%s" % (fmt, core.dhash(case["devs"]), oa)
    return out


def _xs_ok(d):
    """deviations whose subject is element-table data that a column-typed cell store can hold at all"""
    if _targets_list_tables(d) or d[0] not in ("cell", "col", "index", "geo", "results", "attr"):
        return False
    if d[0] == "col" and d[2] in ("mixed", "intname"):      # per-cell python types / non-string labels: no column store has them
        return False
    return True


def gen_cases(tier):
    cases = []
    quick = tier == "quick"
    m1 = gp.menu("quick" if quick else "thorough")
    core_menu = gp.menu("core")
    # k = 0
    for fmt in g_io.FORMATS:
        cases.append({"fmt": fmt, "devs": []})
    # k = 1
    for fmt in ("json_str", "pickle_file"):
        for d in m1:
            cases.append({"fmt": fmt, "devs": [d]})
    for d in (core_menu if quick else m1):
        cases.append({"fmt": "pickle_buf", "devs": [d]})
    transports = [d for d in core_menu if d[0] in ("cell", "attr", "col", "index", "results")]
    for fmt in ("json_file", "json_buf", "json_enc"):      # same encoder / decoder as json_str: transport only
        for d in (transports[::9] if quick else core_menu):
            cases.append({"fmt": fmt, "devs": [d]})
    xs_menu = [d for d in (core_menu if quick else gp.menu("quick")) if _xs_ok(d)]
    if quick:
        xs_menu = xs_menu[::3]
    xs_menu = xs_menu + [d for d in XS_EXTRA if d not in xs_menu]
    for fmt in XS_FORMATS:
        for d in xs_menu:
            cases.append({"fmt": fmt, "devs": [d]})
    # save/load sequences and non-default save options: k = 0 and one specimen per mechanism
    for fmt in g_io.SEQ_FORMATS:
        cases.append({"fmt": fmt, "devs": []})
        for d in (gp.SEQ_MENU if quick else core_menu[::3]):
            cases.append({"fmt": fmt, "devs": [d]})
    # k = 2
    for pair in gp.pairs(gp.MINI[:20] if quick else core_menu[::2]):
        cases.append({"fmt": "json_str", "devs": pair})
    if not quick:
        for pair in gp.pairs(gp.MINI):
            cases.append({"fmt": "pickle_file", "devs": pair})
    return cases


def explore(tier, seed):
    rep = core.Report(PROPERTY, LEVEL, tier, seed)
    core.warm(pf=True)
    gf.full()
    cases = gen_cases(tier)
    kmax = os.environ.get("VERIF_K")       # triage aid: run the same enumeration at a smaller bound (recorded in the evidence)
    if kmax:
        cases = [c for c in cases if len(c["devs"]) <= int(kmax)]
        rep.extra["restricted_by_env_VERIF_K"] = int(kmax)
    rep.rule = ("E1: the full net x format x every subset of <=2 slot/value deviations (k=1: the %s menu on json_str and pickle_file, "
                "the %s menu on pickle_buf, a transport sub-menu on json_file/json_buf/json_enc, the element-data sub-menu on "
                "excel/sqlite, a specimen menu on the save/load sequences %s; k=2: all pairs of the %s menu on json_str (thorough: also of the mini menu on pickle_file); a case is "
                "distinct+non-trivial when save and load both returned, keyed by (format, deviation-set hash, power-flow outcome)" % (
                    "quick" if tier == "quick" else "thorough", "core" if tier == "quick" else "thorough", g_io.SEQ_FORMATS,
                    "mini" if tier == "quick" else "every-second-entry-of-core"))
    rep.extra["bound_k"] = min(2, int(kmax)) if kmax else 2
    rep.extra["menu_k1"] = len(gp.menu("quick" if tier == "quick" else "thorough"))
    rep.extra["menu_pairs"] = len(gp.MINI if tier == "quick" else gp.menu("core")[::2])
    rep.extra["formats"] = list(g_io.FORMATS) + list(g_io.SEQ_FORMATS)
    rep.extra["cases"] = len(cases)
    core.run_cases(rep, run_case, cases)
    rep.assumptions = ["text formats: float cells |a-b| <= 1e-14*max(1,|a|); pickle: exact; results: 1e-9 (text) / exact (pickle)",
                       "sign of zero, None-vs-NaN missing marker, RangeIndex-vs-Index class, list-vs-tuple are not demanded",
                       "Excel/SQLite: only element tables, only columns of numpy dtype, only cells the storage format can hold",
                       "DC-grid specimens are removed from both nets before runpp"]
    return rep


def replay(case):
    return run_case(case)["violations"]

"""C20 Saving and loading a network loses nothing - E1 over a value alphabet x formats."""
import copy
import os

import numpy as np
import pandas as pd

from mc import core
from mc import g_fullnet as gf, g_io, g_poison as gp

PROPERTY = "C20"
LEVEL = "exploration"
META = {
    "text": "A network in which every element table is non-empty and which carries std types, two controllers (one with a DFData source), two groups, two characteristics, user_pf_options and geodata is saved and loaded through every public format (to_json string / file / file object / encrypted, to_pickle file / file object, to_excel, to_sqlite) after one or two slots were overwritten with a value from a finite alphabet (numeric-looking / empty / NA-like / unicode / long strings, NaN, +-inf, -0.0, subnormal, 1e308, 0.1+0.2, 1/3, 0, -1, 2**53+1, bools, None, nullable and narrow custom dtypes, date-named custom columns, gapped / permuted / named indices, result tables present).  The loaded net is walked against the original: tables, index labels / order / dtype / name, columns, dtypes, every cell (type and value, floats within 1e-14 for text formats, exact for pickle), std types, controller / characteristic objects attribute by attribute, groups, options, scalar attributes, and the results of runpp on both.  For Excel / SQLite only element-table cells that the storage format can hold are judged.",
    "note": "Trusted: mc/g_netcmp.py (the walker) and the representability predicate for xlsx / SQLite cells in mc/g_io.py.  Not demanded (statement grants it): sign of zero, None vs NaN as the missing marker of object columns, RangeIndex vs Int64 index class, list vs tuple.  The out-of-service DC-grid specimens are saved and compared but removed from both nets before runpp (the power flow of this tree cannot number out-of-service DC buses).  Values outside the alphabet, geopandas frames and PostgreSQL are not covered.",
    "technique": "bounded exhaustive input enumeration (every 1- and 2-subset of a slot x value menu, times every format) with a structural round-trip oracle on the real I/O functions",
    "design_ref": "DESIGN.md §3 E1, §4 C20",
}

XS_FORMATS = ("excel", "sqlite")
LIST_TABLES = ("pwl_cost", "group")        # list-valued cells: not representable in xlsx / SQLite cells


def _targets_list_tables(dev):
    return (dev[0] == "cell" and dev[1] in LIST_TABLES) or dev[0] == "pwl"


def build(case):
    net = gf.full()
    fmt = case["fmt"]
    if fmt in XS_FORMATS:
        for t in LIST_TABLES:
            net[t] = net[t].iloc[0:0]
    with_results = False
    for d in case["devs"]:
        if d[0] == "results":
            with_results = True
        else:
            gp.apply(net, d)
    if with_results:
        net = g_io.pf_view(net)
        g_io.run_pf(net)
    return net


def _tokens(case, diff, fmt):
    toks = ["fmt=" + fmt, "family=" + ("json" if fmt.startswith("json") else "pickle" if fmt.startswith("pickle") else fmt)]
    w = diff.get("where", "")
    toks.append("table=" + w.split(".")[0].split("[")[0])
    for d in case["devs"]:
        toks.append("dev=" + d[0])
        if d[0] in ("cell", "attr", "upo", "ctrl", "dfdata", "pwl", "geo", "stdname", "std", "char"):
            toks.append("val=" + str(d[-1]))
        if d[0] == "col":
            toks.append("colkind=" + d[2])
        if d[0] == "index":
            toks.append("index=" + d[2])
    for name, pred in EXPLAIN.items():
        if pred(case, diff, fmt):
            toks.append("explained=" + name)
    return sorted(set(toks))


# predicates recomputing exactly what a recorded defect does (filled after triage, see known_findings.d/C20.json)
EXPLAIN = {}


def run_case(case):
    fmt = case["fmt"]
    out = {"violations": [], "n": 1, "counts": {}}
    try:
        net = build(case)
    except Exception as e:     # the alphabet produced something pandapower itself refuses: not a round trip
        out["outcome"] = "build_" + type(e).__name__
        out["sig"] = None
        return out
    orig = gf.clone(net)
    try:
        loaded = g_io.roundtrip(net, fmt)
    except g_io.Unavailable as e:
        out["outcome"] = "unavailable"
        out["sig"] = None
        return out
    except Exception as e:
        import traceback
        tb = traceback.extract_tb(e.__traceback__)
        site = next(("%s:%d" % (os.path.basename(f.filename), f.lineno) for f in reversed(tb) if "pandapower" in f.filename), "?")
        d = {"clause": "roundtrip_raises", "where": site, "a": type(e).__name__, "b": str(e)[:160]}
        out["violations"].append(core.violation("roundtrip_raises", d, tokens=_tokens(case, d, fmt) + ["exc=" + type(e).__name__],
                                                klass=fmt + "/" + type(e).__name__))
        out["outcome"] = "raised"
        out["sig"] = None
        return out
    # saving must not modify the net that was saved
    cm = g_io.compare_full(orig, net, "pickle")
    for d in cm.diffs[:3]:
        out["violations"].append(core.violation("save_mutates_input", d, tokens=_tokens(case, d, fmt), klass=fmt + "/mutate"))
    if fmt in XS_FORMATS:
        c = g_io.compare_elements(orig, loaded, fmt)
    else:
        c = g_io.compare_full(orig, loaded, fmt)
    seen = set()
    for d in c.diffs:
        key = (d["clause"], d["where"].split("[")[0])
        if key in seen:
            continue
        seen.add(key)
        out["violations"].append(core.violation(d["clause"], d, tokens=_tokens(case, d, fmt), klass=fmt + "/" + d["clause"]))
    out["counts"]["cells_compared"] = c.cells
    out["counts"]["float_cells_abs_only_within_1e-14"] = c.rel_only
    # calculation results
    pa, pb = g_io.pf_view(orig), g_io.pf_view(loaded)
    oa = g_io.run_pf(pa)
    try:
        ob = g_io.run_pf(pb)
    except BaseException as e:
        ob = "crash_" + type(e).__name__
    out["counts"]["pf_" + oa] = 1
    if fmt in XS_FORMATS and (oa != "ok" or c.diffs):
        pass    # only judged when the element data itself came back
    elif oa != ob:
        d = {"clause": "results", "where": "runpp outcome", "a": oa, "b": ob}
        out["violations"].append(core.violation("results", d, tokens=_tokens(case, d, fmt), klass=fmt + "/results"))
    elif oa == "ok":
        cr = g_io.compare_results(pa, pb, fmt)
        for d in cr.diffs[:2]:
            out["violations"].append(core.violation("results", d, tokens=_tokens(case, d, fmt), klass=fmt + "/results"))
    out["outcome"] = "ok"
    out["sig"] = "%s|%s|pf=%s" % (fmt, core.dhash(case["devs"]), oa)
    return out


def gen_cases(tier):
    cases = []
    lvl = "quick" if tier == "quick" else "thorough"
    m1 = gp.menu(lvl)
    core_menu = gp.menu("core") if tier == "quick" else gp.menu("quick")
    transports = [d for d in gp.menu("core") if d[0] in ("cell", "attr", "col", "index", "results")][::3]
    # k = 0
    for fmt in g_io.FORMATS:
        cases.append({"fmt": fmt, "devs": []})
    # k = 1
    for fmt in ("json_str", "pickle_file", "pickle_buf"):
        for d in m1:
            cases.append({"fmt": fmt, "devs": [d]})
    for fmt in ("json_file", "json_buf", "json_enc"):      # same encoder / decoder as json_str: transport only
        for d in (transports if tier == "quick" else gp.menu("core")):
            cases.append({"fmt": fmt, "devs": [d]})
    xs_menu = [d for d in (gp.menu("core") if tier == "quick" else m1) if not _targets_list_tables(d)
               and d[0] in ("cell", "col", "index", "geo", "results", "attr")]
    for fmt in XS_FORMATS:
        for d in xs_menu:
            cases.append({"fmt": fmt, "devs": [d]})
    # k = 2
    for pair in gp.pairs(core_menu):
        for fmt in ("json_str", "pickle_file"):
            cases.append({"fmt": fmt, "devs": pair})
    return cases


def explore(tier, seed):
    rep = core.Report(PROPERTY, LEVEL, tier, seed)
    core.warm(pf=True)
    gf.full()
    cases = gen_cases(tier)
    rep.rule = ("E1: the full net x format x every subset of <=2 slot/value deviations (k=1: the %s menu on json_str, pickle_file, "
                "pickle_buf, a transport sub-menu on json_file/json_buf/json_enc, the element-data sub-menu on excel/sqlite; k=2: all "
                "pairs of the %s menu on json_str and pickle_file); a case is distinct+non-trivial when save and load both returned, "
                "keyed by (format, deviation-set hash, power-flow outcome)" % (
                    "quick" if tier == "quick" else "thorough", "core" if tier == "quick" else "quick"))
    rep.extra["bound_k"] = 2
    rep.extra["menu_k1"] = len(gp.menu("quick" if tier == "quick" else "thorough"))
    rep.extra["menu_pairs"] = len(gp.menu("core") if tier == "quick" else gp.menu("quick"))
    rep.extra["formats"] = list(g_io.FORMATS)
    rep.extra["cases"] = len(cases)
    core.run_cases(rep, run_case, cases)
    rep.assumptions = ["text formats: float cells |a-b| <= 1e-14*max(1,|a|); pickle: exact; results: 1e-9 (text) / exact (pickle)",
                       "sign of zero, None-vs-NaN missing marker, RangeIndex-vs-Index class, list-vs-tuple are not demanded",
                       "Excel/SQLite: only element tables, only columns of numpy dtype, only cells the storage format can hold",
                       "DC-grid specimens are removed from both nets before runpp"]
    return rep


def replay(case):
    return run_case(case)["violations"]

"""C16 OPF results are feasible operating points and a valid power flow - E1 enumeration on the real runopp / rundcopp."""
import copy

import numpy as np

import pandapower as pp

from mc import core, e_opf as eo

PROPERTY = "C16"
LEVEL = "exploration"
TOL = 1e-4          # p.u. / MVA / % (OPF family tolerance, DESIGN 2.5)
# replica branch flows: the interior-point solution reproduces voltages to ~3e-6 p.u. (measured), which the small
# per-unit impedances of the base nets (sn_mva = 1) amplify to <= 8e-4 MVA in the flows
TOL_FLOW_ABS, TOL_FLOW_REL = 2e-3, 1e-4
META = {
    "text": "Every OPF problem obtained from 3 base nets (thorough 4) by adding <=2 (thorough <=3) elements from a menu of controllable and fixed gen/sgen/load/storage/dcline/ext_grid variants with wide, tight and degenerate limits, crossed with 3 (thorough 4, on R3 6) bus-voltage-limit alphabets, 2 (on R3 3) branch-limit alphabets, 2 linear cost sets and AC/DC OPF, is solved by the real runopp/rundcopp; on every converged result each declared limit, each fixed set-point and the dc line loss law are checked and a plain runpp/rundcpp with the reported dispatch as set-points must reproduce bus voltages and branch flows.",
    "note": "Trusted: pandapower's own runpp/rundcpp as the replica solver, the limit bookkeeping in checks/C16.py. Tolerance 1e-4 (p.u./MVA/%). Non-converged OPFs are counted, not judged. Values outside the finite alphabets and nets beyond 4 buses are not covered.",
    "technique": "bounded exhaustive input enumeration (element subsets x limit alphabets x options) on the real OPF with constraint and power-flow-replica oracles",
    "design_ref": "DESIGN.md §3 E1, §4 C16",
}

MODES = ["ac", "dc"]


# ----------------------------------------------------------------------------------------------
# oracle
# ----------------------------------------------------------------------------------------------
def _fused(net):
    from mc import balance
    return balance.fused_nodes(net)


def replica(net, dc):
    """a fresh power flow with the OPF dispatch as set-points (the second half of the property)"""
    n = copy.deepcopy(net)
    rb = net.res_bus
    if len(n.gen):
        n.gen["p_mw"] = net.res_gen.p_mw.values
        n.gen["scaling"] = 1.
        # DC: magnitudes play no role; equal set-points avoid the "different set-points at one bus" refusal
        n.gen["vm_pu"] = 1. if dc else rb.vm_pu.loc[n.gen.bus.values].values
    for tab in ("sgen", "load", "storage"):
        if len(n[tab]):
            ins = n[tab].in_service.values
            n[tab].loc[ins, "p_mw"] = net["res_" + tab].p_mw.values[ins]
            if not dc:
                n[tab].loc[ins, "q_mvar"] = net["res_" + tab].q_mvar.values[ins]
            n[tab].loc[ins, "scaling"] = 1.
    n.ext_grid["vm_pu"] = 1. if dc else rb.vm_pu.loc[n.ext_grid.bus.values].values
    n.ext_grid["va_degree"] = rb.va_degree.loc[n.ext_grid.bus.values].values
    if len(n.dcline):
        n.dcline["p_mw"] = net.res_dcline.p_from_mw.values
        n.dcline["vm_from_pu"] = 1. if dc else rb.vm_pu.loc[n.dcline.from_bus.values].values
        n.dcline["vm_to_pu"] = 1. if dc else rb.vm_pu.loc[n.dcline.to_bus.values].values
    try:
        if dc:
            pp.rundcpp(n)
        else:
            try:
                # start Newton at the reported state: with free voltages (no limits, controllable ext_grid) the OPF may
                # sit at 2 p.u., which a flat start does not reach; a reported state that is no solution still moves away
                pp.runpp(n, calculate_voltage_angles=True, tolerance_mva=1e-9, init="results")
            except Exception:
                pp.runpp(n, calculate_voltage_angles=True, tolerance_mva=1e-9, init="dc")
    except Exception as e:
        return None, type(e).__name__
    return n, "ok"


BR_COLS = {"line": ("p_from_mw", "q_from_mvar", "p_to_mw", "q_to_mvar"),
           "trafo": ("p_hv_mw", "q_hv_mvar", "p_lv_mw", "q_lv_mvar")}


def _explain_fused_vlim(net, b, lo, hi, vm):
    """recorded defect: a bus fused to another bus by a closed bus-bus switch loses its own voltage limits
    (the ppc bus of the group carries the limits of one member only).  True iff the violated limit belongs to
    a bus that is fused and the voltage respects the limits of another member of its group."""
    node = _fused(net)
    grp = [x for x in net.bus.index if node[int(x)] == node[int(b)] and x != b]
    for o in grp:
        olo = net.bus.min_vm_pu.at[o] if "min_vm_pu" in net.bus else np.nan
        ohi = net.bus.max_vm_pu.at[o] if "max_vm_pu" in net.bus else np.nan
        olo = 0. if olo != olo else olo
        ohi = 2. if ohi != ohi else ohi
        if olo - TOL <= vm <= ohi + TOL:
            return True
    return False


def _explain_dcline_loss(net, i, pto_rep):
    """recorded defect: the OPF couples the two dc line terminals by  p_from = (1+l)*|p_to| + loss_mw  while the
    documented model / the power flow use  |p_to| = p_from*(1-l) - loss_mw."""
    l = net.dcline.loss_percent.at[i] / 100.
    lmw = net.dcline.loss_mw.at[i]
    pf = net.res_dcline.p_from_mw.at[i]
    pred = -(pf - lmw) / (1. + l)
    return abs(pto_rep - pred) < 1e-6 + 1e-6 * abs(pred) and abs(l) > 0


def judge(net, where, case):
    dc = case["mode"] == "dc"
    vs = []
    act = set()
    mode = case["mode"]

    def viol(clause, detail, toks=(), klass=None):
        vs.append(core.violation(clause, detail, tokens=["mode=" + mode] + list(toks), klass=klass or clause))

    rb = net.res_bus
    # ---- bus voltage limits (AC only; the DC model has no voltage magnitudes)
    if not dc and "min_vm_pu" in net.bus:
        for b in net.bus.index:
            vm = rb.vm_pu.at[b]
            if not np.isfinite(vm):
                continue
            lo, hi = net.bus.min_vm_pu.at[b], net.bus.max_vm_pu.at[b]
            lo = 0. if lo != lo else lo
            hi = 2. if hi != hi else hi
            if abs(vm - lo) < 1e-3 or abs(vm - hi) < 1e-3:
                act.add("v")
            if vm < lo - TOL or vm > hi + TOL:
                toks = ["bus_limit"]
                if _explain_fused_vlim(net, b, lo, hi, vm):
                    toks.append("explained=fused_bus_limits_lost")
                viol("bus_voltage_limit", {"bus": int(b), "vm_pu": vm, "min": lo, "max": hi}, toks, "vlim")
    # ---- gen-level voltage limits
    if not dc and "min_vm_pu" in net.gen:
        for g in net.gen.index:
            if not net.gen.in_service.at[g]:
                continue
            vm = rb.vm_pu.at[net.gen.bus.at[g]]
            lo, hi = net.gen.min_vm_pu.at[g], net.gen.max_vm_pu.at[g]
            if lo == lo and hi == hi and (vm < lo - TOL or vm > hi + TOL):
                viol("gen_voltage_limit", {"gen": int(g), "vm_pu": vm, "min": lo, "max": hi}, ["gen_vm_limit"], "gvlim")
    # ---- controllable elements inside their limits / fixed elements at their set-points
    for tab in ("gen", "sgen", "load", "storage", "ext_grid"):
        t = net[tab]
        for i in t.index:
            if not t.in_service.at[i]:
                continue
            r = net["res_" + tab]
            p = r.p_mw.at[i]
            q = r.q_mvar.at[i]
            ctrl = eo.is_controllable(net, tab, i)
            if tab == "ext_grid":
                # P/Q limits of every ext_grid are declared constraints; the voltage is fixed unless controllable=True
                ctrl_v = bool(t.controllable.at[i]) if "controllable" in t else False
                if not ctrl_v and not dc:
                    vm = rb.vm_pu.at[t.bus.at[i]]
                    if abs(vm - t.vm_pu.at[i]) > TOL:
                        viol("fixed_setpoint", {"tab": tab, "idx": int(i), "what": "vm_pu", "set": t.vm_pu.at[i], "res": vm},
                             ["fixed=ext_grid.vm"], "fixed")
                va = rb.va_degree.at[t.bus.at[i]]
                if abs(va - t.va_degree.at[i]) > 1e-3:
                    viol("fixed_setpoint", {"tab": tab, "idx": int(i), "what": "va_degree", "set": t.va_degree.at[i], "res": va},
                         ["fixed=ext_grid.va"], "fixed")
            if ctrl:
                for what, val, lo, hi in (("p", p, t.min_p_mw.at[i], t.max_p_mw.at[i]),
                                          ("q", q, t.min_q_mvar.at[i], t.max_q_mvar.at[i])):
                    if what == "q" and dc:
                        continue
                    if lo == lo and abs(val - lo) < 1e-3 or hi == hi and abs(val - hi) < 1e-3:
                        act.add(what)
                    if (lo == lo and val < lo - TOL) or (hi == hi and val > hi + TOL) or not np.isfinite(val):
                        viol("element_limit", {"tab": tab, "idx": int(i), "what": what, "res": val, "min": lo, "max": hi},
                             ["limit=%s.%s" % (tab, what)], "limit/" + tab)
            else:
                sc = t.scaling.at[i] if "scaling" in t else 1.
                if abs(p - t.p_mw.at[i] * sc) > TOL:
                    viol("fixed_setpoint", {"tab": tab, "idx": int(i), "what": "p_mw", "set": t.p_mw.at[i] * sc, "res": p},
                         ["fixed=%s.p" % tab], "fixed")
                if tab == "gen":
                    vm = rb.vm_pu.at[t.bus.at[i]]
                    if not dc and abs(vm - t.vm_pu.at[i]) > TOL:
                        viol("fixed_setpoint", {"tab": tab, "idx": int(i), "what": "vm_pu", "set": t.vm_pu.at[i], "res": vm},
                             ["fixed=gen.vm"], "fixed")
                    if not dc:   # q limits of a fixed gen are still declared limits
                        lo, hi = t.min_q_mvar.at[i], t.max_q_mvar.at[i]
                        if (lo == lo and q < lo - TOL) or (hi == hi and q > hi + TOL):
                            viol("element_limit", {"tab": tab, "idx": int(i), "what": "q", "res": q, "min": lo, "max": hi},
                                 ["limit=gen.q", "fixed_gen"], "limit/gen")
                elif not dc and abs(q - t.q_mvar.at[i] * sc) > TOL:
                    viol("fixed_setpoint", {"tab": tab, "idx": int(i), "what": "q_mvar", "set": t.q_mvar.at[i] * sc, "res": q},
                         ["fixed=%s.q" % tab], "fixed")
    # ---- dc line limits
    for i in net.dcline.index:
        if not net.dcline.in_service.at[i]:
            continue
        r = net.res_dcline
        pf = r.p_from_mw.at[i]
        mx = net.dcline.max_p_mw.at[i]
        if abs(pf - mx) < 1e-3 or abs(pf) < 1e-3:
            act.add("dcp")
        if pf < -TOL or pf > mx + TOL:
            viol("dcline_limit", {"idx": int(i), "what": "p_from_mw", "res": pf, "min": 0., "max": mx}, ["limit=dcline.p"], "limit/dcline")
        if not dc:
            for side in ("from", "to"):
                q = -r["q_%s_mvar" % side].at[i]      # injection of the converter
                lo, hi = net.dcline["min_q_%s_mvar" % side].at[i], net.dcline["max_q_%s_mvar" % side].at[i]
                if q < lo - TOL or q > hi + TOL:
                    viol("dcline_limit", {"idx": int(i), "what": "q_" + side, "res": q, "min": lo, "max": hi},
                         ["limit=dcline.q"], "limit/dcline")
    # ---- branch loading limits
    for tab in ("line", "trafo"):
        t = net[tab]
        if "max_loading_percent" not in t:
            continue
        for i in t.index:
            ml = t.max_loading_percent.at[i]
            ld = net["res_" + tab].loading_percent.at[i]
            if ml != ml or not np.isfinite(ld):
                continue
            if abs(ld - ml) < 1e-2:
                act.add("br")
            if ld > ml + 1e-3 + TOL * ml:
                viol("branch_loading_limit", {"tab": tab, "idx": int(i), "loading_percent": ld, "max": ml},
                     ["limit=%s.loading" % tab], "blim/" + tab)
    # ---- the result is a valid power flow
    n, oc = replica(net, dc)
    if n is None or not n.converged:
        viol("replica_power_flow", {"outcome": oc}, ["replica=" + oc], "replica")
    else:
        worst = None
        v0 = rb.vm_pu.values * np.exp(1j * np.deg2rad(rb.va_degree.values))
        v1 = n.res_bus.vm_pu.values * np.exp(1j * np.deg2rad(n.res_bus.va_degree.values))
        if dc:
            dv = np.abs(np.deg2rad(rb.va_degree.values - n.res_bus.va_degree.values))
        else:
            dv = np.abs(v0 - v1)
        dv = dv[np.isfinite(dv)]
        if len(dv) and dv.max() > TOL:
            worst = ("bus_voltage", float(dv.max()))
        for tab, cols in BR_COLS.items():
            if not len(net[tab]):
                continue
            for c in cols:
                if dc and c.startswith("q_"):
                    continue
                a, b = net["res_" + tab][c].values, n["res_" + tab][c].values
                d = np.abs(a - b)
                d = d[np.isfinite(d)]
                if len(d) and d.max() > TOL_FLOW_ABS + TOL_FLOW_REL * float(np.nanmax(np.abs(a))):
                    if worst is None or d.max() > worst[1]:
                        worst = ("%s.%s" % (tab, c), float(d.max()))
        if worst is not None:
            toks = ["replica_mismatch"]
            for i in net.dcline.index:
                if net.dcline.in_service.at[i] and _explain_dcline_loss(net, i, net.res_dcline.p_to_mw.at[i]) and \
                        abs(net.res_dcline.p_to_mw.at[i] - n.res_dcline.p_to_mw.at[i]) > TOL:
                    toks.append("explained=dcline_loss_relative_to_receiving_end")
                    break
            viol("replica_power_flow", {"worst": worst[0], "diff": worst[1]}, toks, "replica")
    return vs, act


# ----------------------------------------------------------------------------------------------
# enumeration
# ----------------------------------------------------------------------------------------------
def elem_menu(b, tier):
    s = eo.SCALE[b]
    h0, h1 = eo.HOT[b][0], eo.HOT[b][-1]
    far = 1
    m = [["gen", h0, 1.0 * s, 1.01, "w", "w", True],
         ["gen", h1, 0.8 * s, 1.0, "t", "t", True],
         ["gen", h0, 0.6 * s, 1.02, "d", "w", True],
         ["gen", h0, 0.5 * s, 1.01, "x", "w", False],          # fixed gen: p and vm are set-points
         ["gen", h1, 0.4 * s, 1.01, "x", "w", False],          # fixed gen on the fused twin bus (same set-point: no conflict)
         ["sgen", h0, 0.8 * s, -0.2 * s, "w", "w", True],
         ["sgen", h1, 0.5 * s, 0.1 * s, "d", "d", True],
         ["sgen", h0, 0.4 * s, 0.1 * s, "x", "x", False],       # fixed: limits must be ignored
         ["load", h0, 1.5 * s, 0.5 * s, "w", "t", True],
         ["load", h0, 1.0 * s, 0.4 * s, "t", "ds", True],
         ["storage", h0, 0.6 * s, 0.2 * s, "wn", "w", True],
         ["storage", h0, -0.5 * s, 0.1 * s, "d", "t", True],
         ["dcline", far, h1, 0.5 * s, 0., 0., 2. * s, "t", "w"],        # from / to side with different q limits
         ["dcline", 0, h0, 0.4 * s, 5., 0.05 * s, 1. * s, "w", "t"],
         ["eg", "wn", "w", True],
         ["eg", "t", "t", "nocol"]]
    if tier == "thorough":
        m += [["load", h1, 0.7 * s, 0.2 * s, "x", "x", False],
              ["sgen", h0, 0.8 * s, 0.0, "t", "w", True],
              ["storage", h1, 0.3 * s, 0.0, "x", "x", False],
              ["eg", "wn", "w", False]]
    return m


def _compatible(devs):
    # one ext_grid modification per case; dc lines only once per (from,to)
    if sum(1 for d in devs if d[0] == "eg") > 1:
        return False
    return True


def cost_set(name, elems):
    """linear costs on every controllable element + the ext_grid (set A: grid cheap, set B: grid expensive)"""
    c1 = {"A": {"eg": 1., "gen": 3., "sgen": 2., "load": 2., "storage": 1., "dcline": 0.5},
          "B": {"eg": 3., "gen": 1., "sgen": -1., "load": -4., "storage": -2., "dcline": -1.}}[name]
    out = [["poly", "eg", c1["eg"], 0., 0., 0., 0., 0.]]
    for k, d in enumerate(elems):
        if d[0] in ("gen", "sgen", "load", "storage") and d[6]:
            out.append(["poly", k, c1[d[0]], 0., 0., 0., 0., 0.])
        elif d[0] == "dcline":
            out.append(["poly", k, c1["dcline"], 0., 0., 0., 0., 0.])
    return out


def gen_cases(tier):
    from mc import netalpha as na
    cases = []
    bases = ["R3", "T3", "M4"]
    vl = ["wide", "mixed", "mixed0"] if tier == "quick" else ["wide", "mixed", "mixed0", "tight"]
    bl = ["none", "bind"]

    def product(b, elems, vls, bls, css):
        for v in vls:
            for br in bls:
                for cs in css:
                    for mode in MODES:
                        cases.append({"base": b, "elems": elems, "vlim": v, "blim": br,
                                      "costs": cost_set(cs, elems), "mode": mode})
    for b in bases:
        menu = elem_menu(b, tier)
        for devs in na.subsets(menu, 2, compatible=_compatible):
            elems = [list(d) for d in devs]
            product(b, elems, [v for v in vl if v != "mixed"], bl, ("A", "B"))
            # limits on the fused twin bus (recorded finding C16-fused-bus-vlimits): one option combination only
            product(b, elems, ("mixed",), ("none",), ("A",))
            if tier == "thorough" and b == "R3":
                # missing / NaN voltage limits (documented defaults) and a single limited branch
                product(b, elems, ("nan", "none"), ("none", "bind1"), ("A", "B"))
    if tier == "thorough":
        # k = 3 on the radial base with fused hot buses, reduced option product
        menu = elem_menu("R3", tier)
        for devs in na.subsets(menu, 3, compatible=_compatible):
            if len(devs) == 3:
                product("R3", [list(d) for d in devs], ("wide", "mixed0"), ("none",), ("B",))
    # collision of gen-level voltage limits (create_gen min_vm_pu / max_vm_pu) with bus limits, two gens on different
    # buses: build_gen._check_gen_vm_limits masks one gen's limits with the other gen's comparison result
    gv = {"out": (0.8, 1.2), "in": (1.004, 1.04), "lo_out": (0.8, 1.04), "hi_out": (1.004, 1.2)}
    s = eo.SCALE["M4"]
    for ka in gv:
        for kb in gv:
            for cs in ("A", "B"):
                elems = [["gen", 2, 1.0 * s, 1.01, "w", "w", True], ["gen", 3, 0.8 * s, 1.01, "w", "w", True],
                         ["gvm", 0] + list(gv[ka]), ["gvm", 1] + list(gv[kb])]
                cases.append({"base": "M4", "elems": elems, "vlim": "wide", "blim": "none",
                              "costs": cost_set(cs, elems), "mode": "ac"})
    return cases


def run_case(case):
    net, where = eo.build(case)
    oc = eo.run_opf(net, case["mode"])
    out = {"violations": [], "n": 1, "counts": {"outcome_%s_%s" % (case["mode"], oc): 1}, "outcome": oc, "sig": None}
    if oc != "ok":
        return out
    vs, act = judge(net, where, case)
    out["violations"] = vs
    for a in act:
        out["counts"]["active_" + a] = 1
    out["sig"] = "%s|%s|%s|%s" % (case["base"], case["mode"], "".join(sorted(act)) or "-", core.dhash(case))
    return out


def explore(tier, seed):
    rep = core.Report(PROPERTY, LEVEL, tier, seed)
    core.warm(pf=True, dc=True, opf=True)
    cases = gen_cases(tier)
    rep.rule = ("E1: every subset of <=%d (k=3: base R3 with a reduced option product) elements of the controllable/fixed element menu (gen, sgen, load, storage, dcline, "
                "ext_grid variants with wide/tight/degenerate limits) on bases R3, T3, M4, crossed with the bus-voltage-limit "
                "alphabet, the branch-limit alphabet, two linear cost sets and {runopp, rundcopp}; a case is distinct+non-trivial "
                "when the OPF converged, keyed by (base, mode, set of active constraint classes, case hash)" % (2 if tier == "quick" else 3))
    rep.extra["bound_k"] = 2 if tier == "quick" else 3
    rep.extra["cases"] = len(cases)
    core.run_cases(rep, run_case, cases)
    rep.assumptions = ["tolerance 1e-4 p.u./MVA/%; only converged OPFs are judged (OPFNotConverged is an outcome)",
                       "replica: runpp (rundcpp for DC OPF) with gens p from res_gen and vm from res_bus, sgen/load/storage p,q "
                       "from results, ext_grid vm/va from res_bus, dc line p from res_dcline",
                       "values outside the finite alphabets are not covered"]
    return rep


def replay(case):
    return run_case(case)["violations"]

"""C04 Power flow honours set-points and element response laws — E1 deviation-bounded enumeration, clause by clause."""
import copy
import os

import numpy as np

from mc import core, netalpha as na, balance, a_net

PROPERTY = "C04"
LEVEL = "exploration"
META = {
    "text": "Every network reachable from 4 base nets by <=2 (thorough <=3 on the generator/limit sub-menu) deviations from a menu of voltage-controlling elements (ext_grid vm/va alphabets, second ext_grids, 1-2 generators at the same / a fused / another bus with wide, upper-binding, lower-binding, zero-range and undefined q-limits, scaling 1/0.5, slack flag), ZIP loads, scaled sgens/storages and shunts (step 0-3 x rated-voltage ratio) is solved by the real runpp under 7 option sets (angles on/off, voltage_depend_loads on/off, enforce_q_lims on/off, numba on/off, lightsim2grid off); every clause of the statement is evaluated on the result tables of every converged run (set-points at the element's own solved bus voltage, q at/inside limits, p*scaling, ZIP law, shunt law), plus the same laws seen from the network side for a load/shunt that is alone on its node; exhaustive within that bound.",
    "note": "Trusted: reading of the result tables (res_bus at the element's bus), mc/balance.py for the network-side clause. A generator bus may deviate from its set-point only if enforce_q_lims is on and THAT generator's reported q sits at one of its limits (1e-6 Mvar); nothing is demanded about how generators at one bus share q. Elements out of service or at unsupplied buses are not judged. With voltage_depend_loads=False loads are constant power by documentation. dc lines are not in the menu (not named by the statement). A generator with slack=True exceeding its q-limits under enforce_q_lims is counted, not judged (the reference machine cannot be converted to PQ; documented PYPOWER behaviour).",
    "technique": "bounded exhaustive input enumeration (deviation-bounded, k<=2/3) on the real power flow with per-clause set-point/response-law oracles",
    "design_ref": "DESIGN.md §3 E1, §4 C04",
}

BASES = ["R3", "M4", "T3", "I2"]
CVA = {"calculate_voltage_angles": True}
OPTS = {
    "ac": dict(CVA),
    "ac_cvaF": {"calculate_voltage_angles": False},
    "ac_novdl": dict(CVA, voltage_depend_loads=False),
    "ac_qlim": dict(CVA, enforce_q_lims=True),
    "ac_qlim_nonumba": dict(CVA, enforce_q_lims=True, numba=False),
    "ac_qlim_novdl": dict(CVA, enforce_q_lims=True, voltage_depend_loads=False),
    "ac_nols": dict(CVA, lightsim2grid=False),
}
OPTSETS = list(OPTS)
# (A: collision bus, F: bus fused with A by a closed bus-bus switch or None, B: another bus)
SPOTS = {"R3": (2, 3, 1), "M4": (2, None, 1), "T3": (2, 3, 1), "I2": (1, None, 3)}
TV, TQ, TP = 1e-8, 1e-6, 1e-9


def menu(b, part="all"):
    A, F, B = SPOTS[b]
    s = 20. if b == "M4" else 1.
    eg = [["set", "ext_grid", 0, "vm_pu", 0.98], ["set", "ext_grid", 0, "vm_pu", 1.05],
          ["set", "ext_grid", 0, "va_degree", 5.], ["set", "ext_grid", 0, "va_degree", -30.],
          ["egx", A, 1.0, 0., True, 1.], ["egx", A, 1.01, 2., True, 1.], ["egx", B, 1.0, -1., True, 1.],
          ["egx", A, 1.03, 0., False, 1.]]
    if b == "I2":
        eg += [["set", "ext_grid", 1, "va_degree", 2.0], ["set", "ext_grid", 1, "vm_pu", 1.03]]
    # genx: bus, p, vm, qmin, qmax, scaling, slack, in_service, slack_weight
    gen = [["genx", A, 1.0 * s, 1.01, -50. * s, 50. * s, 1., False, True, 0.],
           ["genx", A, 0.7 * s, 1.04, -0.3 * s, 0.3 * s, 1., False, True, 0.],      # binds at max
           ["genx", A, 0.7 * s, 0.97, -0.3 * s, 0.3 * s, 1., False, True, 0.],      # binds at min
           ["genx", A, 0.8 * s, 1.01, "nan", "nan", 0.5, False, True, 0.],
           ["genx", A, 0.5 * s, 1.01, 0.1 * s, 0.1 * s, 1., False, True, 0.],       # zero q range
           ["genx", A, 0.6 * s, 1.0, -50. * s, 50. * s, 1., True, True, 1.],        # slack generator
           ["genx", A, 0.6 * s, 1.02, -0.01 * s, 0.01 * s, 1., True, True, 1.],     # slack generator, tight limits
           ["genx", A, 0.9 * s, 1.05, -50. * s, 50. * s, 1., False, False, 0.],     # out of service
           ["genx", A, 0.4 * s, 1.01, -0.1 * s, 0.1 * s, 0.5, False, True, 0.],     # shares q with the 1.01 gens
           ["genx", A, 0.4 * s, 1.04, -0.2 * s, 0.4 * s, 1., False, True, 0.],      # shares q with the 1.04 gen
           ["genx", B, 0.5 * s, 1.03, -0.3 * s, 0.3 * s, 1., False, True, 0.],
           ["genx", B, 0.5 * s, 1.0, -50. * s, 50. * s, 0.5, False, True, 0.]]
    if F is not None:
        gen += [["genx", F, 0.3 * s, 1.01, -0.2 * s, 0.2 * s, 1., False, True, 0.],
                ["genx", F, 0.3 * s, 1.04, -0.2 * s, 0.2 * s, 1., False, True, 0.]]
    # staggered limits: this generator at B is inside its limits as long as the 1.04 generator at A controls its bus and
    # violates the upper one only after A has been fixed at +-0.3 -> the enforcement loop needs a second round
    # (measured q at B before / after: R3 0.60 / 6.67, M4 36.4 / 75.6, T3 -6.8 / 2.93; I2: B is in the other island)
    stag = {"R3": (-3., 3.), "M4": (-50., 50.), "T3": (-8., 1.5), "I2": (-3., 3.)}[b]
    gen.append(["genx", B, 0.5 * s, 1.03, stag[0], stag[1], 1., False, True, 0.])
    # slack generators that share the node of an ext_grid (same vm): at the ext_grid's bus, at A (with the 1.01 / 2 deg
    # ext_grid deviation) and at the bus fused with A
    vE = float(na.base(b).ext_grid.vm_pu.iloc[0])
    gen += [["genx", 0, 0.4 * s, vE, -50. * s, 50. * s, 1., True, True, 1.],
            ["genx", A, 0.6 * s, 1.01, -50. * s, 50. * s, 1., True, True, 1.]]
    if F is not None:
        gen.append(["genx", F, 0.3 * s, 1.01, -50. * s, 50. * s, 1., True, True, 1.])
    load = [["load", A, 1.5 * s, 0.5 * s, "P", 0.5, True], ["load", A, 1.0 * s, 0.4 * s, "Z", 1., True],
            ["load", A, 1.2 * s, 0.3 * s, "I", 1., True], ["load", A, 1.0 * s, 0.5 * s, "M2", 0.5, True],
            ["load", A, 0., 0.5 * s, "M", 1., True], ["load", A, 1.0 * s, 0.2 * s, "Z", 1., False],
            ["load", B, 0.8 * s, 0.2 * s, "M", 1., True], ["load", B, 0.5 * s, 0.4 * s, "M2", 1.5, True]]
    if F is not None:
        load.append(["load", F, 0.6 * s, 0.2 * s, "I", 0.5, True])
    shunt = [["shunt", A, 0.1 * s, -0.5 * s, 1, 1.0, True], ["shunt", A, 0.05 * s, 0.3 * s, 2, 0.9, True],
             ["shunt", A, 0.1 * s, 0.2 * s, 0, 1.0, True], ["shunt", A, 0.02 * s, 0.1 * s, 3, 1.1, True],
             ["shunt", A, 0.1 * s, 0.2 * s, 1, 1.0, False], ["shunt", B, 0., -0.4 * s, 1, 1.05, True]]
    pq = [["sgen", A, 0.8 * s, -0.2 * s, 1., True], ["sgen", A, 0.5 * s, 0.1 * s, 0.5, True],
          ["storage", A, 0.6 * s, 0.2 * s, 1., True], ["storage", A, -0.5 * s, 0.1 * s, 0.5, True]]
    st = [["sn", 100.]]
    if b == "R3":
        st += [["set", "switch", 0, "closed", False], ["set", "switch", 0, "z_ohm", 0.5], ["set", "line", 1, "in_service", False],
               ["set", "load", 0, "scaling", 0.5]]
    elif b == "M4":
        st += [["set", "load", 1, "in_service", False], ["set", "line", 0, "in_service", False], ["set", "load", 0, "scaling", 0.5]]
    elif b == "T3":
        st += [["set", "switch", 0, "closed", False], ["set", "load", 0, "in_service", False], ["set", "trafo", 0, "tap_pos", -3],
               ["set", "trafo", 0, "shift_degree", 150.]]
    elif b == "I2":
        st += [["set", "switch", 0, "closed", True], ["set", "ext_grid", 1, "in_service", False], ["set", "line", 0, "in_service", False],
               ["set", "load", 0, "in_service", False], ["egx", B, 1.01, 1., True, 1.]]
    if part == "gen":
        return eg[:2] + eg[4:6] + gen + shunt[:1] + load[1:2] + st[1:2]
    return eg + gen + load + shunt + pq + st


# ----------------------------------------------------------------------------------------------
def _angle_diff(a, b):
    return abs((a - b + 180.) % 360. - 180.)


def _alone(net, acc_node, tab):
    """exactly one in-service bus element on this node, and it is a row of `tab`"""
    buses = acc_node["buses"]
    n, row = 0, None
    for t, (sg, cols) in balance.BUS_ELEMENTS.items():
        if t not in net or not len(net[t]):
            continue
        for bc, _, _ in cols:
            m = net[t][bc].isin(buses)
            if "in_service" in net[t]:
                m &= net[t]["in_service"]
            k = int(m.sum())
            n += k
            if k and t == tab:
                row = net[t].index[m.values][0]
    return row if n == 1 else None


def _all_reference(net):
    """every supplied bus carries an in-service ext_grid / slack generator (no PQ or PV bus: runpp skips Newton in
    powerflow._bypass_pf_and_set_results) - recomputed from the element tables only"""
    node = balance.fused_nodes(net)
    ref = set()
    for b in net.ext_grid.bus[net.ext_grid.in_service].values:
        ref.add(node[int(b)])
    if len(net.gen):
        for b in net.gen.bus[net.gen.in_service & net.gen.slack].values:
            ref.add(node[int(b)])
    live = [int(b) for b in net.bus.index if a_net.energized(net, b)]
    aux = (len(net.trafo3w) and net.trafo3w.in_service.any()) or (len(net.xward) and net.xward.in_service.any())
    return bool(live) and all(node[b] in ref for b in live) and not aux


def judge(net, on, opts, cnt):
    vs = []
    qlim = bool(opts.get("enforce_q_lims"))
    vdl = bool(opts.get("voltage_depend_loads", True))
    cva = bool(opts.get("calculate_voltage_angles"))
    toks0 = ["opt=" + on, "qlim" if qlim else "noqlim", "vdl_on" if vdl else "vdl_off"]
    rb = net.res_bus

    def viol(clause, detail, extra=(), klass=None):
        detail = dict(detail, opt=on)
        vs.append(core.violation(clause, detail, tokens=toks0 + list(extra), klass=klass or clause))

    # ---- ext_grid: bus holds magnitude (and angle)
    for i in net.ext_grid.index:
        e = net.ext_grid.loc[i]
        b = int(e.bus)
        if not e.in_service or not a_net.energized(net, b):
            continue
        cnt["ext_grid_judged"] = cnt.get("ext_grid_judged", 0) + 1
        if not abs(rb.at[b, "vm_pu"] - e.vm_pu) <= TV:
            viol("ext_grid_vm", {"ext_grid": int(i), "bus": b, "vm_set": e.vm_pu, "vm_bus": rb.at[b, "vm_pu"]})
        if cva and not _angle_diff(rb.at[b, "va_degree"], e.va_degree) <= 1e-7:
            viol("ext_grid_va", {"ext_grid": int(i), "bus": b, "va_set": e.va_degree, "va_bus": rb.at[b, "va_degree"]},
                 extra=["path=" + a_net.pfsoln_path(net, opts)] + (["explained=all_buses_reference"] if _all_reference(net) else []))
    # ---- gens
    n_lim = 0
    for i in net.gen.index:
        g = net.gen.loc[i]
        b = int(g.bus)
        if not g.in_service or not a_net.energized(net, b):
            continue
        cnt["gen_judged"] = cnt.get("gen_judged", 0) + 1
        q, p = net.res_gen.at[i, "q_mvar"], net.res_gen.at[i, "p_mw"]
        at_max = np.isfinite(g.max_q_mvar) and abs(q - g.max_q_mvar) <= TQ
        at_min = np.isfinite(g.min_q_mvar) and abs(q - g.min_q_mvar) <= TQ
        dev = rb.at[b, "vm_pu"] - g.vm_pu
        gt = ["gen_is_slack" if g.slack else "gen_not_slack"]
        if not abs(dev) <= TV:
            cnt["gen_bus_deviates"] = cnt.get("gen_bus_deviates", 0) + 1
            if not (qlim and (at_max or at_min)):
                viol("gen_setpoint", {"gen": int(i), "bus": b, "vm_set": g.vm_pu, "vm_bus": rb.at[b, "vm_pu"], "q_mvar": q,
                                      "min_q_mvar": g.min_q_mvar, "max_q_mvar": g.max_q_mvar}, extra=gt)
            else:
                n_lim += 1
        if qlim:
            over = (np.isfinite(g.max_q_mvar) and q > g.max_q_mvar + TQ) or (np.isfinite(g.min_q_mvar) and q < g.min_q_mvar - TQ)
            if over or not np.isfinite(q):
                if g.slack:
                    cnt["slack_gen_over_qlim_not_judged"] = cnt.get("slack_gen_over_qlim_not_judged", 0) + 1
                else:
                    viol("gen_q_limits", {"gen": int(i), "bus": b, "q_mvar": q, "min_q_mvar": g.min_q_mvar,
                                          "max_q_mvar": g.max_q_mvar}, extra=gt)
        if not g.slack:
            want = g.p_mw * g.scaling
            if not abs(p - want) <= TP + 1e-10 * abs(want):
                viol("p_setpoint", {"table": "gen", "index": int(i), "p_mw": p, "expected": want}, extra=["tab=gen"])
    if n_lim:
        cnt["runs_with_gen_at_limit"] = cnt.get("runs_with_gen_at_limit", 0) + 1
        cnt["runs_with_%d_gens_at_limit" % min(n_lim, 3)] = cnt.get("runs_with_%d_gens_at_limit" % min(n_lim, 3), 0) + 1
    # ---- sgen / storage: p*scaling, q*scaling
    for tab in ("sgen", "storage"):
        for i in net[tab].index:
            e = net[tab].loc[i]
            if not e.in_service or not a_net.energized(net, int(e.bus)):
                continue
            cnt[tab + "_judged"] = cnt.get(tab + "_judged", 0) + 1
            for col in ("p_mw", "q_mvar"):
                got, want = net["res_" + tab].at[i, col], e[col] * e.scaling
                if not abs(got - want) <= TP + 1e-10 * abs(want):
                    viol("p_setpoint", {"table": tab, "index": int(i), "column": col, "result": got, "expected": want},
                         extra=["tab=" + tab])
    # ---- loads: ZIP law at the load's own solved bus voltage (constant power when voltage_depend_loads is off)
    for i in net.load.index:
        e = net.load.loc[i]
        b = int(e.bus)
        if not e.in_service or not a_net.energized(net, b):
            continue
        v = rb.at[b, "vm_pu"]
        zipl = any(e[c] != 0 for c in ("const_z_p_percent", "const_i_p_percent", "const_z_q_percent", "const_i_q_percent"))
        cnt["load_judged"] = cnt.get("load_judged", 0) + 1
        if zipl and vdl:
            cnt["zip_load_judged"] = cnt.get("zip_load_judged", 0) + 1
        for col, cz, ci in (("p_mw", e.const_z_p_percent / 100., e.const_i_p_percent / 100.),
                            ("q_mvar", e.const_z_q_percent / 100., e.const_i_q_percent / 100.)):
            fac = (1. - cz - ci) + ci * v + cz * v * v if vdl else 1.
            got, want = net.res_load.at[i, col], e[col] * e.scaling * fac
            if not abs(got - want) <= TP + 1e-10 * abs(want):
                viol("load_law" if (zipl and vdl) else "p_setpoint",
                     {"table": "load", "index": int(i), "column": col, "result": got, "expected": want, "vm_bus": v},
                     extra=["tab=load", "zip" if zipl else "const_power"])
    # ---- shunts: step*p*(v*vn_bus/vn_shunt)^2
    for i in net.shunt.index:
        e = net.shunt.loc[i]
        b = int(e.bus)
        if not e.in_service or not a_net.energized(net, b):
            continue
        v = rb.at[b, "vm_pu"]
        cnt["shunt_judged"] = cnt.get("shunt_judged", 0) + 1
        fac = e.step * (v * net.bus.at[b, "vn_kv"] / e.vn_kv) ** 2
        for col in ("p_mw", "q_mvar"):
            got, want = net.res_shunt.at[i, col], e[col] * fac
            if not abs(got - want) <= TP + 1e-10 * abs(want):
                viol("shunt_law", {"shunt": int(i), "column": col, "result": got, "expected": want, "vm_bus": v, "step": int(e.step)},
                     extra=["tab=shunt"])
    # ---- the same laws seen from the network: a load / shunt alone on its node receives exactly the law's power
    acc, _, _ = balance.nodal_sums(net)
    # ---- "the gen sits exactly at that limit" seen from the network: with enforce_q_lims the node of every generator
    # really receives the reported p/q of its generators (nodes with a voltage dependent load: recorded defect C01-zip)
    if qlim:
        node = balance.fused_nodes(net)
        gnodes = {node[int(b)] for b in net.gen.bus[net.gen.in_service].values}
        for n in sorted(gnodes):
            a = acc.get(n)
            if a is None or not any(a_net.energized(net, b) for b in a["buses"]):
                continue
            ld = net.load[net.load.in_service & net.load.bus.isin(a["buses"])]
            if vdl and len(ld) and (ld[["const_z_p_percent", "const_i_p_percent", "const_z_q_percent", "const_i_q_percent"]].abs().sum().sum() > 0):
                continue
            cnt["gen_node_balance_judged"] = cnt.get("gen_node_balance_judged", 0) + 1
            mis = a["elem"] + a["branch"]
            scale = max(1., abs(a["elem"]), abs(a["branch"]))
            if abs(mis.real) > 1e-5 + 1e-7 * scale or abs(mis.imag) > 1e-5 + 1e-7 * scale:
                viol("gen_limit_network", {"node_buses": sorted(a["buses"]), "mismatch": [mis.real, mis.imag],
                                           "gens": [[int(i), float(net.res_gen.at[i, "q_mvar"])] for i in net.gen.index[net.gen.bus.isin(a["buses"])]]},
                     extra=["kind=" + k for k in sorted(a["kinds"])])
    for n, a in acc.items():
        if not any(a_net.energized(net, b) for b in a["buses"]):
            continue
        for tab in ("load", "shunt"):
            i = _alone(net, a, tab)
            if i is None:
                continue
            e = net[tab].loc[i]
            v = rb.at[int(e.bus), "vm_pu"]
            if tab == "load":
                fp = (1. - (e.const_z_p_percent + e.const_i_p_percent) / 100.) + e.const_i_p_percent / 100. * v + e.const_z_p_percent / 100. * v * v if vdl else 1.
                fq = (1. - (e.const_z_q_percent + e.const_i_q_percent) / 100.) + e.const_i_q_percent / 100. * v + e.const_z_q_percent / 100. * v * v if vdl else 1.
                want = complex(e.p_mw * e.scaling * fp, e.q_mvar * e.scaling * fq)
            else:
                fac = e.step * (v * net.bus.at[int(e.bus), "vn_kv"] / e.vn_kv) ** 2
                want = complex(e.p_mw * fac, e.q_mvar * fac)
            got = -a["branch"]
            cnt["network_side_" + tab] = cnt.get("network_side_" + tab, 0) + 1
            if abs(got - want) > 1e-5 + 1e-7 * abs(want):
                viol(tab + "_law_network", {"table": tab, "index": int(i), "branch_inflow": [got.real, got.imag],
                                            "expected": [want.real, want.imag], "vm_bus": v}, extra=["tab=" + tab])
    return vs


def run_case(case):
    net0 = a_net.build(case)
    out = {"violations": [], "n": 0, "counts": {}}
    sigs, ok = [], 0
    cnt = out["counts"]
    for on in case["optsets"]:
        opts = OPTS[on]
        net = copy.deepcopy(net0)
        oc = a_net.run_pf(net, opts)
        out["n"] += 1
        cnt["outcome_" + oc] = cnt.get("outcome_" + oc, 0) + 1
        if oc != "ok":
            continue
        ok += 1
        c1 = {}
        out["violations"] += judge(net, on, opts, c1)
        for k, v in c1.items():
            cnt[k] = cnt.get(k, 0) + v
        path = a_net.pfsoln_path(net, opts)
        cnt["path_" + path] = cnt.get("path_" + path, 0) + 1
        sigs.append("%s|%s|%s|lim=%d|dev=%d" % (case["base"], on, core.dhash(case["devs"]),
                                                c1.get("runs_with_gen_at_limit", 0), c1.get("gen_bus_deviates", 0)))
    out["outcome"] = "ok" if ok else "none_converged"
    out["sig"] = sigs
    return out


def optsets_for(devs):
    """budget: every case with <=1 deviation runs under all option sets; a pair runs under "ac" and "ac_qlim" plus the option
    sets that are about one of its deviations (angles: ext_grid / slack generator; voltage_depend_loads: ZIP load;
    PYPOWER back-substitution and q-limit variants: generator; pandapower Newton: two generators)"""
    if len(devs) <= 1:
        return OPTSETS
    o = ["ac", "ac_qlim"]
    eg = any(d[0] == "egx" or (d[0] == "set" and d[1] == "ext_grid") or (d[0] == "genx" and d[7]) for d in devs)
    zl = any(d[0] == "load" and d[4] != "P" for d in devs)
    ge = any(d[0] == "genx" for d in devs)
    if eg:
        o.append("ac_cvaF")
    if zl:
        o.append("ac_novdl")
    if ge:
        o.append("ac_qlim_nonumba")
    if ge and zl:
        o.append("ac_qlim_novdl")
    if sum(d[0] == "genx" for d in devs) == 2:
        o.append("ac_nols")
    return o


def gen_cases(tier):
    cases = []
    bases = os.environ.get("A_BASES", "").split(",") if os.environ.get("A_BASES") else BASES   # A_BASES: development only
    for b in bases:
        for devs in na.subsets(menu(b), 2):
            cases.append({"base": b, "devs": [list(d) for d in devs], "optsets": optsets_for(devs)})
        if tier == "thorough":
            for devs in na.subsets(menu(b, "gen"), 3):
                if len(devs) == 3:
                    cases.append({"base": b, "devs": [list(d) for d in devs],
                                  "optsets": ["ac", "ac_qlim", "ac_qlim_nonumba", "ac_qlim_novdl"]})
    return cases


def explore(tier, seed):
    rep = core.Report(PROPERTY, LEVEL, tier, seed)
    core.warm(pf=True)
    cases = gen_cases(tier)
    rep.rule = ("E1: every subset of <=2 pairwise-compatible deviations from the set-point/response menu of bases %s (thorough: "
                "additionally every 3-subset of the generator/q-limit sub-menu under the enforce_q_lims option sets), each under "
                "option sets %s; a case counts as distinct+non-trivial when the power flow converged, keyed by (base, option set, "
                "deviation-set hash, a generator sits at a q-limit, number of generator buses off their set-point)" % (BASES, OPTSETS))
    rep.extra["bound_k"] = 2 if tier == "quick" else 3
    rep.extra["deviation_sets"] = len(cases)
    rep.extra["menu_sizes"] = {b: len(menu(b)) for b in BASES}
    core.run_cases(rep, run_case, cases)
    rep.assumptions = ["voltage set-points 1e-8 p.u., angles 1e-7 deg, q 'at a limit' 1e-6 Mvar, reported laws 1e-9 MW + 1e-10 rel, "
                       "network-side laws 1e-5 MVA + 1e-7 rel", "only converged power flows are judged; elements out of service "
                       "or at unsupplied buses are not judged", "values outside the finite deviation alphabets are not covered"]
    return rep


def replay(case):
    return run_case(case)["violations"]

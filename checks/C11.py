"""C11 three-phase power flow consistent with the symmetric power flow - E1 deviation-bounded enumeration,
differential oracle (runpp_3ph vs runpp) for symmetric nets, per-phase bookkeeping oracle for unbalanced nets."""
import cmath
import copy
import itertools
import math
import time

import numpy as np

import pandapower as pp

from mc import core, netalpha as na, f_3ph

PROPERTY = "C11"
LEVEL = "exploration"
META = {
    "text": "Every network reachable from the radial line net R3 and the transformer net T3 (vector groups Dyn, YNyn, Yzn; zero-sequence data on ext_grid, lines, transformer) by <=2 deviations from a menu of symmetric wye/delta loads and sgens, switching/parallel/sn_mva/second-ext_grid edits and asymmetric loads/sgens with phase powers from {0, 0.1, 0.3} is solved by the real runpp_3ph. Symmetric networks are compared with runpp (phase voltage magnitudes, angles 0/-120/+120, one third of every bus/branch/ext_grid power); for unbalanced networks the phase powers of every element are summed against its total and per-phase nodal balance is evaluated from the res_*_3ph tables. Exhaustive within that bound, no sampling.",
    "note": "Trusted: the per-phase bookkeeping in mc/f_3ph.py (sign conventions of the res_*_3ph tables) and runpp as reference for symmetric nets (same trafo_model 't', voltage angles on, constant-power loads). Only element kinds runpp_3ph documents as supported are in the alphabet; configurations it refuses or does not converge on are counted as outcomes. Delta-connected elements report line-to-line branch powers; for the per-phase nodal balance they are converted to phase-to-earth powers at the reported bus voltages.",
    "technique": "bounded exhaustive input enumeration (deviation-bounded k<=2) on the real runpp_3ph with a differential oracle against runpp and a per-phase nodal-balance invariant",
    "design_ref": "DESIGN.md §3 E1, §4 C11",
}

VTOL = 1e-6
PTOL = 1e-5
PTOL_PHASE = 5e-4     # per-phase balance in unbalanced nets: runpp_3ph stops on the positive-sequence mismatch only (3e-8 p.u.),
                      # the negative/zero-sequence current-injection fixed point is then converged to ~1e-4 MVA
VGROUPS = ["Dyn", "YNyn", "Yzn"]


def _ptol(scale):
    return PTOL + 1e-6 * scale


def _others_at_eg_nodes(net3):
    """recorded defect C11-ext-grid-bus-load: res_ext_grid_3ph is the network current of the ext_grid BUS, i.e. the ext_grid
    power minus the consumption of the loads/sgens of that (fused) bus.  Returns {bus: [3 complex consumption of the other
    elements of the node]} for every bus of a node that carries an ext_grid, and {ext_grid index: bus}."""
    acc, _ = f_3ph.phase_sums(net3)
    out = {}
    r = net3.res_ext_grid_3ph
    for n, a in acc.items():
        egs = [i for i in net3.ext_grid.index if int(net3.ext_grid.at[i, "bus"]) in a["buses"]]
        if not egs:
            continue
        eg = [sum(complex(float(r.at[i, "p_%s_mw" % ph]), float(r.at[i, "q_%s_mvar" % ph])) for i in egs) for ph in f_3ph.PH]
        oth = [a["elem"][k] + eg[k] for k in range(3)]
        for b in a["buses"]:
            out[b] = oth
    return out


def _explained(diffs, oth):
    """diffs: 3 complex (reported - expected)"""
    return oth is not None and any(abs(x) > PTOL for x in oth) and all(abs(diffs[k] - oth[k]) <= _ptol(abs(oth[k])) for k in range(3))


def judge_balanced(net3, net1, toks0):
    """clauses of the first sentence: voltages, angles, one third of the symmetric results"""
    vs = []
    oth = _others_at_eg_nodes(net3)
    EX = ["explained=ext_grid_reports_bus_injection"]
    rb3, rb1 = net3.res_bus_3ph, net1.res_bus
    for b in net1.bus.index:
        b = int(b)
        vm, va = float(rb1.at[b, "vm_pu"]), float(rb1.at[b, "va_degree"])
        vms = [float(rb3.at[b, "vm_%s_pu" % ph]) for ph in f_3ph.PH]
        vas = [float(rb3.at[b, "va_%s_degree" % ph]) for ph in f_3ph.PH]
        if vm != vm:
            if any(x == x for x in vms):
                vs.append(core.violation("supplied_set", {"bus": b, "runpp_vm": vm, "runpp_3ph_vm": vms}, tokens=toks0, klass="nan"))
            continue
        if any(x != x for x in vms):
            vs.append(core.violation("supplied_set", {"bus": b, "runpp_vm": vm, "runpp_3ph_vm": vms}, tokens=toks0, klass="nan"))
            continue
        worst = 0.
        for k, sh in enumerate((0., -120., 120.)):
            d = abs(cmath.rect(vms[k], math.radians(vas[k])) - cmath.rect(vm, math.radians(va + sh)))
            worst = max(worst, d)
        if max(abs(x - vm) for x in vms) > VTOL:
            vs.append(core.violation("vm_equal", {"bus": b, "vm_pu": vm, "vm_abc": vms}, tokens=toks0, klass="vm"))
        elif worst > VTOL:
            vs.append(core.violation("va_shift", {"bus": b, "va_degree": va, "va_abc": vas, "complex_error": worst}, tokens=toks0, klass="va"))
        for pq, col in (("p", "mw"), ("q", "mvar")):
            tot = float(rb1.at[b, "%s_%s" % (pq, col)])
            ph = [float(rb3.at[b, "%s_%s_%s" % (pq, x, col)]) for x in f_3ph.PH]
            if any(abs(x - tot / 3.) > _ptol(abs(tot)) or x != x for x in ph):
                part = (lambda z: z.real) if pq == "p" else (lambda z: z.imag)
                ex = EX if b in oth and all(abs(ph[k] - tot / 3. - part(oth[b][k])) <= _ptol(abs(tot)) for k in range(3)) else []
                vs.append(core.violation("bus_pq_third", {"bus": b, "quantity": pq, "runpp_total": tot, "phases": ph}, tokens=toks0 + ex, klass="bus_pq"))
    for tab, sides in (("line", ("from", "to")), ("trafo", ("hv", "lv"))):
        if not len(net1[tab]):
            continue
        r3, r1 = net3["res_%s_3ph" % tab], net1["res_" + tab]
        for i in net1[tab].index:
            for side in sides:
                for pq, col in (("p", "mw"), ("q", "mvar")):
                    tot = float(r1.at[i, "%s_%s_%s" % (pq, side, col)])
                    ph = [float(r3.at[i, "%s_%s_%s_%s" % (pq, x, side, col)]) for x in f_3ph.PH]
                    if all(x != x for x in ph) and (tot != tot or abs(tot) <= PTOL):
                        continue        # de-energised branch: NaN (runpp_3ph) vs 0 / NaN (runpp) is not a power difference
                    if tot != tot:
                        if any(x == x and abs(x) > PTOL for x in ph):
                            vs.append(core.violation("branch_pq_third", {"table": tab, "index": int(i), "side": side, "quantity": pq,
                                                                         "runpp_total": tot, "phases": ph}, tokens=toks0 + ["tab=" + tab], klass=tab))
                        continue
                    if any(x != x or abs(x - tot / 3.) > _ptol(abs(tot)) for x in ph):
                        vs.append(core.violation("branch_pq_third", {"table": tab, "index": int(i), "side": side, "quantity": pq,
                                                                     "runpp_total": tot, "phases": ph}, tokens=toks0 + ["tab=" + tab], klass=tab))
    r3, r1 = net3.res_ext_grid_3ph, net1.res_ext_grid
    for i in net1.ext_grid.index:
        for pq, col in (("p", "mw"), ("q", "mvar")):
            tot = float(r1.at[i, "%s_%s" % (pq, col)])
            ph = [float(r3.at[i, "%s_%s_%s" % (pq, x, col)]) for x in f_3ph.PH]
            if tot != tot:
                continue
            if any(x != x or abs(x - tot / 3.) > _ptol(abs(tot)) for x in ph):
                part = (lambda z: z.real) if pq == "p" else (lambda z: z.imag)
                b = int(net1.ext_grid.at[i, "bus"])
                ex = EX if b in oth and all(abs(tot / 3. - ph[k] - part(oth[b][k])) <= _ptol(abs(tot)) for k in range(3)) else []
                vs.append(core.violation("ext_grid_pq_third", {"index": int(i), "quantity": pq, "runpp_total": tot, "phases": ph},
                                         tokens=toks0 + ex, klass="ext_grid"))
    for tab in ("load", "sgen"):
        if not len(net1[tab]):
            continue
        r3, r1 = net3["res_%s_3ph" % tab], net1["res_" + tab]
        for i in net1[tab].index:
            for c in ("p_mw", "q_mvar"):
                x, y = float(r3.at[i, c]), float(r1.at[i, c])
                if (x != x) != (y != y) or (x == x and abs(x - y) > _ptol(abs(y))):
                    vs.append(core.violation("element_total", {"table": tab, "index": int(i), "column": c, "runpp": y, "runpp_3ph": x},
                                             tokens=toks0 + ["tab=" + tab], klass=tab))
    return vs


def judge_phases(net3, toks0, sym):
    """clauses of the second sentence: phase powers of every element sum to its total; per-phase nodal balance"""
    vs = []
    supplied = {int(b) for b in net3.bus.index if np.isfinite(net3.res_bus_3ph.at[b, "vm_a_pu"])}
    # element totals
    for tab in ("asymmetric_load", "asymmetric_sgen"):
        t = net3[tab]
        if not len(t):
            continue
        r = net3["res_%s_3ph" % tab]
        for i in t.index:
            live = bool(t.at[i, "in_service"]) and int(t.at[i, "bus"]) in supplied
            for pq, col in (("p", "mw"), ("q", "mvar")):
                spec = sum(float(t.at[i, "%s_%s_%s" % (pq, ph, col)]) for ph in f_3ph.PH) * float(t.at[i, "scaling"]) * (1. if live else 0.)
                ph = [float(r.at[i, "%s_%s_%s" % (pq, x, col)]) for x in f_3ph.PH]
                if any(x != x for x in ph) and not live:
                    continue
                if any(x != x for x in ph) or abs(sum(ph) - spec) > _ptol(abs(spec)):
                    vs.append(core.violation("phase_sum_total", {"table": tab, "index": int(i), "quantity": pq, "phases": ph, "total": spec},
                                             tokens=toks0 + ["tab=" + tab], klass=tab))
    for tab in ("load", "sgen"):
        t = net3[tab]
        if not len(t):
            continue
        r = net3["res_%s_3ph" % tab]
        for i in t.index:
            live = bool(t.at[i, "in_service"]) and int(t.at[i, "bus"]) in supplied
            for c in ("p_mw", "q_mvar"):
                spec = float(t.at[i, c]) * float(t.at[i, "scaling"]) * (1. if live else 0.)
                x = float(r.at[i, c])
                if x != x and not live:
                    continue
                if x != x or abs(x - spec) > _ptol(abs(spec)):
                    vs.append(core.violation("phase_sum_total", {"table": tab, "index": int(i), "column": c, "reported_total": x, "total": spec},
                                             tokens=toks0 + ["tab=" + tab], klass=tab))
    # per-phase nodal balance
    acc, perbus = f_3ph.phase_sums(net3)
    oth = _others_at_eg_nodes(net3)
    rb = net3.res_bus_3ph
    for n, a in sorted(acc.items()):
        buses = sorted(a["buses"])
        if not any(b in supplied for b in buses):
            continue
        scale = max([1.] + [abs(x) for x in a["elem"]] + [abs(x) for x in a["branch"]])
        if not sym:
            scale += (PTOL_PHASE - PTOL) / 1e-6
        mis = [a["elem"][k] + a["branch"][k] for k in range(3)]
        toks = toks0 + ["kind=" + k for k in sorted(a["kinds"])]
        o = oth.get(buses[0])
        if o is not None and any(abs(x) > PTOL for x in o):
            if all(abs(mis[k] - o[k]) <= _ptol(scale) for k in range(3)):
                toks = toks + ["explained=ext_grid_reports_bus_injection"]
        if False:   # (delta elements are converted to phase-to-earth powers in f_3ph.phase_sums: judged per phase like all others)
            tot = sum(mis)
            if abs(tot.real) > _ptol(scale) or abs(tot.imag) > _ptol(scale):
                vs.append(core.violation("nodal_balance_phase_sum", {"node_buses": buses, "mismatch_sum": [tot.real, tot.imag]},
                                         tokens=toks + ["delta"], klass="balance_sum"))
            continue
        bad = [k for k in range(3) if abs(mis[k].real) > _ptol(scale) or abs(mis[k].imag) > _ptol(scale)]
        if bad:
            vs.append(core.violation("nodal_balance_phase", {
                "node_buses": buses, "phases": [f_3ph.PH[k] for k in bad],
                "elements": [[x.real, x.imag] for x in a["elem"]], "branches": [[x.real, x.imag] for x in a["branch"]],
                "mismatch": [[x.real, x.imag] for x in mis]}, tokens=toks, klass="balance"))
    for b, s in perbus.items():
        if b not in supplied:
            continue
        for k, ph in enumerate(f_3ph.PH):
            rp, rq = float(rb.at[b, "p_%s_mw" % ph]), float(rb.at[b, "q_%s_mvar" % ph])
            if rp != rp or rq != rq or abs(rp - s[k].real) > _ptol(abs(s[k])) or abs(rq - s[k].imag) > _ptol(abs(s[k])):
                vs.append(core.violation("res_bus_3ph_pq", {"bus": b, "phase": ph, "res_bus_3ph": [rp, rq], "elements": [s[k].real, s[k].imag]},
                                         tokens=toks0, klass="res_bus"))
                break
    return vs


def run_case(case):
    t_cpu = time.process_time()
    out = _run_case(case)
    out.setdefault("counts", {})["cpu_ms_total"] = int(1000 * (time.process_time() - t_cpu))
    return out


def _run_case(case):
    net = f_3ph.build(case)
    out = {"violations": [], "n": 1, "counts": {}, "sig": None}
    sym = all(f_3ph.is_symmetric_dev(d) for d in case["devs"])
    vg = str(net.trafo.vector_group.iloc[0]) if len(net.trafo) else "none"
    toks0 = ["vg=" + vg, "net_sn_mva=%g" % float(net.sn_mva)] + sorted(set("dev=" + (d[0] if d[0] != "set" else "set:%s.%s" % (d[1], d[3])) for d in case["devs"]))
    net3 = copy.deepcopy(net)
    oc = f_3ph.run_3ph(net3)
    out["counts"]["outcome3ph_" + oc] = 1
    out["outcome"] = oc
    if oc != "ok":
        return out
    out["violations"] += judge_phases(net3, toks0 + ["sym" if sym else "unbalanced"], sym)
    if sym:
        net1 = copy.deepcopy(net)
        out["n"] += 1
        try:
            pp.runpp(net1, trafo_model="t", calculate_voltage_angles=True, tolerance_mva=1e-9, voltage_depend_loads=False)
            ok1 = bool(net1.converged)
        except Exception as e:
            out["counts"]["runpp_" + type(e).__name__] = 1
            ok1 = False
        if ok1:
            out["violations"] += judge_balanced(net3, net1, toks0 + ["sym"])
            out["sig"] = "sym|%s|%s" % (case["base"], core.dhash(case["devs"]))
    else:
        out["sig"] = "unb|%s|%s" % (case["base"], core.dhash(case["devs"]))
    return out


def _vg_dev(vg):
    return [] if vg == "Dyn" else [["set", "trafo", 0, "vector_group", vg]]


def gen_cases(tier):
    cases = []
    seen = set()

    def add(b, devs):
        key = core.dhash([b, devs])
        if key not in seen:
            seen.add(key)
            cases.append({"base": b, "devs": devs})
    for b in f_3ph.BASES:
        sm = f_3ph.sym_menu(b, tier)
        am = f_3ph.asym_menu(tier)
        # symmetric part: every subset of <= 2 (thorough 3) symmetric/structure deviations
        for devs in na.subsets(sm, 3 if tier == "thorough" else 2):
            add(b, [list(d) for d in devs])
        vgs = VGROUPS if b == "T3" else ["none"]
        for vg in vgs:
            pre = _vg_dev(vg) if b == "T3" else []
            for a in am:
                add(b, pre + [a])
                # an asymmetric element colliding with each symmetric/structure deviation
                for s in sm:
                    if s[0] == "set" and s[1] == "trafo" and s[3] == "vector_group":
                        continue
                    add(b, pre + [s, a])
            # asymmetric x asymmetric collisions
            am2 = am if tier == "thorough" else [x for i, x in enumerate(am) if i % 7 == 3 or x[1] == 3 or x[4] == "delta"]
            for a1, a2 in itertools.combinations(am2, 2):
                add(b, pre + [a1, a2])
    cases.sort(key=lambda c: len(c["devs"]))
    return cases


def explore(tier, seed):
    rep = core.Report(PROPERTY, LEVEL, tier, seed)
    core.warm(pf=True)
    f_3ph.run_3ph(na.base("T3"))          # compile the three-phase kernels before forking
    cases = gen_cases(tier)
    rep.rule = ("E1 over bases %s: (a) every subset of <=%d symmetric-load/sgen + structure deviations (mc/f_3ph.sym_menu) -> runpp_3ph vs runpp; "
                "(b) for every transformer vector group %s: every asymmetric load/sgen with phase powers from {0,0.1,0.3}^3 alone and "
                "combined with every symmetric/structure deviation, and every pair of %s asymmetric elements -> per-phase bookkeeping. "
                "A case is distinct+non-trivial when runpp_3ph converged (and runpp converged for the comparison), keyed by (base, deviation hash)"
                % (f_3ph.BASES, 3 if tier == "thorough" else 2, VGROUPS, "all" if tier == "thorough" else "a fixed every-7th + delta + fused-bus subset of"))
    rep.extra["bound_k"] = 3 if tier == "thorough" else 2
    rep.extra["cases"] = len(cases)
    rep.extra["menu_sizes"] = {"sym_R3": len(f_3ph.sym_menu("R3", tier)), "sym_T3": len(f_3ph.sym_menu("T3", tier)), "asym": len(f_3ph.asym_menu(tier))}
    core.run_cases(rep, run_case, cases)
    rep.assumptions = ["voltages compared as complex numbers to 1e-6 p.u.; powers 1e-5 MVA abs + 1e-6 rel; per-phase nodal balance of unbalanced nets 5e-4 MVA (stopping rule of the sequence-frame iteration)",
                       "only converged runpp_3ph runs are judged; refusals (unsupported vector group, three-winding transformer) are outcomes",
                       "values outside the finite alphabets are not covered"]
    return rep


def replay(case):
    return run_case(case)["violations"]

"""C15 run_contingency_parallel == run_contingency for every worker count and every completion order.
E5: the multiprocessing pool of contingency_parallel is replaced by a controlled in-process pool (mc/d_fakepool.py);
every completion order of the chunks x n_procs in {1,2,3,4} is executed; real multiprocessing pools bind the fake."""
import copy
import itertools

import numpy as np

from mc import core, d_nets as dn, d_nminus1 as nm, d_fakepool as fp

PROPERTY = "C15"
LEVEL = "exploration"
META = {
    "text": "For ordered N-1 case lists (<=5 tasks, plus one 9-task list per net that forces chunksize 2) on three meshed networks run_contingency_parallel is executed with n_procs 1,2,3,4 while `contingency_parallel.mp` is replaced by a controlled pool that pickles callable/arguments/results like multiprocessing, chunks like Pool.map and completes the chunks in EVERY permutation (<=120 per list and worker count); every returned dict must equal the dict of the sequential run_contingency (all keys, all values, NaN-aware) and the dicts of all other schedules; real multiprocessing.Pool runs with 2 and 3 processes per net must reproduce the controlled pool's dict.",
    "note": "Trusted: mc/d_fakepool.py models completion order only (not which OS process runs which chunk, no per-process global state); chunk results are memoised per pickled payload and the memo is validated by un-memoised identity and reversed schedules. All permutations are run, a superset of the orders that are feasible with a given worker count (feasible count is reported). cause_* entries without a maximum (uninitialised memory) are not compared. LEVEL is 'exploration': schedules are counted, not reported as a state graph.",
    "technique": "exhaustive enumeration of worker completion orders under a controlled pool on the real aggregation code, differential against the sequential analysis",
    "design_ref": "DESIGN.md §3 E5, §4 C15",
}

NETS = ("M4L", "M4T", "W3M")
TIES = {"M4T": [[["trafo", [0, 1]]], [["trafo", [1, 0]]], [["line", [0]], ["trafo", [1, 0]]], [["trafo", [1, 2, 0]]],
                [["trafo", [0, 2, 1]], ["line", [5]]]],
        "W3M": [[["line", [0, 1]]], [["line", [1, 0]]], [["trafo", [0]], ["line", [1, 0]]], [["line", [1, 2, 0]]]]}
PROCS = (1, 2, 3, 4)
MAX_CHUNKS = 5


def _call(cp, net, desc, n_procs, raise_errors=False):
    kw = {"raise_errors": True} if raise_errors else {}
    return cp.run_contingency_parallel(net, dn.to_dict(desc["cases"]), n_procs=n_procs, **kw)


def _explain(diffs, par, ref, conv, P):
    """label differences that are exactly what today's aggregation code produces (recomputed on the reference
    values): parallel path where-mask = ~isnan(val) (own zero loading and out-of-service rows are counted),
    cause fold compares against a NaN running maximum in the sequential path"""
    emu = nm.fold_today(ref, conv, "par" if P > 1 else "seq")
    toks = []
    for t, key, bad in diffs:
        if t == "*" or key == "keys" or not bad or not isinstance(bad[0], int):
            toks.append(None)
            continue
        var = nm.VAR[t]
        got = par[t].get(key)
        if got is None:
            toks.append(None)
            continue
        if key in ("max_" + var, "min_" + var):
            want = emu[t][key[:3]]
            ok = want is not None and all(bool(nm.close(float(got[j]), float(want[j]), var)) for j in bad)
            toks.append("explained=parallel_mask_counts_own_outage" if ok and P > 1 else None)
        elif key in ("cause_element", "cause_index"):
            ok = True
            for j in bad:
                c = emu[t]["cause"][j]
                if c is None:                   # never assigned by today's fold: None / uninitialised memory
                    ok = ok and par[t]["cause_element"][j] is None
                elif key == "cause_element":
                    ok = ok and got[j] == c[0]
                else:
                    ok = ok and int(got[j]) == c[1]
            toks.append("explained=cause_fold_as_written_today" if ok else None)
        else:
            toks.append(None)
    return toks


def run_case(desc):
    import pandapower.contingency.contingency_parallel as cp
    from pandapower.contingency import run_contingency
    if desc.get("kind") == "realpool":
        return _run_realpool(desc)
    rerr = bool(desc.get("raise_errors"))
    ref = nm.brute(desc)
    live = nm.live_cases(ref, desc["cases"])
    conv = [c for c in live if ref["cases"].get(c) is not None]
    base = dn.build(desc)
    toks0 = ["net=" + desc["net"], "load=" + desc.get("load", "normal"), "n_tasks=%d" % len(live)]
    out = {"violations": [], "n": 0, "counts": {"schedules": 0, "schedules_feasible": 0, "chunks_executed": 0,
                                                "memo_hits": 0, "unmemoised_validation_runs": 0}, "sig": []}
    agg = {}          # (clause, P, signature) -> [count, first order, detail, tokens]

    def note(clause, P, order, sig, detail, tokens):
        k = (clause, P, sig)
        if k not in agg:
            agg[k] = [0, order, detail, tokens]
        agg[k][0] += 1

    # ---- sequential reference
    try:
        seq = run_contingency(copy.deepcopy(base), dn.to_dict(desc["cases"]), **({"raise_errors": True} if rerr else {}))
        seq_exc = None
    except Exception as e:
        seq, seq_exc = None, type(e).__name__
    out["n"] += 1

    def compare(par, par_exc, P, order):
        if seq_exc or par_exc:
            if seq_exc != par_exc:
                tk = toks0 + ["n_procs=%d" % P, "key=exception"]
                if par_exc == "TypeError" and rerr and P > 1:
                    # recorded: partial(..., raise_errors=raise_errors, **kwargs) gets the keyword twice
                    tk.append("explained=raise_errors_keyword_passed_twice")
                note("parallel_equals_sequential", P, order, "exception", {"sequential": seq_exc, "parallel": par_exc}, tk)
            return
        diffs = nm.diff_results(seq, par, exact=False)
        if diffs:
            labels = _explain(diffs, par, ref, conv, P)
            for (t, key, bad), lab in zip(diffs, labels):
                tk = toks0 + ["n_procs=%d" % P, "pool" if P > 1 else "no_pool", "key=" + str(key)] + ([lab] if lab else [])
                note("parallel_equals_sequential", P, order, "%s.%s%s" % (t, key, bad),
                     {"element": t, "key": key, "positions": bad,
                      "sequential": seq[t].get(key) if t in seq else None, "parallel": par[t].get(key) if t in par else None},
                     tk)

    def run(P, order, memo):
        d = fp.Director(order=order, memo=memo)
        net = copy.deepcopy(base)
        try:
            with fp.installed(cp, d):
                r = _call(cp, net, desc, P, rerr)
            exc = None
        except fp.ScheduleMismatch:
            raise
        except Exception as e:
            r, exc = None, type(e).__name__
        out["counts"]["chunks_executed"] += d.executed
        out["counts"]["memo_hits"] += d.memo_hits
        return r, exc, d

    for P in desc.get("procs", PROCS):
        if P == 1:
            r, exc, d = run(1, None, None)
            out["n"] += 1
            if d.pools:
                note("parallel_equals_sequential", 1, None, "pool_used_with_one_proc", {"pools": d.pools}, toks0)
            compare(r, exc, 1, None)
            continue
        memo = {}
        r_id, exc_id, d = run(P, None, None)                       # identity order, memo off: baseline + chunk count
        out["n"] += 1
        out["counts"]["unmemoised_validation_runs"] += 1
        n_chunks = d.batches[0]["n_chunks"] if d.batches else 0
        if len(d.batches) > 1:
            raise RuntimeError("more than one pool batch per call: the schedule model needs an update %r" % d.batches)
        if live and not d.batches and not exc_id:
            note("parallel_equals_sequential", P, None, "no_pool_batch", {"n_procs": P}, toks0)
        compare(r_id, exc_id, P, list(range(n_chunks)))
        if n_chunks <= MAX_CHUNKS:
            orders = list(itertools.permutations(range(n_chunks))) if n_chunks else []
        else:
            # beyond the bound (never with the code as written: <=5 chunks by construction of the lists; a rewrite of
            # the pool call may chunk differently): identity, reversed, all rotations, all adjacent transpositions
            out["counts"]["lists_beyond_chunk_bound"] = out["counts"].get("lists_beyond_chunk_bound", 0) + 1
            idt = list(range(n_chunks))
            cand = [idt, idt[::-1]] + [idt[k:] + idt[:k] for k in range(1, n_chunks)]
            for k in range(n_chunks - 1):
                o = list(idt)
                o[k], o[k + 1] = o[k + 1], o[k]
                cand.append(o)
            orders = sorted(set(tuple(o) for o in cand))
        for order in orders:
            r, exc, d2 = run(P, order, memo)
            out["n"] += 1
            out["counts"]["schedules"] += 1
            out["counts"]["schedules_feasible"] += int(fp.feasible(order, P))
            if conv:
                out["sig"].append("%s|P%d|%s" % (core.dhash(desc), P, "".join(map(str, order))))
            compare(r, exc, P, list(order))
            same = (exc == exc_id) if (exc or exc_id) else not nm.diff_results(r_id, r, exact=True)
            if not same:
                note("schedule_independent", P, list(order), "vs_identity",
                     {"identity": exc_id or "dict", "this": exc or nm.diff_results(r_id, r, exact=True)},
                     toks0 + ["n_procs=%d" % P, "feasible=%s" % fp.feasible(order, P)])
        if n_chunks > 1:                                            # memo validation: reversed order, memo off
            rev = tuple(reversed(range(n_chunks)))
            r1, e1, _ = run(P, rev, None)
            r2, e2, _ = run(P, rev, memo)
            out["n"] += 1
            out["counts"]["unmemoised_validation_runs"] += 1
            same = (e1 == e2) if (e1 or e2) else not nm.diff_results(r1, r2, exact=True)
            if not same:
                note("schedule_independent", P, list(rev), "memo_off_differs",
                     {"memo_off": e1 or "dict", "memo_on": e2 or nm.diff_results(r1, r2, exact=True)},
                     toks0 + ["n_procs=%d" % P, "chunk_result_depends_on_more_than_its_payload"])
    for (clause, P, sig), (cnt, order, detail, tokens) in agg.items():
        detail = dict(detail)
        detail.update({"n_procs": P, "first_order": order, "schedules_with_this_difference": cnt})
        out["violations"].append(core.violation(clause, detail, tokens=tokens, klass="%s/P%s" % (sig.split("[")[0], "1" if P == 1 else ">1")))
    out["outcome"] = "ok" if not seq_exc else "raised_" + seq_exc
    if not out["sig"]:
        out["sig"] = None
    return out


def _run_realpool(desc):
    """conformance: the real multiprocessing.Pool must give the dict the controlled pool gives (identity order)"""
    import pandapower.contingency.contingency_parallel as cp
    base = dn.build(desc)
    out = {"violations": [], "n": 0, "counts": {"realpool_runs": 0, "realpool_bitwise_equal": 0}, "sig": [], "outcome": "ok"}
    toks = ["net=" + desc["net"], "realpool"]
    for P in desc["procs"]:
        d = fp.Director(order=None, memo=None)
        with fp.installed(cp, d):
            fake = _call(cp, copy.deepcopy(base), desc, P)
        real = _call(cp, copy.deepcopy(base), desc, P)
        out["n"] += 2
        out["counts"]["realpool_runs"] += 1
        out["counts"]["realpool_bitwise_equal"] += int(not nm.diff_results(fake, real, exact=True))
        diffs = nm.diff_results(fake, real, exact=False)
        out["sig"].append("real|%s|P%d" % (core.dhash(desc), P))
        if diffs:
            out["violations"].append(core.violation("fake_pool_conformance", {"n_procs": P, "differences": diffs,
                                                                              "batches": d.batches}, tokens=toks + ["n_procs=%d" % P],
                                                    klass="conformance"))
    return out


def _canon(sel):
    types = []
    for e in sel:
        if e[0] not in types:
            types.append(e[0])
    return [[t, [e[1] for e in sel if e[0] == t]] for t in types]


def gen_cases(tier):
    cases, real = [], []

    def add(net, lists, **kw):
        for l in lists:
            d = {"net": net, "load": "normal", "limits": "some", "cases": l, "procs": list(PROCS)}
            d.update(kw)
            cases.append(d)

    for net in NETS:
        q = dn.MENU[net]["quick"]
        sub = lambda k: [_canon([q[i] for i in c]) for c in itertools.combinations(range(len(q)), k)]
        if tier == "quick":
            add(net, dn.ordered_lists(q, 2), procs=[1, 2])
            add(net, sub(3)[::2], procs=[1, 2, 4])
            add(net, sub(4)[::5])
            add(net, [_canon(q[:5])], procs=[1, 3])
        else:
            add(net, dn.ordered_lists(q, 2))
            add(net, dn.ordered_lists(q, 3, kmin=3), procs=[1, 2])
            add(net, sub(4))
            add(net, dn.subsets_two_orders(q, 5)[:3])
        # exact ties: symmetric parallel elements whose outages give bitwise identical results for all other
        # elements (the named cause then depends on the order in which the aggregation sees the results)
        add(net, TIES.get(net, []), procs=[1, 2, 3])
        # 9 tasks (repeats are legal in an index list): n_procs=2 -> chunksize 2 -> 5 chunks, 120 orders
        live = [e for e in q if e not in dn.ROLES[net]["oos"]]
        nine = (live + live)[:9]
        add(net, [_canon(sorted(nine, key=lambda e: dn.BRANCH_TYPES.index(e[0])))], procs=[2])
        real.append({"kind": "realpool", "net": net, "load": "normal", "limits": "some", "cases": _canon(q[:5]), "procs": [2, 3]})
        if net in dn.HEAVY_FACTOR:
            add(net, dn.ordered_lists(q, 2), load="heavy", procs=[1, 2])
            add(net, [_canon(q[:4])], load="heavy")
            add(net, dn.ordered_lists(q, 2), load="heavy", raise_errors=True, procs=[1, 3])
    return cases, real


def explore(tier, seed):
    rep = core.Report(PROPERTY, LEVEL, tier, seed)
    core.warm(pf=True)
    cases, real = gen_cases(tier)
    for c in cases + real:
        nm.brute(c)
        dn.build(c)
    rep.rule = ("E5 x E1: nets %s x ordered N-1 lists (quick: all ordered lists of <=2 menu elements with n_procs {1,2}, every "
                "2nd 3-subset {1,2,4}, every 5th 4-subset {1,2,3,4}, one 5-task list {1,3}; thorough: all ordered lists of <=2 "
                "{1,2,3,4} and of 3 {1,2}, all 4-subsets and three 5-task lists with {1,2,3,4}); exact-tie lists (symmetric "
                "parallel elements) {1,2,3}; one 9-task list with repeats per net "
                "(n_procs 2: chunksize 2, 5 chunks); heavy-load lists with a non-converging outage, with and without "
                "raise_errors) x EVERY permutation of the chunks as completion order under the controlled pool; one evaluation = "
                "one run_contingency_parallel call compared with run_contingency; distinct+non-trivial = (list, n_procs, "
                "completion order) with at least one converged N-1 case executed through the pool" % (list(NETS),))
    core.run_cases(rep, run_case, cases)
    # real pools cannot be created inside the daemonic workers of core.pmap: conformance runs in the parent
    for c in real:
        res = run_case(c)
        rep.add_case_result(c, res)
    rep.samples.append(core.jsonable(real[0]))
    if rep.extra.get("lists_beyond_chunk_bound"):
        rep.exhaustive = False
    rep.extra["lists"] = len(cases)
    rep.extra["n_procs"] = list(PROCS)
    rep.extra["max_chunks"] = MAX_CHUNKS
    rep.extra["pool_install_point"] = "pandapower.contingency.contingency_parallel.mp (module attribute; code calls mp.Pool(processes=n).map)"
    rep.assumptions = ["completion order is the only scheduling freedom modelled; per-process global state of pool workers is not",
                       "all permutations are executed (superset of the orders feasible with n_procs workers; schedules_feasible is reported)",
                       "parallel vs sequential compared with 1e-6 p.u. / 1e-4 % tolerance, schedules among each other bitwise",
                       "cause_* entries of elements without a maximum are uninitialised memory and not compared",
                       "memoised chunk results validated by un-memoised identity and reversed schedules per (list, n_procs)"]
    return rep


def replay(case):
    core.quiet()
    return run_case(case)["violations"]

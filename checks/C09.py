"""C09 Calculation results do not depend on the history of the network object - E2 explicit-state BFS."""
import copy
import json

import numpy as np
import pandas as pd

import pandapower as pp

from mc import core, explore as mcx, netalpha as na

PROPERTY = "C09"
LEVEL = "model_checking"
META = {
    "text": "Explicit-state breadth-first search over every sequence (quick: length <= 3, thorough: <= 4) of ~10 bound element edits / switching operations and ~10 calculations (runpp with several option sets incl. init from results, rundcpp, bfsw, q-limits, runopp, calc_sc, runpp_3ph) on the live net object of two base networks; after EVERY power-flow transition the result tables are compared with the same call on a fresh twin rebuilt from the element tables only (no res_*, no _ppc, no _options, no lookups). States are deduplicated by a canonical hash of element tables + rounded result tables + cache presence.",
    "note": "Trusted: the twin construction (deep copy + stripping of every result/private entry) really is a 'fresh' network. Init-from-results non-convergence is only judged when the stored results stem from a state at most one switching edit away (as the statement says). Histories longer than the depth bound and other networks are not covered.",
    "technique": "explicit-state model checking (BFS over operation histories on the real object, canonical state hashing, differential invariant against a fresh twin)",
    "design_ref": "DESIGN.md §3 E2, §4 C09",
}

RES_TOL = 1e-6


# ----------------------------------------------------------------------------------------------
# fresh twin and comparison
# ----------------------------------------------------------------------------------------------
def fresh_twin(net):
    t = copy.deepcopy(net)
    for k in list(t.keys()):
        if k.startswith("res_") and isinstance(t[k], pd.DataFrame):
            t[k] = t[k].iloc[0:0].copy()
        elif k in ("_ppc", "_ppc_opf", "_is_elements", "_is_elements_final", "_impedance_bb_switches", "_isolated_buses"):
            t[k] = None
    t["_pd2ppc_lookups"] = {}
    t["_options"] = {}
    t["converged"] = False
    t["OPF_converged"] = False
    return t


def compare_results(net, twin, tabs=None):
    """-> list of (table, column, index, got, fresh)"""
    diffs = []
    for k in sorted(twin.keys()):
        if not k.startswith("res_") or not isinstance(twin[k], pd.DataFrame):
            continue
        if tabs is not None and k not in tabs:
            continue
        if k.endswith("_sc") or k.endswith("_3ph") or k.endswith("_est"):
            continue
        a, b = net.get(k), twin[k]
        if len(b) == 0 and (a is None or len(a) == 0):
            continue
        if a is None or list(a.index) != list(b.index):
            diffs.append((k, "<index>", None, None if a is None else list(a.index)[:8], list(b.index)[:8]))
            continue
        for c in b.columns:
            if c not in a.columns:
                diffs.append((k, c, None, "missing column", None))
                continue
            x, y = a[c].values, b[c].values
            try:
                x = x.astype(float)
                y = y.astype(float)
            except (TypeError, ValueError):
                continue
            bad = ~((np.abs(x - y) <= RES_TOL + 1e-6 * np.abs(y)) | (np.isnan(x) & np.isnan(y)))
            if bad.any():
                i = int(np.flatnonzero(bad)[0])
                diffs.append((k, c, a.index[i], float(x[i]), float(y[i])))
    return diffs


# ----------------------------------------------------------------------------------------------
# model
# ----------------------------------------------------------------------------------------------
def _toggle(net, tab, idx, col):
    net[tab].at[idx, col] = not bool(net[tab].at[idx, col])


class Model:
    def __init__(self, basename, edits, calcs):
        self.basename, self.edits, self.calcs = basename, edits, calcs

    # -- state ----------------------------------------------------------------------------------
    def init(self):
        if self.basename == "R3g":
            net = na.build({"base": "R3", "devs": [["gen", 2, 0.5, 1.01, "wide", False, True],
                                                   ["load", 3, 0.8, 0.2, "P", 1., True], ["sgen", 3, 0.3, 0.05, 1., True],
                                                   ["gen", 2, 0.3, 1.01, "wide", False, True]]})
            net.bus["min_vm_pu"], net.bus["max_vm_pu"] = 0.9, 1.1
            net.gen["min_p_mw"], net.gen["max_p_mw"], net.gen["controllable"] = 0., 1., True
            pp.create_poly_cost(net, 0, "ext_grid", 2.)
            pp.create_poly_cost(net, 0, "gen", 1.)
        elif self.basename == "T3":
            net = na.base("T3")
        else:
            net = na.base(self.basename)
        return {"net": net, "last": "none", "since_pf": 99, "idx_changed": False}

    def ops(self, s):
        return self.edits + self.calcs

    # -- transitions ----------------------------------------------------------------------------
    def apply(self, s, op):
        net = s["net"]
        kind = op[0]
        if kind == "edit":
            self._edit(s, op)
            return "edit"
        return self._calc(s, op)

    def _edit(self, s, op):
        net = s["net"]
        e = op[1]
        switching = False
        if e == "load_p":
            net.load.at[0, "p_mw"] = 2.0 if net.load.at[0, "p_mw"] == 1.0 else 1.0
        elif e == "line_is":
            _toggle(net, "line", op[2], "in_service"); switching = True
        elif e == "sw":
            _toggle(net, "switch", op[2], "closed"); switching = True
        elif e == "bus_is":
            _toggle(net, "bus", op[2], "in_service"); switching = True
        elif e == "gen_is":
            if len(net.gen):
                _toggle(net, "gen", net.gen.index[0], "in_service")
        elif e == "eg_vm":
            net.ext_grid.at[0, "vm_pu"] = 1.0 if net.ext_grid.at[0, "vm_pu"] == 1.02 else 1.02
        elif e == "new_load":
            if len(net.load) < 4:
                pp.create_load(net, 2, 0.3, 0.1)
                s["idx_changed"] = True
        elif e == "drop_load":
            if len(net.load) > 1:
                net.load.drop(net.load.index[-1], inplace=True)
                s["idx_changed"] = True
        elif e == "replace_load":      # same number of loads, different index set (0,1 -> 0,2 -> 0,3 ...)
            if len(net.load) > 1:
                old = net.load.index[1]
                row = net.load.loc[old]
                net.load.drop(old, inplace=True)
                pp.create_load(net, int(row.bus), float(row.p_mw) * 0.5, float(row.q_mvar), index=int(net.load.index.max()) + 1 if int(net.load.index.max()) >= old else old + 1)
                s["idx_changed"] = True
        elif e == "drop_all_sgen":     # an element table becomes empty
            if len(net.sgen):
                net.sgen.drop(net.sgen.index, inplace=True)
                s["idx_changed"] = True
        elif e == "slack_handover":    # the ext_grid goes out of service, a slack gen sharing its bus with an ordinary gen takes over
            if net.ext_grid.in_service.any() and len(net.gen) >= 2:
                net.ext_grid["in_service"] = False
                net.gen.at[net.gen.index[-1], "slack"] = True
            elif len(net.gen) >= 2:
                net.ext_grid["in_service"] = True
                net.gen.at[net.gen.index[-1], "slack"] = False
        elif e == "new_bus":
            if len(net.bus) < 6:
                b = pp.create_bus(net, float(net.bus.vn_kv.iloc[-1]))
                pp.create_line_from_parameters(net, 2, b, **na.LINE)
                s["idx_changed"] = True
        elif e == "tap":
            t = net.trafo.at[0, "tap_pos"] + op[2]
            if net.trafo.at[0, "tap_min"] <= t <= net.trafo.at[0, "tap_max"]:
                net.trafo.at[0, "tap_pos"] = t
        else:
            raise ValueError(op)
        if e in ("gen_is", "slack_handover"):
            switching = True
        # only switching / status edits move the network away from the switching state of the stored results
        s["since_pf"] = s["since_pf"] + (1 if switching else 0)
        return "edit"

    def _run(self, net, c):
        if c == "runpp":
            pp.runpp(net)
        elif c == "runpp_nols":
            pp.runpp(net, lightsim2grid=False)
        elif c == "runpp_init_results":
            pp.runpp(net, init="results")
        elif c == "runpp_init_vmva":
            pp.runpp(net, init_vm_pu="results", init_va_degree="results")
        elif c == "rundcpp":
            pp.rundcpp(net)
        elif c == "bfsw":
            pp.runpp(net, algorithm="bfsw")
        elif c == "qlim":
            pp.runpp(net, enforce_q_lims=True)
        elif c == "noangles":
            pp.runpp(net, calculate_voltage_angles=False, trafo_model="pi")
        elif c == "runopp":
            pp.runopp(net)
        elif c == "calc_sc":
            import pandapower.shortcircuit as sc
            sc.calc_sc(net, case="max", ip=True, branch_results=True)
        elif c == "runpp_3ph":
            from pandapower.pf.runpp_3ph import runpp_3ph
            runpp_3ph(net)
        else:
            raise ValueError(c)

    JUDGED = {"runpp", "runpp_nols", "runpp_init_results", "runpp_init_vmva", "rundcpp", "bfsw", "qlim", "noangles"}

    def _calc(self, s, op):
        net = s["net"]
        c = op[1]
        judged = c in self.JUDGED
        twin = fresh_twin(net) if judged else None
        prev_nan = bool(len(net.res_bus) and net.res_bus.vm_pu.isna().any())
        try:
            self._run(net, c)
            oc = "ok" if (net.converged or c in ("calc_sc", "runopp", "runpp_3ph")) else "not_converged"
        except Exception as e:
            oc = type(e).__name__
        out = {"calc": c, "oc": oc, "diffs": [], "since_pf": s["since_pf"], "idx_changed": s["idx_changed"], "prev_nan": prev_nan}
        if judged:
            ref_c = "runpp" if c in ("runpp_init_results", "runpp_init_vmva") else c
            try:
                self._run(twin, ref_c)
                toc = "ok" if twin.converged else "not_converged"
            except Exception as e:
                toc = type(e).__name__
            out["fresh"] = toc
            if oc == "ok" and toc == "ok":
                out["diffs"] = compare_results(net, twin)
            elif oc != toc:
                out["diffs"] = [("<outcome>", c, None, oc, toc)]
        if oc == "ok" and c in self.JUDGED and c != "rundcpp":
            s["since_pf"] = 0
            s["idx_changed"] = False
        elif c in self.JUDGED and oc != "ok":
            s["since_pf"] = 99     # a failed calculation leaves no valid previous results to start from
        s["last"] = c if oc == "ok" else c + "!" + oc
        return out

    # -- canonical form ---------------------------------------------------------------------------
    def canon(self, s):
        net = s["net"]
        parts = []
        for t in ("bus", "line", "trafo", "load", "gen", "ext_grid", "switch", "sgen"):
            df = net[t]
            if len(df):
                cols = [c for c in df.columns if c not in ("name", "geo", "type", "std_type")]
                parts.append(t + ":" + df[cols].sort_index().round(9).to_csv())
        for t in sorted(k for k in net.keys() if k.startswith("res_") and isinstance(net[k], pd.DataFrame) and len(net[k])):
            parts.append(t + ":" + net[t].sort_index().round(6).to_csv())
        ppc = net.get("_ppc")
        parts.append("ppc=%s" % (ppc is not None and (ppc.get("internal") is not None if isinstance(ppc, dict) else True)))
        parts.append("last=%s since=%s idx=%s" % (s["last"], min(s["since_pf"], 3), s["idx_changed"]))
        upo = net.get("user_pf_options")
        parts.append("upo=%s" % json.dumps(core.jsonable(upo), sort_keys=True))
        return "\n".join(parts)

    # -- invariant ----------------------------------------------------------------------------------
    def invariant(self, s, hist, op, outcome):
        if not isinstance(outcome, dict) or not outcome.get("diffs"):
            return []
        c, oc, toc = outcome["calc"], outcome["oc"], outcome.get("fresh")
        vs = []
        d0 = outcome["diffs"][0]
        if d0[0] == "<outcome>":
            init_results = c in ("runpp_init_results", "runpp_init_vmva")
            if init_results:
                # documented refusal: result index no longer matches / no results to start from
                if oc == "UserWarning" and (outcome["idx_changed"] or outcome["since_pf"] >= 99):
                    return []
                if toc != "ok":
                    return []            # fresh calculation does not converge either way: nothing promised
                if outcome["since_pf"] > 1:
                    return []            # previous results are not from a nearby switching state: nothing promised
                clause = "init_results_must_converge"
            else:
                clause = "same_outcome_as_fresh"
            toks = ["calc=" + c, "got=" + str(oc), "fresh=" + str(toc), "base=" + self.basename,
                    "prev=" + (hist[-1][1] if hist and hist[-1][0] == "calc" else "edit")]
            if outcome.get("prev_nan"):
                toks.append("prev_results_have_nan")
            vs.append(core.violation(clause, {"calc": c, "outcome": oc, "fresh_outcome": toc, "since_pf": outcome["since_pf"]},
                                     tokens=toks, klass="%s:%s/%s" % (c, oc, toc)))
            return vs
        prev_calcs = sorted({h[1] for h in hist if h[0] == "calc"})
        stale_cols = sorted({"%s.%s" % (d[0], d[1]) for d in outcome["diffs"]})
        toks = ["calc=" + c, "base=" + self.basename] + ["after=" + p for p in prev_calcs] + ["col=" + x for x in stale_cols]
        only_q = all(d[1] in ("q_mvar", "q_from_mvar", "q_to_mvar", "q_hv_mvar", "q_lv_mvar", "ql_mvar") for d in outcome["diffs"])
        if c == "rundcpp" and only_q:
            toks.append("explained=dc_keeps_stale_q")
        vs.append(core.violation("results_equal_fresh", {"calc": c, "diffs": [list(map(str, d)) for d in outcome["diffs"][:6]]},
                                 tokens=toks, klass="%s:%s" % (c, ",".join(stale_cols)[:80])))
        return vs


R3_EDITS = [["edit", "load_p"], ["edit", "line_is", 1], ["edit", "sw", 1], ["edit", "sw", 0], ["edit", "bus_is", 3],
            ["edit", "gen_is"], ["edit", "eg_vm"], ["edit", "new_load"], ["edit", "drop_load"], ["edit", "new_bus"],
            ["edit", "replace_load"], ["edit", "drop_all_sgen"], ["edit", "slack_handover"]]
R3_CALCS = [["calc", c] for c in ("runpp", "runpp_nols", "runpp_init_results", "runpp_init_vmva", "rundcpp", "bfsw", "qlim",
                                  "runopp", "calc_sc", "runpp_3ph")]
T3_EDITS = [["edit", "load_p"], ["edit", "sw", 1], ["edit", "sw", 0], ["edit", "tap", 1], ["edit", "tap", -1], ["edit", "eg_vm"],
            ["edit", "bus_is", 3], ["edit", "line_is", 0]]
T3_CALCS = [["calc", c] for c in ("runpp", "runpp_nols", "runpp_init_results", "rundcpp", "noangles", "calc_sc")]

MODELS = {"R3g": Model("R3g", R3_EDITS, R3_CALCS), "T3": Model("T3", T3_EDITS, T3_CALCS)}


def explore(tier, seed):
    rep = core.Report(PROPERTY, LEVEL, tier, seed)
    core.warm(pf=True, dc=True, opf=True, sc=True)
    depth = 3 if tier == "quick" else 4
    tot = {"states": 0, "transitions": 0, "traces_validated_against_impl": 0}
    levels = {}
    for name, m in MODELS.items():
        sub = core.Report(PROPERTY, LEVEL, tier, seed)
        mcx.bfs(sub, m, depth)
        rep.evaluations += sub.evaluations
        rep.nontrivial.update(name + ":" + k for k in sub.nontrivial)
        for k, n in sub.outcomes.items():
            rep.outcome(k, n)
        for v in sub.violations:
            v["case"] = {"model": name, "history": v["case"]["history"]}
            rep.violations.append(v)
        for k in tot:
            tot[k] += sub.extra[k]
        levels[name] = sub.extra["levels"]
        rep.samples.extend({"model": name, "history": h} for h in sub.samples[:2])
        rep.exhaustive = rep.exhaustive and sub.exhaustive
    rep.extra.update(tot)
    rep.extra["levels"] = levels
    rep.extra["depth"] = depth
    rep.extra["alphabet"] = {n: len(m.edits) + len(m.calcs) for n, m in MODELS.items()}
    rep.rule = ("E2 BFS: every operation sequence of length <= %d over the bound alphabets (R3g: %d ops, T3: %d ops), deduplicated by "
                "canonical state; a state is distinct by its canonical hash (element tables, rounded results, cache presence, last "
                "calculation); every power-flow transition is compared with a fresh twin" % (depth, len(R3_EDITS) + len(R3_CALCS),
                                                                                          len(T3_EDITS) + len(T3_CALCS)))
    rep.assumptions = ["result comparison tolerance 1e-6 abs + 1e-6 rel", "moderate loading: both runs converge to the same solution branch"]
    return rep


def replay(case):
    core.warm(pf=True, dc=True, opf=True, sc=True)
    m = MODELS[case["model"]]
    return mcx.replay_history(m, case["history"])

"""C31 Tabular tap dependency uses each transformer's own table row - E1 full tap-position product, differential oracle."""
import itertools

from mc import core
from mc import l_taptable as lt

PROPERTY = "C31"
LEVEL = "exploration"
TOL = 1e-8
META = {
    "text": "Networks with two or three transformers (parallel 2W, parallel 3W, 2W+3W) whose tap dependency comes from net.trafo_characteristic_table are solved by the real runpp for EVERY combination of tap positions of a 5-step changer (5^2 / 5^3), crossed with shared / distinct characteristic ids, table dependent and plain transformers mixed in one frame, tap side hv/mv/lv, tap_at_star_point, which table columns vary with the step (voltage_ratio, angle_deg, vk/vkr columns, all), table row order and calculate_voltage_angles; every converged result must equal (1e-8) the result of the same network with tap_dependency_table=False and each transformer's own (id, step) row entered directly.",
    "note": "Trusted: the construction of the directly-entered twin (documented Ratio tap model n = 1 + d*step%*exp(j*step_degree) one step from neutral; vk/vkr columns overwritten), validated on all single-table-transformer cases of the same enumeration (agreement < 1e-12). Steps outside the table, NaN table cells and tables with missing rows are not covered. The recorded defect (lookup keyed by id only) is matched by a predicate that rebuilds the twin with the rows that defect assigns.",
    "technique": "bounded exhaustive input enumeration (full tap-position product x configuration product) on the real power flow with a differential twin-network oracle",
    "design_ref": "DESIGN.md §3 E1, §4 C31",
}


def run_case(case):
    out = {"violations": [], "n": 0, "counts": {}, "sig": None}
    net = lt.build_table_net(case)
    twin = lt.enter_directly(net, case, lt.own_rows(case))
    o1 = lt.run(net, case["cva"])
    o2 = lt.run(twin, case["cva"])
    out["n"] = 2
    if o1 != "ok" or o2 != "ok":
        out["outcome"] = "table:%s/direct:%s" % (o1, o2)
        if (o1 == "ok") != (o2 == "ok"):
            # one of the two "same" networks is not solvable: behaviour differs
            out["violations"].append(core.violation("table_equals_direct", {"table_run": o1, "direct_run": o2},
                                                    tokens=["outcome_differs", "kind=" + case["kind"]], klass="outcome"))
        return out
    out["outcome"] = "ok"
    ntab = sum(bool(x) for x in case["table"])
    tabs = [i for i, x in enumerate(case["table"]) if x]
    shared = len({case["ids"][i] for i in tabs}) < len(tabs)
    differ = shared and any(case["ids"][i] == case["ids"][j] and case["taps"][i] != case["taps"][j]
                            for i in tabs for j in tabs if i < j)
    out["sig"] = "%s|%s" % (core.dhash({k: v for k, v in case.items() if k != "taps"}), case["taps"])
    out["counts"]["cases_shared_id_taps_differ"] = int(differ)
    out["counts"]["cases_with_%d_table_trafos" % ntab] = 1
    w, where = lt.res_diff(net, twin)
    if w > TOL:
        toks = ["kind=" + case["kind"], "cols=" + case["cols"], "shared_id" if shared else "distinct_ids",
                "taps_differ" if differ else "taps_equal_or_distinct_ids"]
        bug = lt.enter_directly(net, case, lt.defect_rows(case))
        out["n"] += 1
        if lt.run(bug, case["cva"]) == "ok" and lt.res_diff(net, bug)[0] <= TOL and differ:
            toks.append("explained=id_only_lookup")
        vm = {b: float(net.res_bus.vm_pu.at[b]) for b in net.res_bus.index[1:]}
        vmt = {b: float(twin.res_bus.vm_pu.at[b]) for b in twin.res_bus.index[1:]}
        out["violations"].append(core.violation(
            "table_equals_direct", {"worst_rel_dev": w, "where": where, "vm_pu_table": vm, "vm_pu_direct": vmt,
                                    "rows_entered": lt.own_rows(case)},
            tokens=toks, klass=case["kind"] + ("/shared" if shared else "/distinct")))
    return out


def _case(kind, ids, table, sides, cols, taps, cva=True, star=False, rev=False):
    return {"kind": kind, "ids": list(ids), "table": list(table), "sides": list(sides), "cols": cols,
            "taps": list(taps), "cva": cva, "star": star, "rev": rev}


def gen_cases(tier):
    th = tier == "thorough"
    S = lt.STEPS
    cases = []
    # ---- TT2: two parallel 2W transformers
    sides2 = [("hv", "hv"), ("lv", "lv"), ("hv", "lv"), ("lv", "hv")]
    for cols in (["all"] + lt.COLS2):
        for sides in sides2:
            for ids in ((0, 0), (0, 1)):
                for cva in (True, False):
                    for rev in ((False, True) if (th or cols == "all") else (False,)):
                        for taps in itertools.product(S, repeat=2):
                            cases.append(_case("TT2", ids, (True, True), sides, cols, taps, cva, rev=rev))
    for table in ((True, False), (False, True)):     # a plain Ratio tap changer next to a table one
        for sides in sides2:
            for cva in (True, False):
                for taps in itertools.product(S, repeat=2):
                    cases.append(_case("TT2", (0, 0), table, sides, "all", taps, cva))
    # ---- TT3: three 2W transformers (5^3 tap combinations)
    sides3 = [("hv", "hv", "hv"), ("lv", "lv", "lv"), ("hv", "lv", "hv"), ("hv", "hv", "lv")]
    pats3 = [((True, True, True), (0, 0, 0)), ((True, True, True), (0, 0, 1)), ((True, True, True), (0, 1, 0)),
             ((True, True, True), (0, 1, 2)), ((True, False, True), (0, 0, 0)), ((True, False, True), (0, 0, 1))]
    for cols in ((["all"] + lt.COLS2) if th else ["all"]):
        for sides in sides3:
            for table, ids in pats3:
                for cva in ((True, False) if th else (True,)):
                    for taps in itertools.product(S, repeat=3):
                        cases.append(_case("TT3", ids, table, sides, cols, taps, cva))
    # ---- WW2: two 3W transformers
    sidesw = [("hv", "hv"), ("mv", "mv"), ("lv", "lv"), ("hv", "mv"), ("mv", "lv"), ("hv", "lv")]
    for cols in ((["all"] + lt.COLS3) if th else ["all", "voltage_ratio", "vk_hv_percent", "vkr_lv_percent"]):
        for sides in sidesw:
            for ids in ((0, 0), (0, 1)):
                for star in (False, True):
                    for cva in ((True, False) if th else (True,)):
                        for taps in itertools.product(S, repeat=2):
                            cases.append(_case("WW2", ids, (True, True), sides, cols, taps, cva, star=star))
    if th:
        for table in ((True, False), (False, True)):
            for sides in sidesw:
                for star in (False, True):
                    for taps in itertools.product(S, repeat=2):
                        cases.append(_case("WW2", (0, 0), table, sides, "all", taps, True, star=star))
    # ---- MIX: a 3W and a 2W transformer using the same / different ids of the one shared table
    for sides in [("hv", "hv"), ("mv", "lv"), ("lv", "hv")]:
        for ids in ((0, 0), (0, 1)):
            for star in (False, True):
                for cols in (["all", "voltage_ratio", "vk_percent", "vk_mv_percent"] if th else ["all"]):
                    for taps in itertools.product(S, repeat=2):
                        cases.append(_case("MIX", ids, (True, True), sides, cols, taps, True, star=star))
    return cases


def explore(tier, seed):
    rep = core.Report(PROPERTY, LEVEL, tier, seed)
    core.warm(pf=True)
    for k in ("TT2", "TT3", "WW2", "MIX"):
        lt.base(k)
    cases = gen_cases(tier)
    rep.rule = ("E1: nets TT2/TT3/WW2/MIX x table-dependent pattern x shared/distinct ids x tap side per transformer x "
                "tap_at_star_point x varying table column set x table row order x calculate_voltage_angles x EVERY "
                "tap position combination of the 5-step changers; distinct+non-trivial = both the table net and its "
                "directly-entered twin converged, keyed by (configuration hash, tap tuple)")
    rep.extra["bound"] = "taps {-2..2}^n (n=2,3) complete; configurations as listed in rule (%s tier)" % tier
    rep.extra["cases"] = len(cases)
    core.run_cases(rep, run_case, cases)
    rep.assumptions = ["relative/absolute tolerance 1e-8 on every cell of res_bus/res_trafo/res_trafo3w/res_line/res_ext_grid",
                       "only pairs where both power flows converge are judged; a solvable/unsolvable split is a violation",
                       "table complete for the tap range, no NaN in the columns the transformer type uses"]
    return rep


def replay(case):
    return run_case(case)["violations"]

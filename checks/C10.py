"""C10 Distributed slack shares the balancing power in proportion to the weights — E1 deviation-bounded enumeration."""
import copy
import os

import numpy as np

from mc import core, netalpha as na, balance, a_net

PROPERTY = "C10"
LEVEL = "exploration"
TOL = 1e-5
META = {
    "text": "Every single-island network reachable from 3 base nets by <=2 (thorough <=3) deviations from a participant menu (slack weights 0/0.5/1/2 on the ext_grid, second ext_grids at the same / another bus, 1-2 generators at the same / a fused / another / the ext_grid's bus incl. scaling and slack flag, 1-2 xwards at the same / another bus, plus non-participating sgen/load/storage/ward/shunt neighbours on the participants' buses) is solved by the real runpp(distributed_slack=True) with numba on/off, lightsim2grid on/off and enforce_q_lims; on every converged run (p_result - p_setpoint)/weight is compared across all participants, non-participants against their set-points, and the nodal balance of every node is recomputed from the result tables; exhaustive within that bound.",
    "note": "Trusted: mc/balance.py sign conventions; the xward's own consumption (ps_mw + pz_mw*vm^2 + the flow into its internal r+jx branch, evaluated from the reported bus and internal voltages) is its set-point, its deviation is counted as generation (negative consumption). ext_grid set-point is 0. Networks with two supplied islands are refused by the implementation (NotImplementedError) and only counted. Voltage-dependent loads and dc lines are kept out of the menu (recorded C01 defects).",
    "technique": "bounded exhaustive input enumeration (deviation-bounded, k<=2/3) on the real power flow with a proportional-sharing invariant and nodal-balance bookkeeping",
    "design_ref": "DESIGN.md §3 E1, §4 C10",
}

BASES = ["R3", "M4", "T3"]
DS = {"distributed_slack": True}
OPTS = {
    "ds": dict(DS),
    "ds_nonumba": dict(DS, numba=False),
    "ds_nols": dict(DS, lightsim2grid=False),
    "ds_qlim": dict(DS, enforce_q_lims=True),
}
OPTSETS = list(OPTS)
# A: collision bus, F: bus fused with A (or None), B: another bus, E: the ext_grid's bus
SPOTS = {"R3": (2, 3, 1, 0), "M4": (2, None, 1, 0), "T3": (2, 3, 1, 0)}


def menu(b, part="all"):
    A, F, B, E = SPOTS[b]
    s = 20. if b == "M4" else 1.
    vE = float(na.base(b).ext_grid.vm_pu.iloc[0])
    w = [["set", "ext_grid", 0, "slack_weight", 0.], ["set", "ext_grid", 0, "slack_weight", 2.],
         ["set", "ext_grid", 0, "slack_weight", 0.5]]
    eg = [["egx", A, 1.0, 0., True, 1.], ["egx", A, 1.0, 0., True, 2.], ["egx", A, 1.0, 0., True, 0.],
          ["egx", E, vE, 0., True, 2.], ["egx", B, 1.01, 0., True, 0.5]]
    # genx: bus, p, vm, qmin, qmax, scaling, slack, in_service, slack_weight
    gen = [["genx", A, 0.6 * s, 1.01, -50. * s, 50. * s, 1., False, True, 0.],     # non participant
           ["genx", A, 0.6 * s, 1.01, -50. * s, 50. * s, 1., False, True, 1.],
           ["genx", A, 0.5 * s, 1.01, -50. * s, 50. * s, 0.5, False, True, 2.],    # scaled set-point, shares bus with the others
           ["genx", A, 0.4 * s, 1.01, -0.05 * s, 0.05 * s, 1., False, True, 0.5],  # tight q-limits
           ["genx", A, 0.3 * s, 1.01, -50. * s, 50. * s, 1., True, True, 1.],      # slack flag
           ["genx", A, 0.3 * s, 1.01, -50. * s, 50. * s, 1., False, False, 1.],    # out of service, weight set
           ["genx", B, 0.5 * s, 1.02, -50. * s, 50. * s, 1., False, True, 1.],
           ["genx", B, 0.5 * s, 1.02, -50. * s, 50. * s, 1., False, True, 0.],
           ["genx", E, 0.4 * s, vE, -50. * s, 50. * s, 1., False, True, 1.],       # at the ext_grid's bus
           ["genx", E, 0.4 * s, vE, -50. * s, 50. * s, 1., False, True, 0.]]
    if F is not None:
        gen.append(["genx", F, 0.3 * s, 1.01, -50. * s, 50. * s, 1., False, True, 2.])
    xw = [["xwardx", A, 0.4 * s, 0.3 * s, True, 0.], ["xwardx", A, 0.4 * s, 0.3 * s, True, 1.],
          ["xwardx", A, 0.2 * s, 0., True, 2.], ["xwardx", B, 0.3 * s, 0.2 * s, True, 1.],
          ["xwardx", A, 0.4 * s, 0.3 * s, False, 1.]]
    nb = [["sgen", A, 0.8 * s, -0.2 * s, 1., True], ["sgen", A, 0.5 * s, 0.1 * s, 0.5, True],
          ["load", A, 1.0 * s, 0.3 * s, "P", 0.5, True], ["storage", A, 0.6 * s, 0.2 * s, 1., True],
          ["ward", A, True], ["shunt", A, 0.1 * s, -0.5 * s, 1, 1.0, True], ["sgen", B, 0.5 * s, 0.1 * s, 1., True],
          ["load", E, 0.5 * s, 0.1 * s, "P", 1., True]]
    st = [["sn", 100.]]
    if b == "R3":
        st += [["set", "switch", 0, "closed", False], ["set", "switch", 0, "z_ohm", 0.5], ["set", "line", 1, "in_service", False]]
    elif b == "M4":
        st += [["set", "line", 0, "in_service", False], ["set", "bus", 3, "in_service", False]]
    elif b == "T3":
        st += [["set", "switch", 0, "closed", False], ["set", "trafo", 0, "shift_degree", 150.], ["set", "trafo", 0, "tap_pos", 2]]
    if part == "participants":
        return w + eg + gen + xw + nb[:3]
    return w + eg + gen + xw + nb + st


# ----------------------------------------------------------------------------------------------
# Exact predicates for the two recorded defects of the xward distributed-slack RESULT path (known_findings.d/C10.json).
# Both read the demand column of the internal bus matrix the run left behind (net._ppc["bus"][:, PD]) - the only place
# where the solved share of an xward bus exists - and are used for attribution only, never for a verdict.
def _xward_fixed(net, i):
    x = net.xward.loc[i]
    if not x.in_service or not a_net.energized(net, int(x.bus)):
        return 0.
    v = net.res_bus.at[int(x.bus), "vm_pu"]
    return x.ps_mw + x.pz_mw * v * v + a_net.xward_internal_p(net, i)


def _emulate_defective_extraction(net, PD, lookup):
    """what results_bus._extract_dist_slack_pq_results adds to res_xward.p_mw on the unchanged tree: unscaled, unsigned
    element powers, only elements of the same pandapower bus, one pass per xward ROW, added to the WHOLE column"""
    add = np.zeros(len(net.xward))
    for b in net.xward.bus.values:
        connected = {}
        for e in ("sgen", "load", "ward", "xward", "storage"):
            conn = net[e].loc[net[e].in_service & (net[e].bus == b)].index.values
            if len(conn):
                connected[e] = conn
        p_bus = float(PD[lookup[b]])
        total = 0
        for e, idx in connected.items():
            if "slack_weight" in net[e].columns:
                w = net[e].loc[idx, "slack_weight"].values
                if np.abs(w).sum() != 0:
                    total = total + np.abs(w)
            p_bus -= net[e].loc[idx, "ps_mw" if e in ("ward", "xward") else "p_mw"].values.sum()
        for e, idx in connected.items():
            if "slack_weight" in net[e].columns:
                w = net[e].loc[idx, "slack_weight"].values
                if np.abs(w).sum() != 0:
                    add = add + p_bus * w / total
    return add


def _correct_extraction(net, PD, lookup, w, live):
    """share of each xward: (demand column of its internal bus - constant-power demand of everything on that internal
    bus), split by weight among the participating xwards of the bus"""
    xw = net.xward
    xb = lookup[xw.bus.values]
    add = np.zeros(len(xw))
    for b in np.unique(xb[w != 0]):
        p = float(PD[b])
        for e, sign, col in (("load", 1, "p_mw"), ("sgen", -1, "p_mw"), ("storage", 1, "p_mw"), ("motor", 1, "p_mw"),
                             ("asymmetric_load", 1, "p_mw"), ("asymmetric_sgen", -1, "p_mw")):
            if len(net[e]):
                m = lookup[net[e].bus.values] == b
                p -= sign * float(np.nansum(net["res_" + e][col].values[m]))
        if len(net.ward):
            m = (lookup[net.ward.bus.values] == b) & net.ward.in_service.values
            p -= float(net.ward.ps_mw.values[m].sum())
        m = xb == b
        p -= float(xw.ps_mw.values[m & live].sum())
        add[m] += p * w[m] / w[m].sum()
    return add


def _effective_weights(net, lookup, w, live):
    """build_gen._get_xward_pq_buses returns the xward buses SORTED (np.setdiff1d) while the weights stay in table order:
    the weight of the k-th in-service xward lands on the k-th smallest xward bus.  -> weight per xward row as solved."""
    xb = lookup[net.xward.bus.values]
    sb = np.unique(xb[live])
    if len(sb) != int(live.sum()):
        return None                    # duplicates: the unchanged tree raises IndexError
    bus_w = dict(zip(sb.tolist(), w[live].tolist()))
    return np.array([bus_w.get(int(b), 0.) if l else 0. for b, l in zip(xb, live)])


def _explain_xward(net, opts, part, acc):
    """-> (defect name | None).  A violation that involves an xward is attributed to a recorded defect only if the reported
    res_xward.p_mw is reproduced exactly by the defect AND the corrected values satisfy every clause of the property."""
    xw = net.xward
    if not len(xw) or not (xw.slack_weight[xw.in_service] != 0).any():
        return None
    live = np.array([bool(xw.in_service.at[i]) and a_net.energized(net, int(xw.bus.at[i])) for i in xw.index])
    w_true = xw.slack_weight.values * live
    try:
        PD = net._ppc["bus"][:, 2]
        lookup = net._pd2ppc_lookups["bus"]
        fixed = np.array([_xward_fixed(net, i) for i in xw.index])
        rep_add = net.res_xward.p_mw.values - fixed
        buggy = _emulate_defective_extraction(net, PD, lookup)
        w_eff = _effective_weights(net, lookup, w_true, live)
    except Exception:
        return None
    node = balance.fused_nodes(net)
    others = [t[3] / t[2] for t in part if t[0] != "xward"]

    def satisfied(w, corrected):
        # corrected values must satisfy the property: equal deviation per weight, silent non-participants, balanced nodes
        lam = others + [-corrected[k] / w[k] for k in range(len(xw)) if w[k]]
        if lam and max(lam) - min(lam) > TOL + 1e-7 * max(1., max(abs(x) for x in lam)):
            return False
        if np.abs(corrected[w == 0]).max(initial=0.) > 1e-8:
            return False
        for n, a in acc.items():
            m = np.array([node[int(b)] == n for b in xw.bus.values])
            if m.any():
                mis = (a["elem"] + a["branch"]).real - float((rep_add[m] - corrected[m]).sum())
                if abs(mis) > TOL + 1e-7 * max(1., abs(a["elem"])):
                    return False
        return True

    hyp = [("xward_share_extraction", w_true)]
    if w_eff is not None and not np.allclose(w_eff, w_true):
        hyp.append(("xward_weight_order", w_eff))
    if np.allclose(rep_add, buggy, atol=1e-8, rtol=0):
        for name, w in hyp:
            correct = _correct_extraction(net, PD, lookup, w, live)
            if (name == "xward_weight_order" or not np.allclose(buggy, correct, atol=1e-7, rtol=0)) and satisfied(w, correct):
                return name
    if opts.get("enforce_q_lims") and np.allclose(rep_add, 0., atol=1e-8, rtol=0) and others:
        lim = False
        for i in net.gen.index[net.gen.in_service]:
            q = net.res_gen.at[i, "q_mvar"]
            lim |= abs(q - net.gen.at[i, "max_q_mvar"]) <= 1e-6 or abs(q - net.gen.at[i, "min_q_mvar"]) <= 1e-6
        if lim:
            # the q-limit loop restored the demand column: the shares are gone from the results; recover them from the
            # nodal mismatch of the xward nodes (split by weight); `satisfied` cross-checks with the other participants
            for name, w in hyp[:1]:
                corrected = np.zeros(len(xw))
                for n in {node[int(b)] for b, ww in zip(xw.bus.values, w) if ww}:
                    m = np.array([node[int(b)] == n for b in xw.bus.values]) & (w != 0)
                    mis = (acc[n]["elem"] + acc[n]["branch"]).real
                    corrected[m] = -mis * w[m] / w[m].sum()
                if satisfied(w, corrected):
                    return "qlim_restore_drops_xward_share"
    return None


def judge(net, on, opts, cnt):
    vs = []
    toks0 = ["opt=" + on]
    rb = net.res_bus
    part = []      # (kind, index, weight, deviation as generation)

    def viol(clause, detail, extra=(), klass=None):
        vs.append(core.violation(clause, dict(detail, opt=on), tokens=toks0 + list(extra), klass=klass or clause))

    for i in net.ext_grid.index:
        e = net.ext_grid.loc[i]
        if not e.in_service or not a_net.energized(net, int(e.bus)):
            continue
        p = net.res_ext_grid.at[i, "p_mw"]
        if e.slack_weight > 0:
            part.append(("ext_grid", int(i), float(e.slack_weight), p - 0.))
        elif not abs(p) <= TOL:
            viol("nonparticipant_setpoint", {"table": "ext_grid", "index": int(i), "p_mw": p, "expected": 0.}, ["tab=ext_grid"])
    for i in net.gen.index:
        g = net.gen.loc[i]
        if not g.in_service or not a_net.energized(net, int(g.bus)):
            continue
        p, want = net.res_gen.at[i, "p_mw"], g.p_mw * g.scaling
        if g.slack_weight > 0:
            part.append(("gen", int(i), float(g.slack_weight), p - want))
        elif not abs(p - want) <= TOL + 1e-7 * abs(want):
            viol("nonparticipant_setpoint", {"table": "gen", "index": int(i), "p_mw": p, "expected": want}, ["tab=gen"])
    for i in net.xward.index:
        x = net.xward.loc[i]
        b = int(x.bus)
        if not x.in_service or not a_net.energized(net, b):
            continue
        v = rb.at[b, "vm_pu"]
        p, want = net.res_xward.at[i, "p_mw"], x.ps_mw + x.pz_mw * v * v + a_net.xward_internal_p(net, i)
        toks = ["tab=xward", "n_xward=%d" % int(net.xward.in_service.sum()),
                "n_xward_buses=%d" % net.xward.bus[net.xward.in_service].nunique()]
        for t in ("load", "sgen", "storage", "ward"):
            if len(net[t]) and (net[t].in_service & (net[t].bus == b)).any():
                toks.append("at_xward_bus=" + t)
        if x.slack_weight > 0:
            part.append(("xward", int(i), float(x.slack_weight), -(p - want), toks))
        elif not abs(p - want) <= TOL + 1e-7 * abs(want):
            viol("nonparticipant_setpoint", {"table": "xward", "index": int(i), "p_mw": p, "expected": want}, toks)
    for tab in ("sgen", "load", "storage"):
        for i in net[tab].index:
            e = net[tab].loc[i]
            if not e.in_service or not a_net.energized(net, int(e.bus)):
                continue
            p, want = net["res_" + tab].at[i, "p_mw"], e.p_mw * e.scaling
            if not abs(p - want) <= 1e-9 + 1e-10 * abs(want):
                viol("nonparticipant_setpoint", {"table": tab, "index": int(i), "p_mw": p, "expected": want}, ["tab=" + tab])
    # ---- proportional sharing
    cnt["participants_%d" % min(len(part), 4)] = cnt.get("participants_%d" % min(len(part), 4), 0) + 1
    if part:
        lam = [t[3] / t[2] for t in part]
        scale = max(1., max(abs(x) for x in lam))
        if not (max(lam) - min(lam) <= TOL + 1e-7 * scale):
            toks = sorted({"part=" + t[0] for t in part})
            for t in part:
                if len(t) > 4:
                    toks += [x for x in t[4] if x not in toks]
            viol("proportional_share", {"participants": [[t[0], t[1], t[2], t[3], t[3] / t[2]] for t in part],
                                        "spread": max(lam) - min(lam)}, toks, klass="/".join(sorted({t[0] for t in part})))
    # ---- nodal balance still holds
    acc, _, nan_issues = balance.nodal_sums(net)
    for tab, idx, what in nan_issues:
        viol("nodal_balance", {"table": tab, "index": idx, "what": what}, ["tab=" + tab, "nan"])
    for n, a in sorted(acc.items()):
        if not any(a_net.energized(net, b) for b in a["buses"]):
            continue
        mis = a["elem"] + a["branch"]
        scale = max(1., abs(a["elem"]), abs(a["branch"]))
        if abs(mis.real) > TOL + 1e-7 * scale or abs(mis.imag) > TOL + 1e-7 * scale:
            toks = ["kind=" + k for k in sorted(a["kinds"])]
            if "xward" in a["kinds"]:
                toks += ["n_xward=%d" % int(net.xward.in_service.sum())]
            viol("nodal_balance", {"node_buses": sorted(a["buses"]), "mismatch": [mis.real, mis.imag], "kinds": sorted(a["kinds"])},
                 toks, klass="/".join(sorted(a["kinds"])))
    xv = [v for v in vs if any(t in ("tab=xward", "part=xward", "kind=xward") or t.startswith("n_xward=") for t in v["tokens"])
          or (v["clause"] == "nodal_balance" and len(net.xward) and set(v["detail"].get("node_buses", ())) & set(int(b) for b in net.xward.bus.values))]
    if xv:
        name = _explain_xward(net, opts, part, acc)
        if name:
            for v in xv:
                v["tokens"].append("explained=" + name)
    return vs, part


def run_case(case):
    net0 = a_net.build(case)
    out = {"violations": [], "n": 0, "counts": {}}
    sigs, ok = [], 0
    cnt = out["counts"]
    for on in case["optsets"]:
        opts = OPTS[on]
        net = copy.deepcopy(net0)
        oc = a_net.run_pf(net, opts)
        out["n"] += 1
        cnt["outcome_" + oc] = cnt.get("outcome_" + oc, 0) + 1
        if oc != "ok":
            continue
        ok += 1
        vs, part = judge(net, on, opts, cnt)
        out["violations"] += vs
        cnt["solver_lightsim2grid" if net._options.get("lightsim2grid") else "solver_pandapower"] = \
            cnt.get("solver_lightsim2grid" if net._options.get("lightsim2grid") else "solver_pandapower", 0) + 1
        if len(part) >= 2:      # sharing really exercised: at least two participants
            sigs.append("%s|%s|%s|%s" % (case["base"], on, core.dhash(case["devs"]),
                                         "+".join(sorted("%s:%g" % (t[0], t[2]) for t in part))))
    out["outcome"] = "ok" if ok else "none_converged"
    out["sig"] = sigs
    return out


def gen_cases(tier):
    cases = []
    bases = os.environ.get("A_BASES", "").split(",") if os.environ.get("A_BASES") else BASES   # A_BASES: development only
    for b in bases:
        for devs in na.subsets(menu(b), 2):
            cases.append({"base": b, "devs": [list(d) for d in devs], "optsets": OPTSETS})
        if tier == "thorough":
            for devs in na.subsets(menu(b, "participants"), 3):
                if len(devs) == 3:
                    cases.append({"base": b, "devs": [list(d) for d in devs], "optsets": ["ds", "ds_nonumba", "ds_qlim"]})
    return cases


def explore(tier, seed):
    rep = core.Report(PROPERTY, LEVEL, tier, seed)
    core.warm(pf=True)
    cases = gen_cases(tier)
    rep.rule = ("E1: every subset of <=2 pairwise-compatible deviations from the participant/neighbour menu of bases %s (thorough: "
                "additionally every 3-subset of the participant sub-menu: weights, ext_grids, generators, xwards + 3 neighbours), each under option sets %s; a case counts as "
                "distinct+non-trivial when the distributed-slack power flow converged with at least two participants of positive "
                "weight, keyed by (base, option set, deviation-set hash, participant kinds and weights)" % (BASES, OPTSETS))
    rep.extra["bound_k"] = 2 if tier == "quick" else 3
    rep.extra["deviation_sets"] = len(cases)
    rep.extra["menu_sizes"] = {b: len(menu(b)) for b in BASES}
    core.run_cases(rep, run_case, cases)
    rep.assumptions = ["tolerance 1e-5 MW + 1e-7 rel on deviations per unit weight and on the nodal balance",
                       "only converged power flows are judged; refusals (NotImplementedError / ValueError / UserWarning) are counted",
                       "one supplied island per network", "values outside the finite deviation alphabets are not covered"]
    return rep


def replay(case):
    return run_case(case)["violations"]

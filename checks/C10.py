"""C10 Distributed slack shares the balancing power in proportion to the weights — E1 deviation-bounded enumeration."""
import copy
import os

import numpy as np

from mc import core, netalpha as na, balance, a_net

PROPERTY = "C10"
LEVEL = "exploration"
TOL = 1e-5
META = {
    "text": "Every single-island network reachable from 3 base nets by <=2 (thorough <=3) deviations from a participant menu (slack weights 0/0.5/1/2 on the ext_grid, second ext_grids at the same / another bus, 1-2 generators at the same / a fused / another / the ext_grid's bus incl. scaling and slack flag, 1-2 xwards at the same / another bus, plus non-participating sgen/load/storage/ward/shunt neighbours on the participants' buses) is solved by the real runpp(distributed_slack=True) with numba on/off, lightsim2grid on/off and enforce_q_lims; on every converged run (p_result - p_setpoint)/weight is compared across all participants, non-participants against their set-points, and the nodal balance of every node is recomputed from the result tables; exhaustive within that bound.",
    "note": "Trusted: mc/balance.py sign conventions; the xward's own consumption (ps_mw + pz_mw*vm^2 + the flow into its internal r+jx branch, evaluated from the reported bus and internal voltages) is its set-point, its deviation is counted as generation (negative consumption). ext_grid set-point is 0. Networks with two supplied islands are refused by the implementation (NotImplementedError) and only counted. Voltage-dependent loads and dc lines are kept out of the menu (recorded C01 defects).",
    "technique": "bounded exhaustive input enumeration (deviation-bounded, k<=2/3) on the real power flow with a proportional-sharing invariant and nodal-balance bookkeeping",
    "design_ref": "DESIGN.md §3 E1, §4 C10",
}

BASES = ["R3", "M4", "T3"]
DS = {"distributed_slack": True}
OPTS = {
    "ds": dict(DS),
    "ds_nonumba": dict(DS, numba=False),
    "ds_nols": dict(DS, lightsim2grid=False),
    "ds_qlim": dict(DS, enforce_q_lims=True),
}
OPTSETS = list(OPTS)
# A: collision bus, F: bus fused with A (or None), B: another bus, E: the ext_grid's bus
SPOTS = {"R3": (2, 3, 1, 0), "M4": (2, None, 1, 0), "T3": (2, 3, 1, 0)}


def menu(b, part="all"):
    A, F, B, E = SPOTS[b]
    s = 20. if b == "M4" else 1.
    vE = float(na.base(b).ext_grid.vm_pu.iloc[0])
    w = [["set", "ext_grid", 0, "slack_weight", 0.], ["set", "ext_grid", 0, "slack_weight", 2.],
         ["set", "ext_grid", 0, "slack_weight", 0.5]]
    eg = [["egx", A, 1.0, 0., True, 1.], ["egx", A, 1.0, 0., True, 2.], ["egx", A, 1.0, 0., True, 0.],
          ["egx", E, vE, 0., True, 2.], ["egx", B, 1.01, 0., True, 0.5]]
    # genx: bus, p, vm, qmin, qmax, scaling, slack, in_service, slack_weight
    gen = [["genx", A, 0.6 * s, 1.01, -50. * s, 50. * s, 1., False, True, 0.],     # non participant
           ["genx", A, 0.6 * s, 1.01, -50. * s, 50. * s, 1., False, True, 1.],
           ["genx", A, 0.5 * s, 1.01, -50. * s, 50. * s, 0.5, False, True, 2.],    # scaled set-point, shares bus with the others
           ["genx", A, 0.4 * s, 1.01, -0.05 * s, 0.05 * s, 1., False, True, 0.5],  # tight q-limits
           ["genx", A, 0.3 * s, 1.01, -50. * s, 50. * s, 1., True, True, 1.],      # slack flag
           ["genx", A, 0.3 * s, 1.01, -50. * s, 50. * s, 1., False, False, 1.],    # out of service, weight set
           ["genx", B, 0.5 * s, 1.02, -50. * s, 50. * s, 1., False, True, 1.],
           ["genx", B, 0.5 * s, 1.02, -50. * s, 50. * s, 1., False, True, 0.],
           ["genx", E, 0.4 * s, vE, -50. * s, 50. * s, 1., False, True, 1.],       # at the ext_grid's bus
           ["genx", E, 0.4 * s, vE, -50. * s, 50. * s, 1., False, True, 0.]]
    if F is not None:
        gen.append(["genx", F, 0.3 * s, 1.01, -50. * s, 50. * s, 1., False, True, 2.])
    xw = [["xwardx", A, 0.4 * s, 0.3 * s, True, 0.], ["xwardx", A, 0.4 * s, 0.3 * s, True, 1.],
          ["xwardx", A, 0.2 * s, 0., True, 2.], ["xwardx", B, 0.3 * s, 0.2 * s, True, 1.],
          ["xwardx", A, 0.4 * s, 0.3 * s, False, 1.]]
    nb = [["sgen", A, 0.8 * s, -0.2 * s, 1., True], ["sgen", A, 0.5 * s, 0.1 * s, 0.5, True],
          ["load", A, 1.0 * s, 0.3 * s, "P", 0.5, True], ["storage", A, 0.6 * s, 0.2 * s, 1., True],
          ["ward", A, True], ["shunt", A, 0.1 * s, -0.5 * s, 1, 1.0, True], ["sgen", B, 0.5 * s, 0.1 * s, 1., True],
          ["load", E, 0.5 * s, 0.1 * s, "P", 1., True]]
    st = [["sn", 100.]]
    if b == "R3":
        st += [["set", "switch", 0, "closed", False], ["set", "switch", 0, "z_ohm", 0.5], ["set", "line", 1, "in_service", False]]
    elif b == "M4":
        st += [["set", "line", 0, "in_service", False], ["set", "bus", 3, "in_service", False]]
    elif b == "T3":
        st += [["set", "switch", 0, "closed", False], ["set", "trafo", 0, "shift_degree", 150.], ["set", "trafo", 0, "tap_pos", 2]]
    if part == "core":
        return w[:2] + eg[:2] + eg[3:4] + gen[:3] + gen[6:7] + gen[8:9] + xw[1:4] + nb[:3]
    return w + eg + gen + xw + nb + st


# ----------------------------------------------------------------------------------------------
def judge(net, on, opts, cnt):
    vs = []
    toks0 = ["opt=" + on]
    rb = net.res_bus
    part = []      # (kind, index, weight, deviation as generation)

    def viol(clause, detail, extra=(), klass=None):
        vs.append(core.violation(clause, dict(detail, opt=on), tokens=toks0 + list(extra), klass=klass or clause))

    for i in net.ext_grid.index:
        e = net.ext_grid.loc[i]
        if not e.in_service or not a_net.energized(net, int(e.bus)):
            continue
        p = net.res_ext_grid.at[i, "p_mw"]
        if e.slack_weight > 0:
            part.append(("ext_grid", int(i), float(e.slack_weight), p - 0.))
        elif not abs(p) <= TOL:
            viol("nonparticipant_setpoint", {"table": "ext_grid", "index": int(i), "p_mw": p, "expected": 0.}, ["tab=ext_grid"])
    for i in net.gen.index:
        g = net.gen.loc[i]
        if not g.in_service or not a_net.energized(net, int(g.bus)):
            continue
        p, want = net.res_gen.at[i, "p_mw"], g.p_mw * g.scaling
        if g.slack_weight > 0:
            part.append(("gen", int(i), float(g.slack_weight), p - want))
        elif not abs(p - want) <= TOL + 1e-7 * abs(want):
            viol("nonparticipant_setpoint", {"table": "gen", "index": int(i), "p_mw": p, "expected": want}, ["tab=gen"])
    for i in net.xward.index:
        x = net.xward.loc[i]
        b = int(x.bus)
        if not x.in_service or not a_net.energized(net, b):
            continue
        v = rb.at[b, "vm_pu"]
        p, want = net.res_xward.at[i, "p_mw"], x.ps_mw + x.pz_mw * v * v + a_net.xward_internal_p(net, i)
        toks = ["tab=xward", "n_xward=%d" % int(net.xward.in_service.sum()),
                "n_xward_buses=%d" % net.xward.bus[net.xward.in_service].nunique()]
        for t in ("load", "sgen", "storage", "ward"):
            if len(net[t]) and (net[t].in_service & (net[t].bus == b)).any():
                toks.append("at_xward_bus=" + t)
        if x.slack_weight > 0:
            part.append(("xward", int(i), float(x.slack_weight), -(p - want), toks))
        elif not abs(p - want) <= TOL + 1e-7 * abs(want):
            viol("nonparticipant_setpoint", {"table": "xward", "index": int(i), "p_mw": p, "expected": want}, toks)
    for tab in ("sgen", "load", "storage"):
        for i in net[tab].index:
            e = net[tab].loc[i]
            if not e.in_service or not a_net.energized(net, int(e.bus)):
                continue
            p, want = net["res_" + tab].at[i, "p_mw"], e.p_mw * e.scaling
            if not abs(p - want) <= 1e-9 + 1e-10 * abs(want):
                viol("nonparticipant_setpoint", {"table": tab, "index": int(i), "p_mw": p, "expected": want}, ["tab=" + tab])
    # ---- proportional sharing
    cnt["participants_%d" % min(len(part), 4)] = cnt.get("participants_%d" % min(len(part), 4), 0) + 1
    if part:
        lam = [t[3] / t[2] for t in part]
        scale = max(1., max(abs(x) for x in lam))
        if not (max(lam) - min(lam) <= TOL + 1e-7 * scale):
            toks = sorted({"part=" + t[0] for t in part})
            for t in part:
                if len(t) > 4:
                    toks += [x for x in t[4] if x not in toks]
            viol("proportional_share", {"participants": [[t[0], t[1], t[2], t[3], t[3] / t[2]] for t in part],
                                        "spread": max(lam) - min(lam)}, toks, klass="/".join(sorted({t[0] for t in part})))
    # ---- nodal balance still holds
    acc, _, nan_issues = balance.nodal_sums(net)
    for tab, idx, what in nan_issues:
        viol("nodal_balance", {"table": tab, "index": idx, "what": what}, ["tab=" + tab, "nan"])
    for n, a in sorted(acc.items()):
        if not any(a_net.energized(net, b) for b in a["buses"]):
            continue
        mis = a["elem"] + a["branch"]
        scale = max(1., abs(a["elem"]), abs(a["branch"]))
        if abs(mis.real) > TOL + 1e-7 * scale or abs(mis.imag) > TOL + 1e-7 * scale:
            toks = ["kind=" + k for k in sorted(a["kinds"])]
            if "xward" in a["kinds"]:
                toks += ["n_xward=%d" % int(net.xward.in_service.sum())]
            viol("nodal_balance", {"node_buses": sorted(a["buses"]), "mismatch": [mis.real, mis.imag], "kinds": sorted(a["kinds"])},
                 toks, klass="/".join(sorted(a["kinds"])))
    return vs, part


def run_case(case):
    net0 = a_net.build(case)
    out = {"violations": [], "n": 0, "counts": {}}
    sigs, ok = [], 0
    cnt = out["counts"]
    for on in case["optsets"]:
        opts = OPTS[on]
        net = copy.deepcopy(net0)
        oc = a_net.run_pf(net, opts)
        out["n"] += 1
        cnt["outcome_" + oc] = cnt.get("outcome_" + oc, 0) + 1
        if oc != "ok":
            continue
        ok += 1
        vs, part = judge(net, on, opts, cnt)
        out["violations"] += vs
        cnt["solver_lightsim2grid" if net._options.get("lightsim2grid") else "solver_pandapower"] = \
            cnt.get("solver_lightsim2grid" if net._options.get("lightsim2grid") else "solver_pandapower", 0) + 1
        if len(part) >= 2:      # sharing really exercised: at least two participants
            sigs.append("%s|%s|%s|%s" % (case["base"], on, core.dhash(case["devs"]),
                                         "+".join(sorted("%s:%g" % (t[0], t[2]) for t in part))))
    out["outcome"] = "ok" if ok else "none_converged"
    out["sig"] = sigs
    return out


def gen_cases(tier):
    cases = []
    bases = os.environ.get("A_BASES", "").split(",") if os.environ.get("A_BASES") else BASES   # A_BASES: development only
    for b in bases:
        for devs in na.subsets(menu(b), 2):
            cases.append({"base": b, "devs": [list(d) for d in devs], "optsets": OPTSETS})
        if tier == "thorough":
            for devs in na.subsets(menu(b, "core"), 3):
                if len(devs) == 3:
                    cases.append({"base": b, "devs": [list(d) for d in devs], "optsets": ["ds", "ds_nonumba", "ds_nols"]})
    return cases


def explore(tier, seed):
    rep = core.Report(PROPERTY, LEVEL, tier, seed)
    core.warm(pf=True)
    cases = gen_cases(tier)
    rep.rule = ("E1: every subset of <=2 pairwise-compatible deviations from the participant/neighbour menu of bases %s (thorough: "
                "additionally every 3-subset of the core participant sub-menu), each under option sets %s; a case counts as "
                "distinct+non-trivial when the distributed-slack power flow converged with at least two participants of positive "
                "weight, keyed by (base, option set, deviation-set hash, participant kinds and weights)" % (BASES, OPTSETS))
    rep.extra["bound_k"] = 2 if tier == "quick" else 3
    rep.extra["deviation_sets"] = len(cases)
    rep.extra["menu_sizes"] = {b: len(menu(b)) for b in BASES}
    core.run_cases(rep, run_case, cases)
    rep.assumptions = ["tolerance 1e-5 MW + 1e-7 rel on deviations per unit weight and on the nodal balance",
                       "only converged power flows are judged; refusals (NotImplementedError / ValueError / UserWarning) are counted",
                       "one supplied island per network", "values outside the finite deviation alphabets are not covered"]
    return rep


def replay(case):
    return run_case(case)["violations"]

"""C21 PYPOWER / MATPOWER conversion round trip preserves power flow results - E1, deviation bounded."""
import copy

import numpy as np

from mc import core, netalpha as na
from mc import g_ppc as gx

PROPERTY = "C21"
LEVEL = "exploration"
META = {
    "text": "Every network reachable from the bases R3 (radial, fused buses, line switch), M4 (meshed 110 kV ring) and T3 (110/20 kV transformer with tap changer) by <=2 deviations from a menu of loads, sgens, gens (also at the slack bus, negative p, out of service), shunts (steps, other rated voltage), second slacks, open / impedance switches, out-of-service lines / buses / transformers, parallel and extra lines, line conductance, tap position / side / neutral / phase shifters, parallel transformers and sn_mva is solved with runpp(trafo_model='pi'), converted with to_ppc(init='flat' and init='results') -> from_ppc and with to_mpc -> .mat file -> from_mpc, solved again, and compared: complex voltage of every supplied bus (through the bus lookup of the conversion), net injection at the slack buses, total losses (bus-sum and branch-table sum), all within 1e-6.",
    "note": "Trusted: the bus mapping net._pd2ppc_lookups['bus'] written by to_ppc, and the bookkeeping in mc/g_ppc.py.  Inside the documented scope only: pi model, symmetric branches, constant-power loads, no dcline / ward / trafo3w.  Only cases whose original power flow converges are judged.  MATPOWER .m text files (matpowercaseframes) are not exercised, only .mat.",
    "technique": "bounded exhaustive input enumeration (deviation-bounded, k<=2) with a differential power-flow oracle across the real converters",
    "design_ref": "DESIGN.md §3 E1, §4 C21",
}

BASES = ["R3", "M4", "T3"]


def _explain_mpc_branch_g(net, route):
    """recorded defect C21-mpc-branch-g: to_mpc stores the branch conductances (transformer iron losses, line
    g_us_per_km) as the extra struct field 'branch_g', from_mpc files it under net._options instead of handing it to
    from_ppc -> the conductances are dropped.  Predicate: the route is the .mat file and the internal case of the
    original has a non-zero BR_G on an in-service branch."""
    if not route.startswith("mpc"):
        return False
    try:
        from pandapower.pypower.idx_brch import BR_G, BR_STATUS
        br = net._ppc["branch"]
        return bool(np.any((np.abs(br[:, BR_G].real) > 0) & (br[:, BR_STATUS].real > 0)))
    except Exception:
        return False


def run_case(case):
    out = {"violations": [], "n": 0, "counts": {}}
    net0 = na.build(case)
    orig = copy.deepcopy(net0)
    oc = gx.run_pf(orig)
    out["counts"]["orig_" + oc] = 1
    if oc != "ok":
        out["outcome"] = "orig_" + oc
        out["sig"] = None
        return out
    sigs = []
    for route in case["routes"]:
        out["n"] += 1
        src = copy.deepcopy(orig) if route.endswith("results") else copy.deepcopy(net0)
        toks = ["route=" + route, "base=" + case["base"]] + ["dev=" + d[0] for d in case["devs"]]
        try:
            conv, look, nb = gx.convert(src, route)
        except ImportError as e:
            out["counts"]["unavailable_" + route] = out["counts"].get("unavailable_" + route, 0) + 1
            continue
        except Exception as e:
            import os
            import traceback
            tb = traceback.extract_tb(e.__traceback__)
            site = next(("%s:%d" % (os.path.basename(f.filename), f.lineno) for f in reversed(tb) if "pandapower" in f.filename), "?")
            out["violations"].append(core.violation("conversion_raises", {"route": route, "exc": type(e).__name__, "msg": str(e)[:200],
                                                                          "site": site},
                                                    tokens=toks + ["exc=" + type(e).__name__, "site=" + site.split(":")[0]],
                                                    klass=route + "/" + type(e).__name__))
            continue
        cc = gx.run_pf(conv)
        out["counts"]["conv_" + cc] = out["counts"].get("conv_" + cc, 0) + 1
        if _explain_mpc_branch_g(src, route):
            toks.append("explained=mpc_branch_g_dropped")
        if cc != "ok":
            out["violations"].append(core.violation("converted_pf_fails", {"route": route, "outcome": cc}, tokens=toks + ["outcome=" + cc],
                                                    klass=route + "/" + cc))
            continue
        for d in gx.compare(orig, conv, look, nb):
            d["route"] = route
            out["violations"].append(core.violation(d["clause"], d, tokens=toks, klass=route + "/" + d["clause"]))
        sigs.append("%s|%s|%s|nb=%d|ntr=%d|nimp=%d|nsg=%d" % (case["base"], route, core.dhash(case["devs"]), nb, len(conv.trafo),
                                                             len(conv.impedance), len(conv.sgen)))
    out["outcome"] = "ok"
    out["sig"] = sigs
    return out


def gen_cases(tier):
    cases = []
    for b in BASES:
        m = gx.menu(b)
        for devs in na.subsets(m, 2):
            cases.append({"base": b, "devs": [list(d) for d in devs], "routes": gx.ROUTES})
        if tier == "thorough":
            # k = 3 over the structural / tap part of the menu (bus elements fixed to one load + one gen)
            ms = [d for d in m if d[0] in ("set", "switch", "line", "trafo", "swapline", "bus", "sn", "impedance")]
            for devs in na.subsets(ms, 3):
                if len(devs) == 3:
                    cases.append({"base": b, "devs": [list(d) for d in devs], "routes": ["ppc_flat", "mpc_flat"]})
    return cases


def explore(tier, seed):
    rep = core.Report(PROPERTY, LEVEL, tier, seed)
    core.warm(pf=True)
    cases = gen_cases(tier)
    rep.rule = ("E1: every subset of <=2 (thorough: also every 3-subset of the structural/tap sub-menu) pairwise-compatible deviations "
                "of the C21 menus on bases %s, each through the routes %s; distinct+non-trivial = original AND converted power flow "
                "converged, keyed by (base, route, deviation-set hash, shape of the converted net)" % (BASES, gx.ROUTES))
    rep.extra["bound_k"] = 2 if tier == "quick" else 3
    rep.extra["deviation_sets"] = len(cases)
    rep.extra["menu_sizes"] = {b: len(gx.menu(b)) for b in BASES}
    core.run_cases(rep, run_case, cases)
    rep.assumptions = ["tolerance 1e-6 (p.u. complex voltage; MW/Mvar relative to max(1, |value|))",
                       "only cases whose original runpp(trafo_model='pi', calculate_voltage_angles=True) converges are judged",
                       "slack power = net injection at buses carrying an in-service slack element"]
    return rep


def replay(case):
    return run_case(case)["violations"]

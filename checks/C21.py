"""C21 PYPOWER / MATPOWER conversion round trip preserves power flow results - E1, deviation bounded."""
import copy

import numpy as np

from mc import core, netalpha as na
from mc import g_ppc as gx

PROPERTY = "C21"
LEVEL = "exploration"
META = {
    "text": "Every network reachable from the bases R3 (radial, fused buses, line switch), M4 (meshed 110 kV ring), T3 (110/20 kV transformer with tap changer), W3 (three-winding transformer: tap side / position / star point, phase shifts, negative star-leg reactances) and R3c / T3c (the same nets with cost data, i.e. converted in opf mode, with controllable gens / sgens / loads piled onto generator and slack buses whose set point differs from 1.0) by <=2 deviations from a menu of loads, sgens, gens (also at the slack bus, negative p, out of service), shunts (steps, other rated voltage), second slacks, open / impedance switches, out-of-service lines / buses / transformers, parallel and extra lines, line conductance, tap position / side / neutral / phase shifters (also between equal voltage levels at ratio exactly 1), parallel transformers and sn_mva is solved with runpp(trafo_model='pi'), converted with to_ppc(init='flat' and init='results') -> from_ppc and with to_mpc -> .mat file -> from_mpc, solved again, and compared: complex voltage of every supplied bus (through the bus lookup of the conversion), net injection at the slack buses, total losses (bus-sum and branch-table sum), all within 1e-6.",
    "note": "Trusted: the bus mapping net._pd2ppc_lookups['bus'] written by to_ppc, and the bookkeeping in mc/g_ppc.py.  Inside the documented scope only: pi model, symmetric branches, constant-power loads, no dcline / ward.  Only cases whose original power flow converges are judged.  MATPOWER .m text files (matpowercaseframes) are not exercised, only .mat.",
    "technique": "bounded exhaustive input enumeration (deviation-bounded, k<=2) with a differential power-flow oracle across the real converters",
    "design_ref": "DESIGN.md §3 E1, §4 C21",
}

BASES = ["R3", "M4", "T3", "W3", "R3c", "T3c"]


def _explain(orig, src, conv, route, look, nb, exc=None):
    """Predicates that recompute exactly what the recorded defects do (known_findings.d/C21.json)."""
    from pandapower.converter.pypower import to_ppc, from_ppc
    toks = []
    kw = dict(trafo_model="pi", calculate_voltage_angles=True, init="flat")
    try:
        if exc is not None:
            # C21-mpc-single-row: scipy.io.loadmat(squeeze_me=True) turns a 1 x n (or 0 x n) bus / branch matrix into a 1-d
            # array, from_mpc._adjust_ppc_indices indexes it with [:, 0]
            ppc = to_ppc(copy.deepcopy(src), **kw)
            if route.startswith("mpc") and exc == "IndexError" and (ppc["branch"].shape[0] <= 1 or ppc["bus"].shape[0] <= 1):
                toks.append("explained=mat_single_row_squeezed")
            if exc == "ValueError" and "gencost" in ppc:
                # C21-pwl-gencost-padded: to_ppc pads piecewise linear cost rows of different length with zeros (MATPOWER
                # convention), from_ppc demands 2*NCOST == number of value columns for every pwl row
                gc = ppc["gencost"]
                pw = gc[gc[:, 0] == 1]
                if len(pw) and not np.allclose(2 * pw[:, 3], gc.shape[1] - 4):
                    toks.append("explained=pwl_gencost_rows_of_different_length")
            if exc == "UnboundLocalError":
                # C21-impedance-rate-zero: from_ppc's impedance path writes the RATE_A == 0 fallback into the transformer variable
                # `sn`, which only exists when the case also has a transformer-type branch
                from pandapower.converter.pypower.from_ppc import _branch_to_which
                from pandapower.pypower.idx_brch import RATE_A
                is_line, is_trafo, is_imp, _ = _branch_to_which(ppc)
                if not is_trafo.any() and (is_imp & np.isclose(ppc["branch"][:, RATE_A].real, 0)).any():
                    toks.append("explained=impedance_rate_zero_no_trafo")
            return toks
        if route.startswith("ppc"):
            # C21-line-g-halved: from_ppc writes g_us_per_km = BR_G / Zn * 1e6 / 2 although BR_G is the total conductance
            if len(conv.line) and (conv.line.g_us_per_km.values != 0).any():
                c2 = copy.deepcopy(conv)
                c2.line["g_us_per_km"] = c2.line.g_us_per_km * 2.
                if gx.run_pf(c2) == "ok" and not gx.compare(orig, c2, look, nb):
                    toks.append("explained=line_g_halved")
        else:
            # C21-mpc-branch-g: from_mpc files the struct field 'branch_g' under net._options, from_ppc never sees it:
            # the result must equal the PYPOWER route with that key removed
            ppc = to_ppc(copy.deepcopy(src), **kw)
            if "branch_g" in ppc:
                ppc.pop("branch_g")
                c2 = from_ppc(ppc, f_hz=src.f_hz)
                if gx.run_pf(c2) == "ok" and len(c2.bus) == len(conv.bus):
                    d = np.abs(c2.res_bus[["vm_pu", "va_degree"]].values - conv.res_bus[["vm_pu", "va_degree"]].values)
                    if np.nanmax(d) < 1e-9:
                        toks.append("explained=mpc_branch_g_dropped")
    except Exception:
        pass
    return toks


def run_case(case):
    out = {"violations": [], "n": 0, "counts": {}}
    net0 = gx.build(case)
    orig = copy.deepcopy(net0)
    oc = gx.run_pf(orig)
    out["counts"]["orig_" + oc] = 1
    if oc != "ok":
        out["outcome"] = "orig_" + oc
        out["sig"] = None
        return out
    sigs = []
    for route in case["routes"]:
        out["n"] += 1
        src = copy.deepcopy(orig) if route.endswith("results") else copy.deepcopy(net0)
        toks = ["route=" + route, "family=" + route[:3], "base=" + case["base"]] + ["dev=" + d[0] for d in case["devs"]]
        try:
            conv, look, nb = gx.convert(copy.deepcopy(src), route)
        except ImportError:
            out["counts"]["unavailable_" + route] = out["counts"].get("unavailable_" + route, 0) + 1
            continue
        except Exception as e:
            import os
            import traceback
            tb = traceback.extract_tb(e.__traceback__)
            site = next(("%s:%d" % (os.path.basename(f.filename), f.lineno) for f in reversed(tb) if "pandapower" in f.filename), "?")
            toks += ["exc=" + type(e).__name__, "site=" + site.split(":")[0]] + _explain(orig, src, None, route, None, None,
                                                                                        exc=type(e).__name__)
            out["violations"].append(core.violation("conversion_raises", {"route": route, "exc": type(e).__name__, "msg": str(e)[:200],
                                                                          "site": site}, tokens=toks, klass=route + "/" + type(e).__name__))
            continue
        cc = gx.run_pf(conv)
        out["counts"]["conv_" + cc] = out["counts"].get("conv_" + cc, 0) + 1
        if cc != "ok":
            out["violations"].append(core.violation("converted_pf_fails", {"route": route, "outcome": cc}, tokens=toks + ["outcome=" + cc],
                                                    klass=route + "/" + cc))
            continue
        diffs = gx.compare(orig, conv, look, nb)
        if diffs:
            toks += _explain(orig, src, conv, route, look, nb)
        for d in diffs:
            d["route"] = route
            out["violations"].append(core.violation(d["clause"], d, tokens=toks, klass=route + "/" + d["clause"]))
        sigs.append("%s|%s|%s|nb=%d|ntr=%d|nimp=%d|nsg=%d" % (case["base"], route, core.dhash(case["devs"]), nb, len(conv.trafo),
                                                             len(conv.impedance), len(conv.sgen)))
    out["outcome"] = "ok"
    out["sig"] = sigs
    return out


def gen_cases(tier):
    cases = []
    for b in BASES:
        m = gx.menu(b)
        if tier == "quick":
            for devs in na.subsets(m, 1):
                cases.append({"base": b, "devs": [list(d) for d in devs], "routes": gx.ROUTES})
            n2 = 0
            for devs in na.subsets(gx.reduced_menu(b), 2):
                if len(devs) == 2:
                    # pairs alternate between the PYPOWER route and the .mat file route (both are complete at k<=1)
                    cases.append({"base": b, "devs": [list(d) for d in devs], "routes": [["ppc_flat"], ["mpc_flat"]][n2 % 2]})
                    n2 += 1
        else:
            for devs in na.subsets(m, 2):
                cases.append({"base": b, "devs": [list(d) for d in devs], "routes": gx.ROUTES})
        if tier == "thorough":
            # k = 3 over the structural / tap part of the menu (bus elements fixed to one load + one gen)
            ms = [d for d in m if d[0] in ("set", "switch", "line", "trafo", "swapline", "bus", "sn", "impedance")] if b not in gx.COST_BASES else []
            for devs in na.subsets(ms, 3):
                if len(devs) == 3:
                    cases.append({"base": b, "devs": [list(d) for d in devs], "routes": ["ppc_flat", "mpc_flat"]})
    return cases


def explore(tier, seed):
    import os
    rep = core.Report(PROPERTY, LEVEL, tier, seed)
    core.warm(pf=True)
    cases = gen_cases(tier)
    kmax = os.environ.get("VERIF_K")       # triage aid: run the same enumeration at a smaller bound (recorded in the evidence)
    if kmax:
        cases = [c for c in cases if len(c["devs"]) <= int(kmax)]
        rep.extra["restricted_by_env_VERIF_K"] = int(kmax)
    rep.rule = ("E1: quick: every subset of <=1 deviations of the full C21 menus (3 routes) and every pair of the reduced menus (routes "
                "ppc_flat / mpc_flat alternating); thorough: every subset of <=2 of the full menus (3 routes) and every 3-subset of the structural/tap "
                "sub-menu; bases %s, routes %s; distinct+non-trivial = original AND converted power flow "
                "converged, keyed by (base, route, deviation-set hash, shape of the converted net)" % (BASES, gx.ROUTES))
    rep.extra["bound_k"] = min(int(kmax), 3) if kmax else (2 if tier == "quick" else 3)
    rep.extra["deviation_sets"] = len(cases)
    rep.extra["menu_sizes"] = {b: len(gx.menu(b)) for b in BASES}
    rep.extra["reduced_menu_sizes"] = {b: len(gx.reduced_menu(b)) for b in BASES}
    core.run_cases(rep, run_case, cases)
    rep.assumptions = ["tolerance 1e-6 (p.u. complex voltage; MW/Mvar relative to max(1, |value|))",
                       "only cases whose original runpp(trafo_model='pi', calculate_voltage_angles=True) converges are judged",
                       "slack power = net injection at buses carrying an in-service slack element"]
    return rep


def replay(case):
    return run_case(case)["violations"]

"""C30 Diagnostics are side-effect free and stateless - E2 BFS over Diagnostic histories incl. process-global module defaults."""
import json
import os
import subprocess
import sys

from mc import core
from mc import explore as ex
from mc import l_diag as ld

PROPERTY = "C30"
LEVEL = "model_checking"
META = {
    "text": "Every history up to depth 3 (thorough 4) of Diagnostic() / Diagnostic(add_default_functions=False) creation (<= 2 live instances), register_function of three custom functions, writing an option into the public attribute kwargs of one instance, diagnose_network(instance, net, kwargs) with several keyword sets and the legacy diagnostic(net, ...) wrapper is executed on the real objects with the process-global module defaults of pandapower.diagnostic carried as part of the state; after every transition the module defaults must be untouched, after every diagnosis the diagnosed net must equal its snapshot and the returned result (and per-check error classes) must equal the result of the same call - same registrations and own kwargs attribute of that instance, same kwargs of that call, same net - made in a pristine interpreter state.",
    "note": "Trusted: the pristine reference (module defaults deep-copied at import and re-installed; cross-checked once per run against a freshly started interpreter), the canonical state (report-only attributes of function objects are left out, argued in mc/l_diag.py). Three small nets (converging, overloaded-but-curable, not curable by any scaling stage) with a disconnected element / a wrong voltage level / an impedance close to zero; result tables are compared because both nets carry their own power-flow results before the first diagnosis. Error messages are compared by exception class only.",
    "technique": "explicit-state breadth-first search over operation histories on the real implementation with a differential (pristine-state) oracle",
    "design_ref": "DESIGN.md §3 E2, §4 C30",
}

QUICK = dict(depth=3, kw=["none", "osf", "minr", "maxx"], legacy_kw=["none", "osf"], max_regs=1)
THOROUGH = dict(depth=4, kw=["none", "osf", "minr", "maxx", "compact"], legacy_kw=["none", "osf"], max_regs=2)

_FRESH = r"""
import json, sys
from mc import core
core.quiet()
from mc import l_diag as ld
cfgs = json.loads(sys.argv[1])
print("FRESH" + json.dumps([ld.compute_reference(c) for c in cfgs]))
"""


def _model(tier):
    p = QUICK if tier == "quick" else THOROUGH
    return ld.Model(p["kw"], p["legacy_kw"], p["max_regs"]), p


def _prime(cfgs):
    """reference results computed in parallel in forked children, stored in the parent's memo before the BFS forks"""
    for key, res in core.pmap(ld.compute_reference, cfgs):
        ld._REF[key] = res


def explore(tier, seed):
    rep = core.Report(PROPERTY, LEVEL, tier, seed)
    model, p = _model(tier)
    core.warm(pf=True)
    ld.nets()
    cfgs = ld.all_reference_configs(p["max_regs"], p["kw"], p["legacy_kw"])
    # conformance of "pristine": the same reference calls in a freshly started interpreter
    sub = [c for c in cfgs if (c[0] == "legacy" or (c[1] and not c[2]))]
    fresh = subprocess.Popen([sys.executable, "-c", _FRESH, json.dumps(sub)], stdout=subprocess.PIPE,
                             stderr=subprocess.DEVNULL, env=dict(os.environ), cwd=core.VERIF)
    _prime(cfgs)
    ex.bfs(rep, model, p["depth"])
    out = fresh.communicate()[0].decode()
    line = [l for l in out.splitlines() if l.startswith("FRESH")]
    if not line:
        sys.stderr.write("HARNESS ERROR: fresh-interpreter reference run produced no result\n")
        raise SystemExit(2)
    mism = 0
    for key, res in json.loads(line[0][5:]):
        if json.dumps(core.jsonable(ld._REF.get(key)), sort_keys=True) != json.dumps(res, sort_keys=True):
            mism += 1
            sys.stderr.write("HARNESS ERROR: in-process pristine reference differs from a fresh interpreter for %s\n" % key)
    if mism:
        raise SystemExit(2)
    rep.extra["reference_results"] = len(ld._REF)
    rep.extra["reference_checked_in_fresh_interpreter"] = len(sub)
    rep.extra["bound_depth"] = p["depth"]
    rep.extra["alphabet"] = {"kwargs": p["kw"], "legacy_kwargs": p["legacy_kw"], "custom_functions": ld.FUNCS,
                             "max_custom_registrations_per_instance": p["max_regs"], "max_instances": 2, "nets": ld.NNETS}
    rep.rule = ("E2: every sequence of <= depth operations from {Diagnostic(True), Diagnostic(False), register_function(i, "
                "echo|need|slack), inst_i.kwargs.update(osf), diagnose_network(i, net j, kw), legacy diagnostic(net j, kw)}; states deduplicated by "
                "(module defaults, per instance kwargs/functions/aliasing, net content); distinct+non-trivial = distinct "
                "canonical states reached")
    rep.assumptions = ["result = returned dict (canonicalised, floats to 9 digits) + exception class per failed check",
                       "net snapshot = every public table and scalar entry; res_* tables rounded to 1e-7",
                       "report text is not part of the result"]
    return rep


def replay(case):
    tier = os.environ.get("VERIF_TIER", "thorough")
    model, _ = _model(tier)
    return ex.replay_history(model, case["history"])

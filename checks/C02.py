"""C02 Power flow honours the documented element equivalent circuits - E1 + reference circuit model."""
import copy

import numpy as np

import pandapower as pp

from mc import core, netalpha as na, refcircuit as rc

PROPERTY = "C02"
LEVEL = "exploration"
META = {
    "text": "Every network reachable from 4 base nets by <=2 (thorough <=3 on the transformer sub-menus) deviations from a branch/shunt-element menu (line length/parallel/c/g, every tap changer type on both tap sides, shifts, parallel transformers, 3W taps on hv/mv/lv, symmetric/asymmetric impedances, ward/xward/shunt with vn != bus vn, impedance switches, open switches) under 7 option sets (trafo_model t/pi, trafo_loading current/power, angles on/off, trafo3w_losses, sn_mva 1/100, DC) is solved by the real runpp/rundcpp; the reported voltages are plugged into an independent dense implementation of the documented element models and every reported terminal power, current, loading, loss and shunt-type injection is compared.",
    "note": "Trusted: mc/refcircuit.py (written from doc/elements/*.rst, validated on the base nets to 2e-9; two places where the documentation is ambiguous follow DESIGN.md Appendix A). tap_at_star_point, trafo3w_losses='star', tabular tap changers (C31) and temperature correction are outside this oracle. Certificate check at reported voltages - no second solver.",
    "technique": "bounded exhaustive input enumeration with a reference-model oracle evaluated at the reported state",
    "design_ref": "DESIGN.md §4 C02, Appendix A",
}

TOL_S = 1e-5      # MVA
TOL_I = 1e-7      # kA
TOL_L = 1e-5      # percent

OPTS = {
    "t": {},
    "pi": {"trafo_model": "pi"},
    "power": {"trafo_loading": "power"},
    "noangles": {"calculate_voltage_angles": False},
    "loss_mv": {"trafo3w_losses": "mv"},
    "loss_lv_pi": {"trafo3w_losses": "lv", "trafo_model": "pi"},
    "nonumba_nols": {"numba": False, "lightsim2grid": False},
    "dc": {"dc": True},
}


def menu(basename):
    m = []
    if basename in ("R3", "M4"):
        li = 1
        m += [["set", "line", li, "length_km", 7.5], ["set", "line", li, "parallel", 2], ["set", "line", li, "c_nf_per_km", 0.],
              ["set", "line", li, "g_us_per_km", 5.0], ["set", "line", li, "df", 0.8], ["set", "line", 0, "r_ohm_per_km", 0.01],
              ["swapline", li], ["sn", 100.]]
        b = na.HOT[basename][0]
        s = 20. if basename == "M4" else 1.
        m += [["shunt", b, 0.1 * s, -0.5 * s, 1, 1.0, True], ["shunt", b, 0.05 * s, 0.3 * s, 2, 0.9, True], ["ward", b, True],
              ["xward", b, True], ["gen", b, 0.7 * s, 1.01, "wide", False, True]]
        if basename == "R3":
            m += [["set", "switch", 0, "z_ohm", 0.5], ["set", "switch", 0, "closed", False], ["set", "switch", 1, "closed", False],
                  ["switch", 2, 1, "l", False, 0.], ["impedance", 1, 2, False], ["impedance", 0, 3, True], ["line", 0, 2, 1, True],
                  ]
        else:
            m += [["set", "switch", 0, "closed", False], ["impedance", 1, 3, False], ["impedance", 1, 3, True], ["line", 0, 2, 2, True],
                  ["set", "line", 3, "in_service", False]]
    elif basename == "T3":
        m += [["set", "trafo", 0, "tap_pos", 2], ["set", "trafo", 0, "tap_pos", -3], ["set", "trafo", 0, "tap_pos", 9],
              ["set", "trafo", 0, "tap_side", "lv"], ["set", "trafo", 0, "shift_degree", 150.], ["set", "trafo", 0, "shift_degree", 30.],
              ["set", "trafo", 0, "tap_changer_type", "Ideal"], ["set", "trafo", 0, "tap_changer_type", "Symmetrical"],
              ["set", "trafo", 0, "tap_step_degree", 30.], ["set", "trafo", 0, "tap_step_degree", 90.],
              ["set", "trafo", 0, "tap_step_percent", "nan"], ["set", "trafo", 0, "tap_neutral", 1],
              ["set", "trafo", 0, "parallel", 2], ["set", "trafo", 0, "df", 0.9], ["set", "trafo", 0, "pfe_kw", 0.], ["set", "trafo", 0, "i0_percent", 0.],
              ["set", "trafo", 0, "vkr_percent", 0.], ["set", "trafo", 0, "vk_percent", 6.], ["set", "trafo", 0, "sn_mva", 40.],
              ["set", "trafo", 0, "vn_hv_kv", 115.], ["set", "trafo", 0, "vn_lv_kv", 21.],
              ["set", "switch", 1, "closed", False], ["switch", 1, 0, "t", False, 0.], ["trafo", 0, 1], ["sn", 100.],
              ["set", "switch", 0, "z_ohm", 0.5], ["impedance", 1, 2, True], ["xward", 2, True], ["shunt", 2, 0.05, 0.3, 2, 0.9, True]]
    elif basename == "W3":
        m += [["set", "trafo3w", 0, "tap_pos", 2], ["set", "trafo3w", 0, "tap_pos", -3], ["set", "trafo3w", 0, "tap_side", "mv"],
              ["set", "trafo3w", 0, "tap_side", "lv"], ["set", "trafo3w", 0, "shift_mv_degree", 30.], ["set", "trafo3w", 0, "shift_lv_degree", 150.],
              ["set", "trafo3w", 0, "tap_step_degree", 20.], ["set", "trafo3w", 0, "tap_changer_type", "Ideal"],
              ["set", "trafo3w", 0, "pfe_kw", 0.], ["set", "trafo3w", 0, "vkr_mv_percent", 0.], ["set", "trafo3w", 0, "sn_lv_mva", 25.],
              ["set", "trafo3w", 0, "vn_mv_kv", 21.], ["set", "trafo3w", 0, "vk_lv_percent", 20.],
              ["set", "switch", 0, "closed", False], ["switch", 0, 0, "t3", False, 0.], ["switch", 2, 0, "t3", False, 0.], ["sn", 100.],
              ["shunt", 2, 0.05, 0.3, 2, 0.9, True], ["ward", 1, True],
              ["load", 2, 8.0, 2.0, "P", 1., True]]       # makes the lv winding the most loaded one
    return m


BASES = ["R3", "M4", "T3", "W3"]
# every case of a base starts from these deviations: a load behind the bus-bus switch, so that an impedance switch carries current
PRE = {"R3": [["load", 3, 1.5, 0.5, "P", 1., True]], "T3": [["load", 3, 1.0, 0.3, "P", 1., True]]}


def _cmp(vs, tab, idx, ref, res, optname, case_tokens):
    for c, val in ref.items():
        if c not in res.columns:
            continue
        got = res.at[idx, c]
        tol = TOL_I if c.startswith("i_") else (TOL_L if c == "loading_percent" else TOL_S)
        if c == "vm_internal_pu":
            tol = 1e-7
        if not (abs(got - val) <= tol + 1e-7 * abs(val)):
            vs.append(core.violation("%s.%s" % (tab, c.split("_")[0] if tab != "xward" else c),
                                     {"table": "res_" + tab, "index": int(idx), "column": c, "reported": got, "reference": val, "opt": optname},
                                     tokens=["opt=" + optname, "tab=" + tab, "col=" + c] + case_tokens, klass="%s.%s" % (tab, c)))
            return


def judge_ac(net, optname, opts):
    V = rc.bus_voltages(net)
    eff = dict(opts)
    eff.setdefault("switch_rx_ratio", net._options.get("switch_rx_ratio", 2))
    vs = []
    toks = []
    for tab, fn in (("line", lambda: rc.line_results(net, V)), ("trafo", lambda: rc.trafo_results(net, V, eff)),
                    ("trafo3w", lambda: rc.trafo3w_results(net, V, eff)), ("impedance", lambda: rc.impedance_results(net, V)),
                    ("shunt", lambda: rc.shunt_results(net, V)), ("ward", lambda: rc.ward_results(net, V)),
                    ("xward", lambda: rc.xward_results(net, V))):
        if not len(net[tab]):
            continue
        ref = fn()
        res = net["res_" + tab]
        for idx, r in ref.items():
            if r is None or r == "unsupported":
                continue
            _cmp(vs, tab, idx, r, res, optname, toks)
    for idx, r in rc.switch_results(net, V, eff).items():
        _cmp(vs, "switch", idx, r, net.res_switch, optname, toks)
    if vs and all(v["klass"].startswith("trafo") for v in vs) and _has_ideal_percent(net):
        # recorded deviation C02-ideal-percent: the implementation uses 2*asin(d*st/200) where the documentation
        # states 2*asin(st/200)*d; if the alternative formula reproduces every result the violation is attributed to it
        rc.IDEAL_PERCENT_FORMULA = "chord"
        try:
            vs2 = []
            for tab, fn in (("trafo", lambda: rc.trafo_results(net, V, eff)), ("trafo3w", lambda: rc.trafo3w_results(net, V, eff))):
                if len(net[tab]):
                    for idx, r in fn().items():
                        if r is not None and r != "unsupported":
                            _cmp(vs2, tab, idx, r, net["res_" + tab], optname, toks)
        finally:
            rc.IDEAL_PERCENT_FORMULA = "doc"
        if not vs2:
            for v in vs:
                v["tokens"] = list(v["tokens"]) + ["explained=ideal_percent_chord_formula"]
    return vs


def _has_ideal_percent(net):
    for tab in ("trafo", "trafo3w"):
        t = net[tab]
        if len(t) and ((t.tap_changer_type == "Ideal") & (t.tap_step_percent.fillna(0) != 0) & ((t.tap_pos - t.tap_neutral).abs() > 1)).any():
            return True
    return False


def judge_dc(net, optname):
    """linear DC model: vm = 1 (non-voltage-controlled buses), losses zero, p_from = -p_to, flows = (theta_f - theta_t - shift)/x"""
    vs = []
    va = np.deg2rad(net.res_bus.va_degree)
    for idx in net.line.index:
        L = net.line.loc[idx]
        r = net.res_line.loc[idx]
        if not L.in_service or np.isnan(r.p_from_mw):
            continue
        if abs(r.p_from_mw + r.p_to_mw) > 1e-9 or abs(r.pl_mw) > 1e-9:
            vs.append(core.violation("dc.lossless", {"line": int(idx), "p_from": r.p_from_mw, "p_to": r.p_to_mw, "pl": r.pl_mw},
                                     tokens=["opt=dc", "tab=line"], klass="dc.line.loss"))
            continue
        op = rc._open_sides(net, "l", idx, (int(L.from_bus), int(L.to_bus)))
        if op or np.isnan(va[L.from_bus]) or np.isnan(va[L.to_bus]):
            continue
        zn = float(net.bus.at[L.from_bus, "vn_kv"]) ** 2 / net.sn_mva
        x = L.x_ohm_per_km * L.length_km / L.parallel / zn
        ref = (va[L.from_bus] - va[L.to_bus]) / x * net.sn_mva
        if abs(ref - r.p_from_mw) > 1e-6 + 1e-7 * abs(ref):
            vs.append(core.violation("dc.line_flow", {"line": int(idx), "reported": r.p_from_mw, "reference": ref},
                                     tokens=["opt=dc", "tab=line"], klass="dc.line.flow"))
    for idx in net.trafo.index:
        r = net.res_trafo.loc[idx]
        if np.isnan(r.p_hv_mw):
            continue
        if abs(r.p_hv_mw + r.p_lv_mw) > 1e-9:
            vs.append(core.violation("dc.lossless", {"trafo": int(idx), "p_hv": r.p_hv_mw, "p_lv": r.p_lv_mw},
                                     tokens=["opt=dc", "tab=trafo"], klass="dc.trafo.loss"))
    for idx in net.trafo3w.index:
        r = net.res_trafo3w.loc[idx]
        if np.isnan(r.p_hv_mw):
            continue
        if abs(r.p_hv_mw + r.p_mv_mw + r.p_lv_mw) > 1e-9:
            vs.append(core.violation("dc.lossless", {"trafo3w": int(idx), "sum": r.p_hv_mw + r.p_mv_mw + r.p_lv_mw},
                                     tokens=["opt=dc", "tab=trafo3w"], klass="dc.trafo3w.loss"))
    # voltage magnitudes: 1 p.u. wherever no voltage set-point is defined
    vctrl = set(net.ext_grid.bus[net.ext_grid.in_service]) | set(net.gen.bus[net.gen.in_service]) | set(net.xward.bus[net.xward.in_service])
    from mc import balance
    node = balance.fused_nodes(net)
    vnodes = {node[int(b)] for b in vctrl if int(b) in node}
    for b in net.bus.index:
        vm = net.res_bus.vm_pu.at[b]
        if np.isnan(vm) or node[int(b)] in vnodes:
            continue
        if abs(vm - 1.) > 1e-12:
            vs.append(core.violation("dc.vm", {"bus": int(b), "vm_pu": vm}, tokens=["opt=dc"], klass="dc.vm"))
    return vs


def run_case(case):
    net0 = na.build(case)
    out = {"violations": [], "n": 0, "counts": {}, "sig": []}
    for on in case["optsets"]:
        opts = OPTS[on]
        if on.startswith("loss") and not len(net0.trafo3w):
            continue
        net = copy.deepcopy(net0)
        oc = na.run_pf(net, opts)
        out["n"] += 1
        out["counts"]["outcome_" + oc] = out["counts"].get("outcome_" + oc, 0) + 1
        if oc != "ok":
            continue
        if opts.get("dc"):
            out["violations"] += judge_dc(net, on)
        else:
            out["violations"] += judge_ac(net, on, opts)
        out["sig"].append("%s|%s|%s" % (case["base"], on, core.dhash(case["devs"])))
    out["outcome"] = "ok" if out["sig"] else "none_converged"
    return out


def gen_cases(tier):
    cases = []
    optsets = list(OPTS)
    for b in BASES:
        m = menu(b)
        for devs in na.subsets(m, 2):
            cases.append({"base": b, "devs": PRE.get(b, []) + [list(d) for d in devs], "optsets": optsets})
        if b in ("T3", "W3"):
            el = "trafo" if b == "T3" else "trafo3w"
            pre = ["set", el, 0, "tap_pos", 1]
            tapmenu = [d for d in m if d[0] == "set" and d[1] == el and d[3] in ("tap_side", "tap_changer_type", "tap_step_degree", "tap_step_percent",
                                                                                  "shift_degree", "shift_mv_degree", "shift_lv_degree", "tap_neutral")]
            for devs in na.subsets(tapmenu, 2):
                if devs:
                    cases.append({"base": b, "devs": PRE.get(b, []) + [pre] + [list(d) for d in devs], "optsets": ["t", "noangles", "dc"]})
        if tier == "thorough" and b in ("T3", "W3"):
            for devs in na.subsets(m, 3):
                if len(devs) == 3:
                    cases.append({"base": b, "devs": PRE.get(b, []) + [list(d) for d in devs], "optsets": ["t", "pi", "noangles", "dc"]})
    return cases


def explore(tier, seed):
    rep = core.Report(PROPERTY, LEVEL, tier, seed)
    core.warm(pf=True, dc=True)
    cases = gen_cases(tier)
    rep.rule = ("E1: every subset of <=2 (thorough: <=3 for T3/W3) compatible deviations of the branch/shunt menus of %s under option sets %s; "
                "distinct/non-trivial = converged run keyed by (base, option set, deviation-set hash)" % (BASES, list(OPTS)))
    rep.extra["bound_k"] = 2 if tier == "quick" else 3
    rep.extra["deviation_sets"] = len(cases)
    core.run_cases(rep, run_case, cases)
    rep.assumptions = ["reference model from doc/elements/*.rst (mc/refcircuit.py)", "tolerances 1e-5 MVA / 1e-7 kA / 1e-5 % + 1e-7 rel"]
    return rep


def replay(case):
    return run_case(case)["violations"]

"""C08 Calculations never corrupt the user's network, even when they fail - E4 crash-point enumeration x E1."""
import copy
import math

import numpy as np
import pandas as pd

import pandapower as pp

from mc import core, netalpha as na, faultinj

PROPERTY = "C08"
LEVEL = "fault_enumeration"
META = {
    "text": "For every (network, calculation) pair of a finite menu the calculation is traced once with sys.monitoring and then re-run on a fresh deep copy once per crash point, an exception being injected at that function entry (thorough: every entry event and every executed line of the pairs that carry temporary state); natural failures (no slack, divergence, NaN parameter, missing short-circuit data) are enumerated as inputs. After every run, returned or raised, all pre-existing cells and row sets of all non-result tables are compared with a snapshot.",
    "note": "LINE-level crash points on a `try:` header (executes nothing that can raise) or inside a `finally:` body (the restoring statements themselves) are excluded: a fault there is a fault in the cleanup, which no implementation can survive. Trusted: sys.monitoring delivers PY_START/LINE events deterministically (a divergence between trace and injected run is a harness error, exit 2). Crash points inside numba/C code and KeyboardInterrupt-like asynchronous faults are not modelled; new columns are tolerated (the statement speaks of pre-existing values and rows).",
    "technique": "exhaustive crash-point enumeration (fault injection at every function entry / line of the calculation pipeline) with a snapshot invariant",
    "design_ref": "DESIGN.md §3 E4, §4 C08",
}


# ----------------------------------------------------------------------------------------------
# networks
# ----------------------------------------------------------------------------------------------
def _tap_table(rows3w=False):
    d = {'id_characteristic': [0] * 5, 'step': [-2, -1, 0, 1, 2], 'voltage_ratio': [0.95, 0.975, 1, 1.025, 1.05],
         'angle_deg': [0, 0, 0, 0, 0], 'vk_percent': [11.5, 11.8, 12, 12.2, 12.5],
         'vkr_percent': [0.40, 0.405, 0.41, 0.415, 0.42], 'vk_hv_percent': np.nan, 'vkr_hv_percent': np.nan,
         'vk_mv_percent': np.nan, 'vkr_mv_percent': np.nan, 'vk_lv_percent': np.nan, 'vkr_lv_percent': np.nan}
    t = pd.DataFrame(d)
    if rows3w:
        d3 = {'id_characteristic': [1] * 5, 'step': [-2, -1, 0, 1, 2], 'voltage_ratio': [0.96, 0.98, 1, 1.02, 1.04],
              'angle_deg': [0, 0, 0, 0, 0], 'vk_percent': np.nan, 'vkr_percent': np.nan,
              'vk_hv_percent': [9.5, 9.8, 10, 10.2, 10.5], 'vkr_hv_percent': [0.29, 0.295, 0.3, 0.305, 0.31],
              'vk_mv_percent': [11.] * 5, 'vkr_mv_percent': [0.31] * 5, 'vk_lv_percent': [12.] * 5, 'vkr_lv_percent': [0.32] * 5}
        t = pd.concat([t, pd.DataFrame(d3)], ignore_index=True)
    return t


def make_net(name):
    if name == "R3":
        return na.base("R3")
    if name == "R3dc":            # dcline: auxiliary generators are added temporarily
        net = na.build({"base": "R3", "devs": [["dcline", 1, 3, 0.5], ["gen", 2, 0.5, 1.01, "wide", False, True]]})
        return net
    if name == "R3dc2":           # two dclines, one out of service, plus pre-existing gens with non-default index
        net = na.build({"base": "R3", "devs": [["dcline", 1, 3, 0.5], ["dcline", 0, 2, 0.3]]})
        net.dcline.at[1, "in_service"] = False
        pp.create_gen(net, 1, 0.2, 1.0, index=7, min_q_mvar=-5, max_q_mvar=5)
        return net
    if name == "R3x":             # xward + ward + shunt + impedance switch + open line switch + oos bus
        net = na.build({"base": "R3", "devs": [["xward", 2, True], ["ward", 1, True], ["shunt", 2, 0.1, -0.5, 1, 1.0, True],
                                               ["set", "switch", 0, "z_ohm", 0.5], ["bus", 1, False], ["switch", 2, 1, "l", False, 0.]]})
        return net
    if name == "T3tab":           # tabular tap dependency on a 2W trafo (vk / vkr / ratio from the table)
        net = na.base("T3")
        net["trafo_characteristic_table"] = _tap_table()
        net.trafo["id_characteristic_table"] = pd.array([0], dtype="Int64")
        net.trafo["tap_dependency_table"] = True
        net.trafo.at[0, "tap_changer_type"] = "Tabular"
        net.trafo.at[0, "tap_pos"] = 2
        net.trafo.at[0, "tap_min"], net.trafo.at[0, "tap_max"] = -2, 2
        return net
    if name == "W3tab":           # tabular tap dependency on 3W trafo + a 2W trafo sharing the table
        net = na.base("W3")
        net["trafo_characteristic_table"] = _tap_table(rows3w=True)
        net.trafo3w["id_characteristic_table"] = pd.array([1], dtype="Int64")
        net.trafo3w["tap_dependency_table"] = True
        net.trafo3w.at[0, "tap_changer_type"] = "Tabular"
        net.trafo3w.at[0, "tap_pos"] = -1
        net.trafo3w.at[0, "tap_min"], net.trafo3w.at[0, "tap_max"] = -2, 2
        b = pp.create_bus(net, 20.)
        prm = dict(na.TR)
        prm.update(tap_pos=1, tap_min=-2, tap_max=2, tap_changer_type="Tabular", tap_dependency_table=True, id_characteristic_table=0)
        pp.create_transformer_from_parameters(net, 0, b, **prm)
        pp.create_load(net, b, 2., 0.5)
        return net
    if name == "R3sh":            # shunt step dependency table
        net = na.base("R3")
        net["shunt_characteristic_table"] = pd.DataFrame({'id_characteristic': [0, 0, 0], 'step': [1, 2, 3],
                                                          'q_mvar': [-0.2, -0.4, -0.6], 'p_mw': [0.01, 0.02, 0.03]})
        pp.create_shunt(net, 2, -0.2, 0.01, step=2, max_step=3, step_dependency_table=True, id_characteristic_table=0)
        return net
    if name == "R3opf":           # controllable elements with costs + dcline
        net = na.base("R3")
        net.bus["min_vm_pu"], net.bus["max_vm_pu"] = 0.9, 1.1
        net.line["max_loading_percent"] = 100.
        pp.create_gen(net, 2, 0.5, 1.0, min_p_mw=0., max_p_mw=2., min_q_mvar=-1., max_q_mvar=1., controllable=True)
        pp.create_sgen(net, 3, 0.2, 0., min_p_mw=0., max_p_mw=0.5, min_q_mvar=-.1, max_q_mvar=.1, controllable=True)
        pp.create_load(net, 2, 0.4, 0.1, min_p_mw=0.1, max_p_mw=0.4, min_q_mvar=0., max_q_mvar=0.1, controllable=True)
        net.ext_grid["min_p_mw"], net.ext_grid["max_p_mw"] = -10., 10.
        net.ext_grid["min_q_mvar"], net.ext_grid["max_q_mvar"] = -10., 10.
        pp.create_poly_cost(net, 0, "ext_grid", 2.)
        pp.create_poly_cost(net, 0, "gen", 1.)
        pp.create_poly_cost(net, 0, "sgen", 0.5)
        pp.create_pwl_cost(net, 1, "load", [[0., 0.4, -1.]])
        return net
    if name == "R3opfq":          # quadratic costs only, one element with NaN controllable, a storage
        net = make_net("R3opf")
        net.pwl_cost.drop(net.pwl_cost.index, inplace=True)
        net.poly_cost.at[1, "cp2_eur_per_mw2"] = 0.1
        pp.create_gen(net, 1, 0.1, 1.0, controllable=np.nan, min_q_mvar=-1, max_q_mvar=1, min_p_mw=0, max_p_mw=1)
        pp.create_storage(net, 2, 0.1, 1., controllable=np.nan)
        return net
    if name == "R3shnan":         # shunt whose vn_kv is left NaN by the user
        net = na.base("R3")
        pp.create_shunt(net, 2, -0.2, 0.01)
        pp.create_shunt(net, 1, 0.1, 0.0)
        net.shunt["vn_kv"] = net.shunt["vn_kv"].astype(float)
        net.shunt.at[1, "vn_kv"] = np.nan
        return net
    if name == "R3qcap":          # generator with a reactive capability curve (limits looked up per calculation)
        from pandapower.control.util.auxiliary import create_q_capability_characteristics_object
        net = na.build({"base": "R3", "devs": [["gen", 2, 1.0, 1.01, "wide", False, True], ["sgen", 3, 0.5, 0.1, 1., True]]})
        net["q_capability_curve_table"] = pd.DataFrame(
            {"id_q_capability_curve": [0] * 5, "p_mw": [-2., -1., 0., 1., 2.], "q_min_mvar": [-0.01, -0.5, -0.8, -0.3, -0.01],
             "q_max_mvar": [0.01, 0.5, 0.8, 0.2, 0.01]})
        net.gen["id_q_capability_characteristic"] = pd.array([0], dtype="Int64")
        net.gen["curve_style"] = "straightLineYValues"
        net.gen["reactive_capability_curve"] = True
        net.gen.at[0, "min_q_mvar"], net.gen.at[0, "max_q_mvar"] = -3., 50.
        create_q_capability_characteristics_object(net)
        return net
    if name == "R3opfdc":
        net = make_net("R3opf")
        pp.create_dcline(net, 1, 3, 0.3, 1.0, 0.01, 1.01, 1.0, max_p_mw=1., min_q_from_mvar=-1., min_q_to_mvar=-1.,
                         max_q_from_mvar=1., max_q_to_mvar=1.)
        pp.create_poly_cost(net, 0, "dcline", 0.3)
        return net
    if name == "R3se":            # measurements for state estimation
        net = na.base("R3")
        pp.runpp(net)
        pp.create_measurement(net, "v", "bus", float(net.res_bus.vm_pu.at[0]), 0.01, 0)
        for b in (1, 2, 3):
            pp.create_measurement(net, "p", "bus", float(net.res_bus.p_mw.at[b]), 0.01, b)
            pp.create_measurement(net, "q", "bus", float(net.res_bus.q_mvar.at[b]), 0.01, b)
        for l in (0, 1):
            pp.create_measurement(net, "p", "line", float(net.res_line.p_from_mw.at[l]), 0.01, l, side="from")
            pp.create_measurement(net, "q", "line", float(net.res_line.q_from_mvar.at[l]), 0.01, l, side="from")
        for k in [k for k in net.keys() if k.startswith("res_")]:
            net[k] = net[k].iloc[0:0]
        return net
    if name == "T33ph":           # zero-sequence data + asymmetric load for runpp_3ph
        net = na.base("T3")
        pp.create_asymmetric_load(net, 2, 0.3, 0.2, 0.1, 0.05, 0.04, 0.03)
        net.ext_grid["r0x0_max"], net.ext_grid["x0x_max"] = 0.1, 1.0
        return net
    if name == "M4":
        net = na.base("M4")
        net.line["max_loading_percent"] = 60.
        net.bus["min_vm_pu"], net.bus["max_vm_pu"] = 0.95, 1.05
        return net
    if name == "M4dc":
        net = make_net("M4")
        pp.create_dcline(net, 1, 3, 5., 1.0, 0.01, 1.01, 1.0, max_p_mw=10., min_q_from_mvar=-10., min_q_to_mvar=-10.,
                         max_q_from_mvar=10., max_q_to_mvar=10.)
        return net
    if name == "B2B":
        net = pp.create_empty_network(sn_mva=1.)
        pp.create_buses(net, 3, 110.)
        pp.create_ext_grid(net, 0, **na.EG)
        pp.create_line_from_parameters(net, 0, 1, **na.LINE110)
        pp.create_line_from_parameters(net, 1, 2, **na.LINE110)
        pp.create_load(net, 2, 10., 2.)
        pp.create_bus_dc(net, 110., "A")
        pp.create_bus_dc(net, 110., "B")
        pp.create_bus_dc(net, 110., "C")
        pp.create_b2b_vsc(net, 1, 0, 1, 0.2, 10, 0.3, control_mode_ac='vm_pu', control_value_ac=1.,
                          control_mode_dc="vm_pu", control_value_dc=1.)
        pp.create_load_dc(net, 0, 1.0) if hasattr(pp, "create_load_dc") else None
        return net
    raise KeyError(name)


# natural crash points: edits that make the library raise by itself
NATURAL = {
    "none": [],
    "no_slack": [["set", "ext_grid", 0, "in_service", False]],
    "diverge": [["load", 2, 500., 200., "P", 1., True]],
    "nan_len": [["set", "line", 1, "length_km", "nan"]],
    "no_sc": [["set", "ext_grid", 0, "s_sc_max_mva", "nan"]],
    "gen_conflict": [["gen", 0, 0.5, 0.97, "wide", False, True]],
    "diverge_m4": [["load", 2, 500., 80., "P", 1., True]],      # N-0 converges, some N-1 cases do not
}


# ----------------------------------------------------------------------------------------------
# calculations
# ----------------------------------------------------------------------------------------------
def _sc(**kw):
    import pandapower.shortcircuit as sc

    def f(net):
        sc.calc_sc(net, **kw)
    return f


def _est(net):
    from pandapower.estimation import estimate
    estimate(net, init="flat")


def _cont(net):
    from pandapower.contingency import run_contingency
    run_contingency(net, {"line": {"index": list(net.line.index)}})


def _cont_raise(net):
    from pandapower.contingency import run_contingency
    run_contingency(net, {"line": {"index": list(net.line.index)}}, raise_errors=True)


def _contpar(net):
    from pandapower.contingency.contingency_parallel import run_contingency_parallel
    run_contingency_parallel(net, {"line": {"index": list(net.line.index)}}, n_procs=1)


def _pp3(net):
    from pandapower.pf.runpp_3ph import runpp_3ph
    runpp_3ph(net)


def _pf_results(net):
    pp.runpp(net, init="results")


CALCS = {
    "runpp": lambda net: pp.runpp(net),
    "runpp_nols": lambda net: pp.runpp(net, lightsim2grid=False),
    "runpp_nonumba": lambda net: pp.runpp(net, numba=False),
    "runpp_bfsw": lambda net: pp.runpp(net, algorithm="bfsw"),
    "runpp_qlim": lambda net: pp.runpp(net, enforce_q_lims=True),
    "runpp_dslack": lambda net: pp.runpp(net, distributed_slack=True),
    "runpp_results": _pf_results,
    "rundcpp": lambda net: pp.rundcpp(net),
    "runopp": lambda net: pp.runopp(net),
    "rundcopp": lambda net: pp.rundcopp(net),
    "runpp_3ph": _pp3,
    "sc3max": _sc(case="max", fault="3ph", ip=True, ith=True),
    "sc3min_br": _sc(case="min", fault="3ph", branch_results=True),
    "sc2": _sc(case="max", fault="2ph"),
    "sc1": _sc(case="max", fault="1ph"),
    "sc3_bus": _sc(case="max", fault="3ph", bus=2, inverse_y=False),
    "estimate": _est,
    "contingency": _cont,
    "contingency_raise": _cont_raise,
    "contingency_par1": _contpar,
}
NEEDS_PRIOR_PF = {"runpp_results"}

PF_CALCS = ["runpp", "runpp_nols", "runpp_nonumba", "runpp_bfsw", "runpp_qlim", "runpp_dslack", "runpp_results", "rundcpp"]
SC_CALCS = ["sc3max", "sc3min_br", "sc2", "sc1", "sc3_bus"]

PAIRS_QUICK = (
    [("R3dc", c, "none") for c in PF_CALCS + SC_CALCS] +
    [("R3dc2", c, "none") for c in ["runpp", "rundcpp", "sc3max", "sc1"]] +
    [("T3tab", c, "none") for c in ["runpp", "runpp_nols", "rundcpp", "sc3max", "sc1", "runpp_results"]] +
    [("W3tab", c, "none") for c in ["runpp", "rundcpp", "sc3max"]] +
    [("R3sh", c, "none") for c in ["runpp", "rundcpp"]] +
    [("R3x", c, "none") for c in ["runpp", "runpp_nols", "rundcpp", "sc3max", "runpp_bfsw"]] +
    [("R3opf", c, "none") for c in ["runopp", "rundcopp"]] +
    [("R3opfq", c, "none") for c in ["runopp", "rundcopp", "runpp"]] +
    [("R3shnan", c, "none") for c in ["runpp", "rundcpp", "sc3max", "runpp_3ph"]] +
    [("R3qcap", c, "none") for c in ["runpp", "runpp_qlim", "rundcpp"]] +
    [("R3opfdc", c, "none") for c in ["runopp", "rundcopp", "runpp"]] +
    [("R3se", "estimate", "none")] +
    [("T33ph", "runpp_3ph", "none"), ("T33ph", "sc1", "none")] +
    [("M4", c, "none") for c in ["contingency", "contingency_par1"]] +
    [("M4dc", c, "none") for c in ["contingency", "contingency_par1"]] +
    [("B2B", c, "none") for c in ["runpp", "rundcpp"]] +
    # natural crash points (no injection needed, but injection is applied on top as well)
    [("R3dc", c, nat) for c in ["runpp", "rundcpp", "sc3max", "sc1"] for nat in ["no_slack", "diverge", "nan_len", "no_sc", "gen_conflict"]] +
    [("T3tab", c, nat) for c in ["runpp", "sc3max"] for nat in ["no_slack", "diverge", "no_sc"]] +
    [("R3opfdc", "runopp", nat) for nat in ["no_slack", "diverge"]] +
    [("M4dc", "contingency", "diverge"), ("M4", "contingency_raise", "none"), ("M4", "contingency_raise", "diverge_m4"),
     ("M4", "contingency", "diverge_m4")]
)


# ----------------------------------------------------------------------------------------------
# snapshot oracle
# ----------------------------------------------------------------------------------------------
def _is_input_key(k, v):
    return not (k.startswith("res_") or k.startswith("_") or k in ("converged", "OPF_converged", "version", "format_version"))


def snapshot(net):
    snap = {}
    for k in list(net.keys()):
        v = net[k]
        if not _is_input_key(k, v):
            continue
        if isinstance(v, pd.DataFrame):
            snap[k] = ("df", v.copy(deep=True))
        else:
            try:
                snap[k] = ("obj", copy.deepcopy(v))
            except Exception:
                snap[k] = ("skip", None)
    return snap


def _cell_eq(a, b):
    try:
        if a is b:
            return True
        if isinstance(a, float) or isinstance(b, float) or isinstance(a, np.floating) or isinstance(b, np.floating):
            try:
                if math.isnan(float(a)) and math.isnan(float(b)):
                    return True
            except (TypeError, ValueError):
                pass
        if a is None or b is None or a is pd.NA or b is pd.NA:
            return (a is None or a is pd.NA or (isinstance(a, float) and math.isnan(a))) and \
                   (b is None or b is pd.NA or (isinstance(b, float) and math.isnan(b)))
        r = a == b
        if isinstance(r, (bool, np.bool_)):
            return bool(r)
        return bool(np.all(r))
    except Exception:
        return repr(a) == repr(b)


def _obj_eq(a, b):
    if isinstance(a, dict) and isinstance(b, dict):
        return a.keys() == b.keys() and all(_obj_eq(a[k], b[k]) for k in a)
    if isinstance(a, (list, tuple)) and isinstance(b, (list, tuple)):
        return len(a) == len(b) and all(_obj_eq(x, y) for x, y in zip(a, b))
    if isinstance(a, pd.DataFrame) and isinstance(b, pd.DataFrame):
        try:
            pd.testing.assert_frame_equal(a, b, check_dtype=False)
            return True
        except AssertionError:
            return False
    return _cell_eq(a, b)


def compare(snap, net, max_items=6):
    """-> list of (kind, table, detail)"""
    diffs = []
    for k, (kind, old) in snap.items():
        if k not in net:
            diffs.append(("table_removed", k, ""))
            continue
        new = net[k]
        if kind == "df":
            if not isinstance(new, pd.DataFrame):
                diffs.append(("table_replaced", k, type(new).__name__))
                continue
            oi, ni = list(old.index), list(new.index)
            if oi != ni:
                added = [i for i in ni if i not in set(oi)]
                removed = [i for i in oi if i not in set(ni)]
                if added or removed or len(oi) != len(ni):
                    diffs.append(("rows_changed", k, "added=%s removed=%s" % (added[:6], removed[:6])))
                    continue
            for c in old.columns:
                if c not in new.columns:
                    diffs.append(("column_removed", k, str(c)))
                    continue
                ov, nv = old[c], new[c].reindex(old.index) if oi != ni else new[c]
                if ov.dtype.kind in "fiub" and nv.dtype.kind in "fiub":
                    a, b = ov.values.astype(float), nv.values.astype(float)
                    bad = ~((a == b) | (np.isnan(a) & np.isnan(b)))
                    if bad.any():
                        i = int(np.flatnonzero(bad)[0])
                        diffs.append(("value_changed", k, "%s[%s]: %r -> %r" % (c, old.index[i], ov.values[i], nv.values[i])))
                else:
                    for i, (x, y) in enumerate(zip(ov.values, nv.values)):
                        if not _cell_eq(x, y):
                            diffs.append(("value_changed", k, "%s[%s]: %r -> %r" % (c, old.index[i], x, y)))
                            break
        elif kind == "obj":
            if not _obj_eq(old, new):
                diffs.append(("object_changed", k, ""))
        if len(diffs) >= max_items:
            break
    return diffs


# ----------------------------------------------------------------------------------------------
# driver
# ----------------------------------------------------------------------------------------------
_NETS = {}


def prepared(netname, nat, calc):
    key = (netname, nat, calc)
    if key not in _NETS:
        net = make_net(netname)
        for d in NATURAL[nat]:
            na.apply_dev(net, d)
        if calc in NEEDS_PRIOR_PF:
            try:
                pp.runpp(net)
            except Exception:
                pass
        _NETS[key] = net
    return _NETS[key]


def run_point(task):
    """task = {"net":..., "calc":..., "nat":..., "k": event index or None, "expect": trace entry, "lines": bool}"""
    net = copy.deepcopy(prepared(task["net"], task["nat"], task["calc"]))
    snap = snapshot(net)
    fn = CALCS[task["calc"]]
    if task["k"] is None:
        try:
            fn(net)
            oc = "ok"
        except Exception as e:
            oc = type(e).__name__
        fired = False
    else:
        oc, fired = faultinj.inject(lambda: fn(net), task["k"], expect=task["expect"], lines=task.get("lines", False))
    diffs = compare(snap, net)
    vs = []
    for kind, tab, det in diffs:
        toks = ["net=" + task["net"], "calc=" + task["calc"], "table=" + tab, "kind=" + kind, "nat=" + task["nat"],
                "injected" if task["k"] is not None else "not_injected", "outcome=" + oc]
        if len(net.get("dcline", [])):
            toks.append("has_dcline")
        if task["calc"] in ("sc1",):
            toks.append("fault=1ph")
        if kind == "value_changed":
            toks.append("col=" + det.split("[")[0])
            if "nan) ->" in det:
                toks.append("was_nan")
        vs.append(core.violation(kind, {"table": tab, "what": det, "outcome": oc,
                                        "crash_point": task["expect"], "event": task["k"]}, tokens=toks,
                                 klass="%s/%s/%s" % (task["calc"], tab, "raise" if oc != "ok" else "return")))
    sig = None
    if task["k"] is None or fired:
        sig = "%s|%s|%s|%s" % (task["net"], task["calc"], task["nat"], tuple(task["expect"]) if task["expect"] else "-")
    return {"outcome": oc if task["k"] is None else ("inj:" + oc), "sig": sig, "violations": vs, "n": 1}


def trace_pair(pair):
    netname, calc, nat = pair
    net = copy.deepcopy(prepared(netname, nat, calc))
    fn = CALCS[calc]
    ev, oc = faultinj.trace(lambda: fn(net))
    return {"outcome": "trace:" + oc, "events": ev, "violations": [], "sig": None, "n": 0}


def trace_pair_lines(pair):
    netname, calc, nat = pair
    net = copy.deepcopy(prepared(netname, nat, calc))
    fn = CALCS[calc]
    ev, oc = faultinj.trace(lambda: fn(net), lines=True)
    return {"outcome": "trace:" + oc, "events": ev, "violations": [], "sig": None, "n": 0}


def explore(tier, seed):
    rep = core.Report(PROPERTY, LEVEL, tier, seed)
    core.warm(pf=True, dc=True, opf=True, sc=True)
    pairs = list(PAIRS_QUICK)
    # run every pair once untraced in the parent: lazy imports, numba compilation and other first-call effects
    # happen here, so that the traced run and the injected runs (forked children) see the same event sequence
    for netname, calc, nat in pairs:
        net = copy.deepcopy(prepared(netname, nat, calc))
        try:
            CALCS[calc](net)
        except Exception:
            pass
    traces = core.pmap(trace_pair, pairs)
    tasks = []
    n_events = 0
    code_objs = set()
    for pair, tr in zip(pairs, traces):
        if tr.get("outcome") == "HARNESS_ERROR":
            raise SystemExit("HARNESS ERROR tracing %s: %s" % (pair, tr["harness_error"]))
        ev = tr["events"]
        n_events += len(ev)
        code_objs.update(ev)
        rep.outcome(tr["outcome"])
        tasks.append({"net": pair[0], "calc": pair[1], "nat": pair[2], "k": None, "expect": None})
        pts = faultinj.select_points(ev, "all" if tier == "thorough" else "first_last")
        for k in pts:
            tasks.append({"net": pair[0], "calc": pair[1], "nat": pair[2], "k": k, "expect": list(ev[k])})
    rep.extra["pairs"] = len(pairs)
    rep.extra["traced_events_total"] = n_events
    rep.extra["distinct_code_locations"] = len(code_objs)
    rep.extra["crash_points_injected"] = len(tasks) - len(pairs)
    if tier == "thorough":
        # every executed LINE of the pairs that carry temporary state
        lpairs = [p for p in pairs if p[2] == "none" and p[0] in ("R3dc", "T3tab", "W3tab", "R3opfdc", "M4dc", "B2B", "R3sh")
                  and p[1] in ("runpp", "rundcpp", "sc3max", "sc1", "runopp", "contingency")]
        ltraces = core.pmap(trace_pair_lines, lpairs)
        nl = 0
        for pair, tr in zip(lpairs, ltraces):
            ev = tr["events"]
            for k in faultinj.select_points(ev, "first_last"):
                if faultinj.in_cleanup_block(ev[k]):
                    rep.extra["line_points_inside_finally_excluded"] = rep.extra.get("line_points_inside_finally_excluded", 0) + 1
                    continue
                tasks.append({"net": pair[0], "calc": pair[1], "nat": pair[2], "k": k, "expect": list(ev[k]), "lines": True})
                nl += 1
        rep.extra["line_crash_points_injected"] = nl
    rep.rule = ("E4 x E1: %d (network, calculation, natural-failure) pairs; per pair 1 uninjected run + one run per crash point "
                "(quick: first and last occurrence of every distinct function-entry location of pandapower code reached; thorough: "
                "every function-entry event + first/last occurrence of every executed line for pairs with temporary state); a run "
                "is distinct/non-trivial when its injection really fired, keyed by (net, calc, natural failure, code location)" % len(pairs))
    core.run_cases(rep, run_point, tasks)
    rep.assumptions = ["exceptions injected as InjectedFault(Exception) at Python function entries / lines of pandapower code only",
                       "new columns and dtype-only changes are tolerated; result tables and private (_) entries are not inputs"]
    return rep


def replay(case):
    core.warm(pf=True, dc=True, opf=True, sc=True)
    return run_point(case)["violations"]

"""C25 standard types are applied completely and consistently — E1, exhaustive over all built-in + generated std types."""
import copy

import numpy as np
import pandas as pd

import pandapower as pp
from mc import core
from mc import i_create as ic
from mc import i_stdtype as st

PROPERTY = "C25"
LEVEL = "exploration"
META = {
    "text": "Every built-in line (51), transformer (14), three-winding transformer (2) and fuse (31) standard type plus generated types carrying the optional parameters (zero sequence, g, alpha, endtemp, shift, tap changer variants, second tap changer) is pushed through: create from type (tap at neutral and +-1), change_std_type from three other types (neighbour, a generated type with all optional columns, a minimal one), create_std_type/create_std_types -> load_std_type, overwrite, rename, delete+add, copy_std_types, std_type_exists, parameter_from_std_type (every parameter, with and without fill) and Fuse construction (both curve selections). Oracle: every parameter the type defines that create_*_from_parameters accepts is in the element row with the type's value; power flow (voltage angles on) and 3-phase / 1-phase short circuit results equal those of an element built with create_*_from_parameters from those values (1e-9); load_std_type returns exactly the stored dict. Exhaustive over types x operations, no sampling.",
    "note": "Trusted: the small environment nets (bus voltages from the type, moderate load) and the reading that 'parameters defined by the type' are the named parameters of create_<element>_from_parameters (q_mm2, voltage_rating, trafo_characteristic_table are library metadata and only checked through load_std_type / parameter_from_std_type). For change_std_type the reference element takes the remaining (not type-defined) values from the row. Mutating a returned dict is not judged.",
    "technique": "exhaustive enumeration of std types x std-type operations on the real library with a differential (from_parameters) and a row-completeness oracle",
    "design_ref": "DESIGN.md §3 E1, §4 C25",
}

ELS = ["line", "trafo", "trafo3w"]
FULL = {"line": "GEN_line_zero", "trafo": "GEN_trafo_full", "trafo3w": "GEN_t3_full"}
MINI = {"line": "GEN_line_min", "trafo": "GEN_trafo_min", "trafo3w": "GEN_t3_min"}
SEQ_EXTRA = {"line": "GEN_line_g", "trafo": "GEN_trafo_tap_lv", "trafo3w": "GEN_t3_tap_lv"}


def gen_cases(tier):
    cases = []
    for el in ELS:
        names = st.all_types(el)
        for i, name in enumerate(names):
            taps = (0, 1, -1) if el != "line" else (0,)
            for tap in taps:
                cases.append({"el": el, "type": name, "op": "create", "tap": tap})
            others = [names[(i + 1) % len(names)], FULL[el], MINI[el]]
            if tier == "thorough":
                others += [names[(i + 7) % len(names)], names[(i - 1) % len(names)]]
            for o in dict.fromkeys(others):
                if o != name:
                    for tap in ((0, 1) if el != "line" else (0,)):
                        cases.append({"el": el, "type": name, "op": "change", "other": o, "tap": tap})
            cases.append({"el": el, "type": name, "op": "pfst"})
            # the same type through the plural create function
            for tap in ((0, 1) if el != "line" else (0,)):
                cases.append({"el": el, "type": name, "op": "create", "tap": tap, "batch": True})
    for el in ELS:
        names = st.all_types(el)
        builtin = [n for n in names if not st.is_generated(n)]
        pool = [FULL[el], MINI[el], builtin[0], SEQ_EXTRA[el]]
        if tier == "thorough":
            pool += [builtin[-1], builtin[len(builtin) // 2]]
        for old in pool:
            for new in pool:
                if old != new:
                    for how in ("create", "plural", "copy"):
                        for tap in ((0, 1) if el != "line" else (0,)):
                            cases.append({"el": el, "op": "seq", "old": old, "type": new, "how": how, "tap": tap})
        for name in (names if tier == "thorough" else pool):
            cases.append({"el": el, "op": "seq", "old": name, "type": name, "how": "edit", "tap": 1 if el != "line" else 0})
    # mixed std-type lists in one create_lines call: with / without optional parameters, every order
    lnames = st.all_types("line")
    lb = [n for n in lnames if not st.is_generated(n)]
    lpool = [FULL["line"], MINI["line"], lb[0], SEQ_EXTRA["line"], "GEN_line_zero_only", "GEN_line_alpha"]
    if tier == "thorough":
        lpool += [lb[-1], "GEN_line_endtemp"]
    for a in lpool:
        for b in lpool:
            cases.append({"el": "line", "op": "create_lines", "types": [a, b], "type": b})
            if a != b:
                cases.append({"el": "line", "op": "create_lines", "types": [a, a, b], "type": b})
    for el in ELS + ["fuse", "line_dc"]:
        for name in st.all_types(el) if el != "line_dc" else sorted(st.base_net().std_types["line_dc"]):
            cases.append({"el": el, "type": name, "op": "store"})
        cases.append({"el": el, "type": "*", "op": "copy"})
    for name in st.all_types("fuse"):
        for cs in (0, 1):
            cases.append({"el": "fuse", "type": name, "op": "fuse", "curve_select": cs})
    return cases


# ----------------------------------------------------------------------------------------------------------------
def _tokens(case, *more):
    return ["el=" + case["el"], "op=" + case["op"], "gen" if st.is_generated(case["type"]) else "builtin"] + list(more)


def _explain_row(case, net, param, rv, tv):
    """exact predicates for recorded defects"""
    el, op = case["el"], case["op"]
    out = []
    if case.get("batch") and el == "trafo" and (param.startswith("tap") or param == "shift_degree") and \
            (rv is None or (param == "shift_degree" and rv == 0.0)):
        out.append("explained=transformers_std_param_not_copied")
    if rv is None and param not in net[el].columns:
        if op == "change":
            out.append("explained=change_std_type_skips_missing_columns")
        elif el == "line" and param == "alpha":
            out.append("explained=create_line_alpha_only_if_column_exists")
        elif el == "line" and param == "endtemp_degree":
            out.append("explained=create_line_ignores_endtemp_degree")
        elif el == "trafo3w" and (param == "vector_group" or param.startswith("vk0_") or param.startswith("vkr0_")):
            out.append("explained=create_transformer3w_ignores_zero_sequence_parameters")
    return out


def _patched(net_t, el, missing):
    """copy of net_t in which the parameters the create/change call omitted are written into the row"""
    net = copy.deepcopy(net_t)
    idx = net[el].index[0]
    for p, rv, tv, expl in missing:
        if p not in net[el].columns:
            net[el][p] = pd.Series([None] * len(net[el]), index=net[el].index, dtype=object if isinstance(tv, str) else float)
        net[el].at[idx, p] = tv
    return net


def _behaviour(case, net_t, net_r, out, data, missing=()):
    """run the calculations on the element from the type (net_t) and on the reference (net_r).
    missing: [(param, row value, type value, [explained tokens])] found by the row clause; a behavioural difference
    that disappears when exactly these values are written into the row carries the same explained tokens."""
    sigs = []

    def explained(calc, ob, rb):
        if not missing or not all(m[3] for m in missing):
            return []
        o2, r2 = st.run_calc(_patched(net_t, case["el"], missing), calc)
        if o2 != ob or (o2 == "ok" and st.compare_results(r2, rb)[0] > st.TOL):
            return []
        return sorted({t for m in missing for t in m[3]})
    for calc in st.CALCS:
        if calc == "sc1" and not st.is_generated(case["type"]):
            continue
        oa, ra = st.run_calc(net_t, calc)
        ob, rb = st.run_calc(net_r, calc)
        out["n"] += 1
        out["counts"]["%s_%s/%s" % (calc, oa, ob)] = out["counts"].get("%s_%s/%s" % (calc, oa, ob), 0) + 1
        if oa != ob:
            out["violations"].append(core.violation(
                "behaves_like_parameters", {"calc": calc, "from_type": oa, "from_parameters": ob},
                tokens=_tokens(case, "calc=" + calc, "outcome_differs", "type_outcome=" + oa, "ref_outcome=" + ob) + explained(calc, ob, rb),
                klass="%s:%s:outcome" % (case["el"], calc)))
            continue
        if oa != "ok":
            continue
        d, where = st.compare_results(ra, rb)
        sigs.append(calc)
        if d > st.TOL:
            out["violations"].append(core.violation(
                "behaves_like_parameters", {"calc": calc, "max_rel_diff": d, "where": where},
                tokens=_tokens(case, "calc=" + calc, "where=" + str(where).split(":")[0]) + explained(calc, ob, rb),
                klass="%s:%s:%s" % (case["el"], calc, str(where).split(".")[0])))
    return sigs


def _case_create(case, out):
    el, name = case["el"], case["type"]
    data = st.base_net().std_types[el][name]
    tp = st.tap_pos_for(data, case["tap"])
    if case["tap"] != 0 and tp is None:
        return None
    batch = bool(case.get("batch"))
    if batch and tp is None and "tap_neutral" in data:
        tp = data["tap_neutral"]
    params = st.type_params(el, data)
    net_t = st.BUILD[el](st.create_from_type(el, name, tp, batch=batch))(data)
    net_r = st.BUILD[el](st.create_from_params(el, params, tp))(data)
    row = net_t[el].iloc[0]
    out["n"] += 1
    missing = []
    for p, rv, tv in st.row_mismatches(el, row, params):
        ex = _explain_row(case, net_t, p, rv, tv)
        missing.append((p, rv, data[p], ex))
        out["violations"].append(core.violation(
            "parameter_in_row", {"param": p, "row": rv, "type": tv},
            tokens=_tokens(case, "param=" + p) + ex, klass="%s:create:%s" % (el, p)))
    sigs = _behaviour(case, net_t, net_r, out, data, missing)
    return "|".join(sigs)


def _judge_change(case, net_t, before, data, name, tp, out, prev):
    """after change_std_type(net_t, first element, name): row completeness + behaviour vs from_parameters"""
    el = case["el"]
    params = st.type_params(el, data)
    if tp is not None:      # the tap position is not part of a type: the user sets it (here: relative to the new type)
        net_t[el].at[net_t[el].index[0], "tap_pos"] = tp
    row = net_t[el].iloc[0]
    out["n"] += 1
    if row["std_type"] != name:
        out["violations"].append(core.violation("parameter_in_row", {"param": "std_type", "row": row["std_type"], "type": name},
                                                tokens=_tokens(case, "param=std_type"), klass=el + ":change:std_type"))
    missing = []
    for p, rv, tv in st.row_mismatches(el, row, params):
        ex = _explain_row(case, net_t, p, rv, tv)
        missing.append((p, rv, data[p], ex))
        out["violations"].append(core.violation(
            "parameter_in_row", {"param": p, "row": rv, "type": tv, "previous_type": prev},
            tokens=_tokens(case, "param=" + p) + ex, klass="%s:change:%s" % (el, p)))
    # reference: explicit parameters = values the row had before (for parameters the new type does not define)
    # overridden by every value of the new type
    merged = {}
    for p in st.applicable(el):
        if p in before.index and ic.norm(before[p]) is not None:
            merged[p] = before[p]
    merged.update(params)
    tpos = tp if tp is not None else (before["tap_pos"] if "tap_pos" in before.index and ic.norm(before["tap_pos"]) is not None else None)
    net_r = st.BUILD[el](st.create_from_params(el, merged, tpos))(data)
    return _behaviour(case, net_t, net_r, out, data, missing)


def _tap_for_change(data, tap):
    tp = st.tap_pos_for(data, tap)
    if tap != 0 and tp is None:
        return False, None
    if tp is None and "tap_neutral" in data:
        tp = data["tap_neutral"]
    return True, tp


def _case_change(case, out):
    el, name, other = case["el"], case["type"], case["other"]
    data = st.base_net().std_types[el][name]
    ok, tp = _tap_for_change(data, case["tap"])
    if not ok:
        return None
    net_t = st.BUILD[el](st.create_from_type(el, other))(data)
    before = net_t[el].iloc[0].copy()
    pp.change_std_type(net_t, net_t[el].index[0], name, element=el)
    sigs = _judge_change(case, net_t, before, data, name, tp, out, other)
    return "|".join(sigs)


def _case_create_lines(case, out):
    """one create_lines call with a LIST of std types (parallel lines between the same buses)"""
    el = "line"
    lib = st.base_net().std_types[el]
    datas = [lib[t] for t in case["types"]]
    env = dict(datas[0], max_i_ka=min(d["max_i_ka"] for d in datas))

    def create_t(net, b0, b1, length):
        pp.create_lines(net, [b0] * len(datas), [b1] * len(datas), length, list(case["types"]))

    def create_r(net, b0, b1, length):
        for d in datas:
            pp.create_line_from_parameters(net, b0, b1, length, **st.type_params(el, d))
    net_t, net_r = st.BUILD[el](create_t)(env), st.BUILD[el](create_r)(env)
    missing = []
    out["n"] += 1
    for i, (t, d) in enumerate(zip(case["types"], datas)):
        for p, rv, tv in st.row_mismatches(el, net_t[el].iloc[i], st.type_params(el, d)):
            ex = _explain_row(dict(case, op="create"), net_t, p, rv, tv)
            missing.append((p, rv, d[p], ex))
            out["violations"].append(core.violation(
                "parameter_in_row", {"param": p, "row": rv, "type": tv, "position": i, "std_type": t},
                tokens=_tokens(case, "param=" + p, "pos=%d" % i) + ex, klass="line:create_lines:%s" % p))
    # behaviour (the explanation-by-patching of _behaviour only handles one row: no tokens for multi-row gaps)
    sigs = _behaviour(case, net_t, net_r, out, env, ())
    return "lines|" + "|".join(sigs)


SEQ_NAME = "SEQ_type"


def _redefine(net, el, data, how):
    """redefine the library entry SEQ_NAME with the given data"""
    data = copy.deepcopy(data)
    if how == "create":
        pp.create_std_type(net, data, SEQ_NAME, element=el, overwrite=True, check_required=False)
    elif how == "plural":
        pp.create_std_types(net, {SEQ_NAME: data}, element=el, overwrite=True, check_required=False)
    else:
        src = pp.create_empty_network(add_stdtypes=False)
        src.std_types.setdefault(el, {})[SEQ_NAME] = data
        pp.copy_std_types(net, src, element=el, overwrite=True)


def _case_seq(case, out):
    """operation sequences on the std-type library: a type is defined (old data), an element is created from it, the
    type is redefined under the SAME name (new data: more / fewer / other keys) or the element is edited by hand, then
    load_std_type / change_std_type to the same name / create from the name / parameter_from_std_type are judged."""
    el, how = case["el"], case["how"]
    lib = st.base_net().std_types[el]
    d_old, d_new = copy.deepcopy(lib[case["old"]]), copy.deepcopy(lib[case["type"]])
    ok, tp = _tap_for_change(d_new, case["tap"])
    if not ok:
        return None

    def create_old(net, *a):
        pp.create_std_type(net, copy.deepcopy(d_old), SEQ_NAME, element=el, check_required=False)
        st.create_from_type(el, SEQ_NAME)(net, *a)

    net_t = st.BUILD[el](create_old)(d_new)
    idx = net_t[el].index[0]
    if how == "edit":       # hand edit of every numeric type parameter, the type is then re-applied
        for p, v in st.type_params(el, d_old).items():
            if isinstance(v, (int, float)) and not isinstance(v, bool) and p in net_t[el].columns and v:
                net_t[el].at[idx, p] = v * 1.5
    else:
        _redefine(net_t, el, d_new, how)
    c_load = dict(case, op="store")
    out["n"] += 1
    loaded = pp.load_std_type(net_t, SEQ_NAME, element=el)
    if not _same(loaded, d_new):
        out["violations"].append(core.violation(
            "load_returns_stored", {"step": "redefine_same_name", "how": how, "extra_keys": sorted(set(loaded) - set(d_new)),
                                    "missing_keys": sorted(set(d_new) - set(loaded))},
            tokens=_tokens(c_load, "step=redefine_same_name", "how=" + how), klass=el + ":store:redefine"))
    # change_std_type to the name the element already carries
    before = net_t[el].iloc[0].copy()
    pp.change_std_type(net_t, idx, SEQ_NAME, element=el)
    c_ch = dict(case, op="change")
    sigs = _judge_change(c_ch, net_t, before, d_new, SEQ_NAME, tp, out, case["old"])
    # parameter_from_std_type sees the current definition
    for p, v in d_new.items():
        out["n"] += 1
        try:
            pp.parameter_from_std_type(net_t, p, element=el)
            got = ic.norm(net_t[el][p].iloc[0])
        except Exception as e:
            got = "raised:" + type(e).__name__
        if not ic.veq(got, ic.norm(v)):
            out["violations"].append(core.violation("parameter_from_std_type", {"param": p, "row": got, "type": ic.norm(v)},
                                                    tokens=_tokens(dict(case, op="pfst"), "param=" + p, "seq"), klass=el + ":pfst:value"))
    if how != "edit":
        # a new element created from the redefined name
        def create_new(net, *a):
            pp.create_std_type(net, copy.deepcopy(d_old), SEQ_NAME, element=el, check_required=False)
            _redefine(net, el, d_new, how)
            st.create_from_type(el, SEQ_NAME, tp)(net, *a)
        c_cr = dict(case, op="create")
        params = st.type_params(el, d_new)
        net_c = st.BUILD[el](create_new)(d_new)
        net_r = st.BUILD[el](st.create_from_params(el, params, tp))(d_new)
        row = net_c[el].iloc[0]
        out["n"] += 1
        missing = []
        for p, rv, tv in st.row_mismatches(el, row, params):
            ex = _explain_row(c_cr, net_c, p, rv, tv)
            missing.append((p, rv, d_new[p], ex))
            out["violations"].append(core.violation("parameter_in_row", {"param": p, "row": rv, "type": tv},
                                                    tokens=_tokens(c_cr, "param=" + p) + ex, klass="%s:create:%s" % (el, p)))
        # parameters of the OLD definition must not leak into the new element
        ref_row = net_r[el].iloc[0]
        for p in st.applicable(el):
            if p in d_old and p not in d_new:
                rv = ic.norm(row[p]) if p in row.index else None
                fv = ic.norm(ref_row[p]) if p in ref_row.index else None
                if not ic.veq(rv, fv):
                    out["violations"].append(core.violation(
                        "parameter_in_row", {"param": p, "row": rv, "from_parameters_row": fv, "leaked_from_old_definition": ic.norm(d_old[p])},
                        tokens=_tokens(c_cr, "param=" + p, "leak"), klass="%s:create:leak" % el))
        sigs += _behaviour(c_cr, net_c, net_r, out, d_new, missing)
    return "seq|" + "|".join(sigs)


def _same(a, b):
    """exact equality of two std-type dicts (same keys, same values, same value types for numbers vs str)"""
    if set(a) != set(b):
        return False
    for k in a:
        x, y = a[k], b[k]
        if isinstance(x, (list, tuple, np.ndarray)) or isinstance(y, (list, tuple, np.ndarray)):
            if list(x) != list(y):
                return False
        elif not (x == y or (isinstance(x, float) and isinstance(y, float) and np.isnan(x) and np.isnan(y))):
            return False
    return True


def _case_store(case, out):
    el, name = case["el"], case["type"]
    net = st.base_net()
    data = copy.deepcopy(net.std_types[el][name])
    snap = copy.deepcopy(data)

    def bad(step, detail, *tok):
        out["violations"].append(core.violation("load_returns_stored", dict(detail, step=step),
                                                tokens=_tokens(case, "step=" + step) + list(tok), klass="%s:store:%s" % (el, step)))

    def step(label, fn):
        out["n"] += 1
        try:
            return "ok", fn()
        except Exception as e:
            out["counts"]["store_%s_%s" % (label, type(e).__name__)] = out["counts"].get("store_%s_%s" % (label, type(e).__name__), 0) + 1
            return type(e).__name__, str(e)[:120]

    # create under a new name -> load / exists
    o, r = step("create", lambda: pp.create_std_type(net, data, "X_new", element=el))
    if o != "ok":
        bad("create", {"raised": o, "msg": r}, "raised=" + o)
    else:
        if not pp.std_type_exists(net, "X_new", element=el) or not _same(pp.load_std_type(net, "X_new", element=el), snap):
            bad("create", {"loaded": core.jsonable(net.std_types[el].get("X_new"))})
    # overwrite=False on a fresh name must create; overwrite=True replaces
    o, r = step("create_nooverwrite", lambda: pp.create_std_type(net, copy.deepcopy(snap), "X_new2", element=el, overwrite=False))
    if o != "ok" or not _same(pp.load_std_type(net, "X_new2", element=el), snap):
        bad("create_nooverwrite", {"raised": o})
    other = copy.deepcopy(snap)
    k0 = sorted(other)[0]
    other[k0] = (other[k0] * 2) if isinstance(other[k0], (int, float)) and not isinstance(other[k0], bool) else other[k0]
    o, r = step("overwrite", lambda: pp.create_std_type(net, other, "X_new2", element=el, overwrite=True))
    if o != "ok" or not _same(pp.load_std_type(net, "X_new2", element=el), other):
        bad("overwrite", {"raised": o})
    # redefinition of an existing name with FEWER keys (required ones only) and then with the full set again
    req = set(pp.std_types.required_std_type_parameters(el))
    fewer = {k: v for k, v in snap.items() if k in req} or {sorted(snap)[0]: snap[sorted(snap)[0]]}
    if set(fewer) != set(snap):
        o, r = step("redefine_fewer", lambda: pp.create_std_type(net, copy.deepcopy(fewer), "X_new2", element=el, overwrite=True, check_required=False))
        if o != "ok" or not _same(pp.load_std_type(net, "X_new2", element=el), fewer):
            bad("redefine_fewer", {"raised": o, "extra_keys": sorted(set(net.std_types[el].get("X_new2", {})) - set(fewer))})
        o, r = step("redefine_more", lambda: pp.create_std_type(net, copy.deepcopy(snap), "X_new2", element=el, overwrite=True))
        if o != "ok" or not _same(pp.load_std_type(net, "X_new2", element=el), snap):
            bad("redefine_more", {"raised": o})
    # plural
    o, r = step("create_std_types", lambda: pp.create_std_types(net, {"X_pl1": copy.deepcopy(snap), "X_pl2": copy.deepcopy(other)}, element=el))
    if o != "ok" or not _same(pp.load_std_type(net, "X_pl1", element=el), snap) or not _same(pp.load_std_type(net, "X_pl2", element=el), other):
        bad("create_std_types", {"raised": o})
    # rename
    o, r = step("rename", lambda: pp.rename_std_type(net, name, "X_ren", element=el))
    if o != "ok":
        bad("rename", {"raised": o, "msg": r}, "raised=" + o)
    elif not pp.std_type_exists(net, "X_ren", element=el) or not _same(pp.load_std_type(net, "X_ren", element=el), snap):
        bad("rename", {"loaded": core.jsonable(net.std_types[el].get("X_ren"))})
    # delete + add again
    o, r = step("delete", lambda: pp.delete_std_type(net, "X_new", element=el))
    o2, r2 = step("readd", lambda: pp.create_std_type(net, copy.deepcopy(snap), "X_new", element=el))
    if o != "ok" or o2 != "ok" or not _same(pp.load_std_type(net, "X_new", element=el), snap):
        bad("delete_add", {"delete": o, "add": o2})
    return "store"


def _case_copy(case, out):
    el = case["el"]
    src = st.base_net()
    for ow in (True, False):
        dst = pp.create_empty_network(add_stdtypes=False)
        dst.std_types.setdefault(el, {})
        out["n"] += 1
        try:
            pp.copy_std_types(dst, src, element=el, overwrite=ow)
        except Exception as e:
            out["violations"].append(core.violation("load_returns_stored", {"step": "copy", "raised": type(e).__name__, "msg": str(e)[:200]},
                                                    tokens=_tokens(case, "step=copy", "raised=" + type(e).__name__), klass=el + ":store:copy"))
            continue
        for name, data in src.std_types[el].items():
            if not pp.std_type_exists(dst, name, element=el) or not _same(pp.load_std_type(dst, name, element=el), data):
                out["violations"].append(core.violation("load_returns_stored", {"step": "copy", "type": name},
                                                        tokens=_tokens(case, "step=copy"), klass=el + ":store:copy"))
    return "copy"


def _case_pfst(case, out):
    el, name = case["el"], case["type"]
    data = st.base_net().std_types[el][name]
    params = st.type_params(el, data)
    required = st.required(el)
    for fill in (None, "fill"):
        def create2(net, *a):
            # row 0: element of the type; row 1: element without std type, only the required parameters
            st.create_from_type(el, name)(net, *a)
            st.create_from_params(el, {p: v for p, v in params.items() if p in required})(net, *a)
        net = st.BUILD[el](create2)(data)
        for p, v in data.items():
            fv = None if fill is None else ("zz" if isinstance(v, str) else -7.5)
            had = ic.norm(net[el][p].iloc[1]) if p in net[el].columns else None
            out["n"] += 1
            try:
                pp.parameter_from_std_type(net, p, element=el, fill=fv)
            except Exception as e:
                out["violations"].append(core.violation("parameter_from_std_type", {"param": p, "raised": type(e).__name__, "msg": str(e)[:160]},
                                                        tokens=_tokens(case, "param=" + p, "raised=" + type(e).__name__), klass=el + ":pfst:raised"))
                continue
            got = ic.norm(net[el][p].iloc[0]) if p in net[el].columns else None
            if not ic.veq(got, ic.norm(v)):
                out["violations"].append(core.violation("parameter_from_std_type", {"param": p, "row": got, "type": ic.norm(v)},
                                                        tokens=_tokens(case, "param=" + p), klass=el + ":pfst:value"))
            got1 = ic.norm(net[el][p].iloc[1]) if p in net[el].columns else None
            exp1 = had if had is not None else ic.norm(fv)
            if not ic.veq(got1, exp1):
                out["violations"].append(core.violation("parameter_from_std_type", {"param": p, "untyped_row": got1, "expected": exp1, "fill": fv},
                                                        tokens=_tokens(case, "param=" + p, "untyped_row"), klass=el + ":pfst:fill"))
    return "pfst"


def _fuse_net():
    net = st.base_net()
    b = [pp.create_bus(net, 0.4) for _ in range(3)]
    pp.create_ext_grid(net, b[0], **st.EG)
    pp.create_line_from_parameters(net, b[0], b[1], 0.1, 0.2, 0.08, 0., 0.3)
    pp.create_line_from_parameters(net, b[1], b[2], 0.1, 0.2, 0.08, 0., 0.3)
    pp.create_load(net, b[2], 0.05)
    pp.create_switch(net, b[1], 1, "l", closed=True)
    return net


def _case_fuse(case, out):
    from pandapower.protection.protection_devices.fuse import Fuse
    name, cs = case["type"], case["curve_select"]
    data = st.base_net().std_types["fuse"][name]
    if not (isinstance(data["t_avg"], list) or data["t_avg"] != 0):
        x, t = (data["x_min"], data["t_min"]) if cs == 0 else (data["x_total"], data["t_total"])
    else:
        x, t = data["x_avg"], data["t_avg"]
    na, nb = _fuse_net(), _fuse_net()
    out["n"] += 1
    fa = Fuse(na, 0, fuse_type=name, curve_select=cs)
    fb = Fuse(nb, 0, fuse_type="none", rated_i_a=data["i_rated_a"])
    fb.create_characteristic(nb, x, t)
    probs = []
    if fa.rated_i_a != data["i_rated_a"]:
        probs.append(("i_rated_a", fa.rated_i_a, data["i_rated_a"]))
    if fa.i_start_a != min(x) or fa.i_stop_a != max(x):
        probs.append(("curve_range", [fa.i_start_a, fa.i_stop_a], [min(x), max(x)]))
    ca = na.characteristic.at[fa.characteristic_index, "object"]
    cb = nb.characteristic.at[fb.characteristic_index, "object"]
    xs = np.array(x, dtype=float)
    grid = np.concatenate([xs, np.sqrt(xs[:-1] * xs[1:])])
    ya, yb = np.array(ca(grid), dtype=float), np.array(cb(grid), dtype=float)
    if np.max(np.abs(ya[:len(xs)] - np.array(t, dtype=float)) / np.array(t, dtype=float)) > 1e-9:
        probs.append(("curve_points", ya[:len(xs)].tolist(), list(t)))
    if np.max(np.abs(ya - yb) / np.maximum(1e-12, np.abs(yb))) > st.TOL:
        probs.append(("curve_vs_explicit", float(np.max(np.abs(ya - yb))), 0.))
    # behaviour: protection function on fabricated short-circuit currents
    for i_a in (0.5 * min(x), float(grid[len(xs)]), 2 * max(x)):
        for n_, f_ in ((na, fa), (nb, fb)):
            n_["res_switch_sc"] = pd.DataFrame({"ikss_ka": [i_a / 1000.]}, index=[0])
        pa, pb = fa.protection_function(na), fb.protection_function(nb)
        out["n"] += 1
        if pa["trip_melt"] != pb["trip_melt"] or not (pa["trip_melt_time_s"] == pb["trip_melt_time_s"] or
                                                       abs(pa["trip_melt_time_s"] - pb["trip_melt_time_s"]) <= st.TOL * abs(pb["trip_melt_time_s"])):
            probs.append(("protection_function", core.jsonable(pa), core.jsonable(pb)))
    for what, got, exp in probs:
        out["violations"].append(core.violation("parameter_in_row" if what in ("i_rated_a", "curve_range", "curve_points") else "behaves_like_parameters",
                                                {"what": what, "fuse": got, "expected": exp},
                                                tokens=_tokens(case, "what=" + what), klass="fuse:" + what))
    return "fuse"


_OPS = {"create": _case_create, "create_lines": _case_create_lines, "change": _case_change, "seq": _case_seq, "store": _case_store, "copy": _case_copy, "pfst": _case_pfst,
        "fuse": _case_fuse}


def run_case(case):
    out = {"violations": [], "n": 0, "counts": {}, "outcome": "ok", "sig": None}
    sig = _OPS[case["op"]](case, out)
    if sig is None:
        out["outcome"] = "not_applicable"
        out["n"] = max(out["n"], 1)
        return out
    out["sig"] = core.dhash(case) + "|" + sig
    return out


def explore(tier, seed):
    rep = core.Report(PROPERTY, LEVEL, tier, seed)
    core.warm(pf=True, sc=True)
    st.base_net()
    cases = gen_cases(tier)
    rep.rule = ("E1: every std type of line/trafo/trafo3w (all built-in + generated) x {create (tap neutral, +1, -1), change_std_type from "
                "%d other types x tap {0,+1}, parameter_from_std_type of every type key x fill {None, value}}; every line/line_dc/trafo/"
                "trafo3w/fuse type x store operations {create, no-overwrite, overwrite, create_std_types, rename, delete+add}, copy_std_types "
                "per element x overwrite; every fuse type x curve_select {0,1}. Non-trivial/distinct = the operation ran and (for create/"
                "change) the calculations that were compared; keyed by descriptor hash" % (5 if tier == "thorough" else 3))
    rep.extra["n_cases"] = len(cases)
    rep.extra["types"] = {el: len(st.all_types(el)) for el in ELS + ["fuse"]}
    rep.extra["generated_types"] = {el: sorted(st.GEN[el]) for el in st.GEN}
    core.run_cases(rep, run_case, cases)
    rep.assumptions = ["results compared with 1e-9 relative (same solver on both sides); only calculations that succeed on both sides are compared, "
                       "a different outcome (raise vs ok) is a violation",
                       "parameters defined by a type = named parameters of create_<element>_from_parameters present in the type",
                       "1-phase short circuit only for generated types (built-in types carry no zero sequence data)"]
    return rep


def replay(case):
    core.warm(pf=True, sc=True)
    return run_case(case)["violations"]

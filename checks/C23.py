"""C23 result-preserving toolbox transformations preserve power-flow results - E1, metamorphic on the real toolbox."""
import copy

import numpy as np

from mc import core, netalpha as na
from mc import b_tf, b_tool, b_alpha as ba

PROPERTY = "C23"
LEVEL = "exploration"
META = {
    "text": "Every network reachable from 5 base nets by <=1 (thorough <=2) deviations, in 3 (thorough 4) equivalent representations (as built, per-unit base x100, all indices relabelled with gaps that are skewed between tables; thorough also aligned gaps and descending order), is solved, handed to every real toolbox transformation of the statement at every applicable target (create_continuous_bus_index / _elements_index, replace_line_by_impedance and replace_impedance_by_line single and round trip, replace_ext_grid_by_gen(slack), replace_gen_by_ext_grid, replace_ward/xward_by_internal_elements, merge_nets with a disjoint companion in both orders, select_subnet of every supplied island, drop_out_of_service_elements, drop_inactive_elements, fuse_buses over every closed z=0 bus-bus switch in both directions, merge_parallel_line), solved again, and the results of corresponding buses/elements are compared. Exhaustive within that bound, no sampling.",
    "note": "Trusted: the correspondence maps in mc/b_tool.py (from return values, tag columns carried through the call, or documented behaviour) and the island computation used for select_subnet. Targets a function declines (only_valid_replace) are counted, not judged. Only pairs where both power flows converge are compared; a transformation that raises on an applicable target or makes the calculation fail is reported. ZIP loads are kept out (C01-zip).",
    "technique": "bounded exhaustive enumeration of (network, representation, toolbox transformation, target) on the real code with a metamorphic equality oracle",
    "design_ref": "DESIGN.md §3 E1, §4 C23",
}

PRES = [["id"], ["sn"], ["relabel_all", "skew"], ["relabel_all", "gap"], ["relabel_all", "gapperm"]]


def _viol(clause, detail, base, pre, opt, t, toks, klass):
    vcase = dict(base)
    vcase.update({"pre": pre, "opts": [opt], "tf": [t]})
    return core.violation(clause, detail, case=vcase, tokens=["tool=" + t[0], "pre=" + pre[0], "opt=" + opt] + toks,
                          klass=klass)


def _explain(net0, t, n2=None, M=None, extra=None, opts=None, skip=()):
    """Tokens for known-finding signatures.  Input predicates say that the precondition of a recorded defect holds;
    "explained=" tokens come from predicates that RECOMPUTE what the defect does: the original is edited the way the
    toolbox function wrongly edits it, solved, and must then agree exactly with the transformed net."""
    toks = []
    if t[0] == "xward" and abs(float(net0.sn_mva) - 1.) > 1e-9:
        toks.append("sn_mva!=1")
    if t[0] in ("line2imp", "line2imp2line", "imp2line2imp"):
        if list(net0.line.index) != list(range(len(net0.line))):
            toks.append("line_index_not_0..n-1")
    if t[0] in ("cont_elem",) and len(net0.trafo3w) and (net0.switch.et == "t3").any():
        if list(net0.trafo3w.index) != list(range(t[1], t[1] + len(net0.trafo3w))):
            toks.append("t3_switch_and_trafo3w_index_changes")
    if t[0] == "subnet" and (net0.switch.et == "t3").any():
        toks.append("t3_switch_in_net")
    if t[0] == "merge" and len(net0.asymmetric_sgen):
        toks.append("asymmetric_sgen_rows")
    if n2 is None or M is None:
        return toks
    dc = bool(opts.get("dc"))

    def agrees(variant, MM):
        return na.run_pf(variant, opts) == "ok" and not b_tf.compare(variant, n2, MM, dc=dc, skip_cols=skip)
    try:
        if t[0] == "eg2gen":
            idx = list(net0.ext_grid.index) if t[1] == "all" else [t[1]]
            if any(abs(float(net0.ext_grid.at[i, "va_degree"])) > 0 for i in idx):
                v = copy.deepcopy(net0)
                v.ext_grid.loc[idx, "va_degree"] = 0.
                if agrees(v, M):
                    toks.append("explained=ext_grid_va_degree_dropped")
        if t[0] in ("line2imp", "line2imp2line"):
            idx = b_tool.line_targets(net0, t)
            sw = net0.switch.index[(net0.switch.et == "l") & net0.switch.element.isin(idx) & ~net0.switch.closed]
            if len(sw):
                v = copy.deepcopy(net0)
                v.switch.loc[sw, "closed"] = True       # what the replacement does: the open switch disappears
                if agrees(v, M):
                    toks.append("explained=open_line_switch_lost")
        if t[0] in ("line2imp", "line2imp2line") and "line_index_not_0..n-1" in toks:
            idx = b_tool.line_targets(net0, t)
            if t[0] == "line2imp":
                idx = [i for i in idx if i not in n2.line.index]       # the lines that really were replaced
            if idx and all(0 <= int(i) < len(net0.line) for i in idx):
                v = copy.deepcopy(net0)      # what the defect does: length/parallel of the row at POSITION label
                for i in idx:
                    v.line.at[i, "length_km"] = net0.line["length_km"].values[int(i)]
                    v.line.at[i, "parallel"] = net0.line["parallel"].values[int(i)]
                if agrees(v, M):
                    toks.append("explained=line_label_used_as_position")
        if t[0] == "fuse":
            b1, b2 = t[1], t[2]
            v = copy.deepcopy(net0)
            hit = False
            for tab, cols in b_tool.BRANCH_BUSCOLS.items():
                for i in v[tab].index:
                    if all(int(v[tab].at[i, c]) in (b1, b2) for c in cols) and bool(v[tab].at[i, "in_service"]):
                        v[tab].at[i, "in_service"] = False
                        hit = True
            if hit:
                MM = {"bus": M["bus"], "el": M["el"], "nopq": M.get("nopq", [])}
                if na.run_pf(v, opts) == "ok":
                    d = b_tf.compare(v, n2, MM, dc=dc, skip_cols=skip)
                    # the dropped inner branches and their switches have no image
                    d = [x for x in d if not ((x["table"] in b_tool.BRANCH_BUSCOLS or x["table"] == "switch")
                                              and x["b"] == "missing image")]
                    if not d:
                        toks.append("explained=inner_branch_shunt_dropped")
        if t[0] == "drop_inactive" and len(net0.trafo3w):
            v = copy.deepcopy(net0)
            hit = False
            for i in v.trafo3w.index:
                vm = [net0.res_bus.at[int(v.trafo3w.at[i, c]), "vm_pu"] for c in ("hv_bus", "mv_bus", "lv_bus")]
                if bool(v.trafo3w.at[i, "in_service"]) and any(np.isnan(x) for x in vm) and not all(np.isnan(x) for x in vm):
                    v.trafo3w.at[i, "in_service"] = False
                    hit = True
            if hit and na.run_pf(v, opts) == "ok":
                MM = b_tool._prune_dead(copy.deepcopy(extra["raw_map"]), v)
                if not b_tf.compare(v, n2, MM, dc=dc, skip_cols=skip):
                    toks.append("explained=partly_connected_trafo3w_set_out_of_service")
    except b_tool.HarnessError:
        raise
    except Exception as e:     # a predicate that cannot be evaluated explains nothing
        toks.append("predicate_error=" + type(e).__name__)
    return toks


SN_TOOLS = ("xward", "ward", "line2imp", "line2imp2line", "imp2line", "imp2line2imp", "merge", "merge_parallel")
PERM_TOOLS = ("cont_bus", "cont_elem", "line2imp", "line2imp2line", "imp2line", "imp2line2imp", "merge", "fuse", "subnet")


def _tools_for(T, pre, tier):
    """quick tier: a representation is paired only with the tools whose code can depend on it (per-unit base: the
    replace/merge functions that compute per-unit values; descending labels: everything that sorts or looks up by
    index); the as-built and the gapped representation get every tool.  thorough: everything everywhere."""
    if tier != "quick" or pre[0] == "id":
        return T
    if pre == ["relabel_all", "skew"]:
        return [t for t in T if t != ["cont_bus", 5]]
    keep = SN_TOOLS if pre[0] == "sn" else PERM_TOOLS
    return [t for t in T if t[0] in keep and not (pre[0] == "sn" and t == ["merge", "case_second"])]


def run_case(case):
    net_in = ba.build(case)
    b_tf.check_alphabet(net_in)
    pre = case.get("pre", ["id"])
    netP, _ = b_tf.apply_transform(net_in, pre)
    out = {"violations": [], "n": 0, "counts": {}, "sig": []}
    base = {"base": case["base"], "devs": case["devs"]}
    tier = case.get("tier", "quick")
    okany = False

    def cnt(k):
        out["counts"][k] = out["counts"].get(k, 0) + 1
    for opt in case["opts"]:
        opts = na.PF_OPTION_SETS[opt]
        dc = bool(opts.get("dc"))
        net0 = copy.deepcopy(netP)
        oc = na.run_pf(net0, opts)
        cnt("orig_" + oc)
        if oc != "ok":
            continue
        okany = True
        T = case["tf"] if case.get("tf") is not None else _tools_for(b_tool.enum_tools(net0, tier), pre, tier)
        for t in T:
            out["n"] += 1
            cnt("tool_" + t[0])
            clause = b_tool.clause_of(t)
            try:
                n2, M, note, extra = b_tool.apply_tool(net0, t, opts)
            except b_tool.HarnessError:
                raise
            except Exception as e:
                toks = _explain(net0, t) + ["raises=" + type(e).__name__]
                out["violations"].append(_viol(clause, {"what": "toolbox function raises on an applicable target",
                                                        "exception": "%s: %s" % (type(e).__name__, str(e)[:200]), "tool": t},
                                               base, pre, opt, t, toks, t[0] + "/raises"))
                continue
            if M is None:
                cnt("declined_" + t[0])
                continue
            skip = note[1]
            oc2 = na.run_pf(n2, opts)
            if oc2 != "ok":
                cnt("transformed_" + oc2)
                toks = _explain(net0, t) + ["outcome=" + oc2]
                out["violations"].append(_viol(clause, {"what": "original converges, transformed net does not",
                                                        "outcome": oc2, "tool": t}, base, pre, opt, t, toks,
                                               t[0] + "/outcome"))
                continue
            out["sig"].append(core.dhash([case["base"], case["devs"], pre, opt, t]))
            diffs = b_tf.compare(net0, n2, M, dc=dc, skip_cols=skip)
            if "second" in extra:
                comp, M2 = extra["second"]
                diffs += [dict(d, net="companion") for d in b_tf.compare(comp, n2, M2, dc=dc)]
                if not extra["first_keeps_index"]:
                    diffs.append({"table": "*", "index": -1, "col": "index", "a": "first net keeps its indices",
                                  "b": "changed"})
            if t[0] == "cont_bus" and not (extra["lookup_ok"] and extra["contiguous"]):
                diffs.append({"table": "bus", "index": -1, "col": "lookup", "a": "returned lookup/contiguity", "b": extra})
            if t[0] == "cont_elem":
                for tab in b_tf.RES_TABLES:
                    if len(n2[tab]) and sorted(n2[tab].index) != list(range(t[1], t[1] + len(n2[tab]))):
                        diffs.append({"table": tab, "index": -1, "col": "index", "a": "contiguous from %d" % t[1],
                                      "b": [int(i) for i in n2[tab].index][:8]})
            if t[0] == "fuse" and not dc:
                b1, b2 = t[1], t[2]
                for col in ("p_mw", "q_mvar"):
                    a = float(np.nansum([net0.res_bus.at[b1, col], net0.res_bus.at[b2, col]]))
                    b = float(n2.res_bus.at[b1, col]) if b1 in n2.res_bus.index else float("nan")
                    if not abs(a - b) <= 1e-5 + 1e-7 * abs(a):
                        diffs.append({"table": "bus", "index": b1, "col": col + "_sum", "a": a, "b": b})
            if diffs:
                d0 = diffs[0]
                toks = _explain(net0, t, n2, M, extra, opts, skip) + ["table=" + str(d0["table"]), "col=" + str(d0["col"])]
                out["violations"].append(_viol(clause, {"tool": t, "n_diffs": len(diffs), "first": diffs[:4]},
                                               base, pre, opt, t, toks, "%s/%s" % (t[0], d0["table"])))
    out["outcome"] = "ok" if okany else "orig_not_converged"
    return out


def c23_menu(b):
    m = list(ba.menu(b))
    hot = na.HOT[b]
    s = 20. if b == "M4" else 1.
    extra = [["gen", hot[0], 0.6 * s, 1.01, "wide", False, False], ["sgen", hot[0], 0.5 * s, 0.1 * s, 1., False],
             ["ward", hot[0], False], ["shunt", hot[0], 0.1 * s, -0.5 * s, 1, 1.0, False]]
    if b == "W3":
        extra += [["impedance", 1, 3, False], ["impedance", 1, 3, True]]
    if b == "I2":
        extra += [["impedance", 1, 3, False], ["set", "line", 2, "c_nf_per_km", 0.]]       # line 2 has an open switch
    # a capacitance-free line (accepted by replace_line_by_impedance) that also has an open line switch
    # ... or that is a parallel line (parallel=n must enter the impedance)
    if b == "R3":
        extra += [["multi", [["set", "line", 1, "c_nf_per_km", 0.], ["set", "switch", 1, "closed", False]]],
                  ["multi", [["set", "line", 0, "c_nf_per_km", 0.], ["set", "line", 0, "parallel", 3]]]]
    if b == "M4":
        extra += [["multi", [["set", "line", 1, "c_nf_per_km", 0.], ["set", "switch", 0, "closed", False]]],
                  ["multi", [["set", "line", 4, "c_nf_per_km", 0.], ["set", "line", 4, "parallel", 2]]]]
    if b == "T3":
        extra += [["multi", [["set", "line", 0, "c_nf_per_km", 0.], ["switch", 2, 0, "l", False, 0.]]]]
    # lines at TWO voltage levels, one replaceable and one that only_valid_replace declines (either way round)
    if b in ("T3", "W3"):
        extra += [["multi", [["set", "line", 0, "c_nf_per_km", 0.], ["bus", 0, True]]],
                  ["multi", [["bus", 0, True], ["set", "line", 1, "c_nf_per_km", 0.]]]]
    # trafo AND trafo3w in one net, two trafos so that a trafo3w label can equal the label of the SECOND trafo
    # (representation "skew"), an open switch at either trafo
    if b == "W3":
        # (the second trafo differs in its tap so that a switch landing on the wrong trafo moves voltages; the last net
        # also opens the trafo3w's own switch: whichever table create_continuous_elements_index happens to re-index
        # first - it iterates over a set - one of the two open switches is the one that can be mis-linked)
        t2 = ["trafo", 0, 1, {"tap_pos": 2}]
        extra += [["multi", [["trafo", 0, 1], t2, ["switch", 0, 1, "t", False, 0.]]],
                  ["multi", [["trafo", 0, 1], t2, ["switch", 1, 0, "t", False, 0.]]],
                  ["multi", [["trafo", 0, 1], t2, ["switch", 0, 1, "t", False, 0.], ["set", "switch", 0, "closed", False]]]]
    for d in extra:
        if d not in m:
            m.append(d)
    return m


def gen_cases(tier):
    cases = []
    k = 1 if tier == "quick" else 2
    for b in ba.BASES:
        for devs in na.subsets(c23_menu(b), k):
            for pre in PRES:
                if tier == "quick" and pre in (["relabel_all", "gapperm"], ["relabel_all", "gap"]):
                    continue
                if len(devs) == 2 and pre not in (["id"], ["relabel_all", "skew"]):
                    continue
                cases.append({"base": b, "devs": [list(d) for d in devs], "pre": pre,
                              "opts": ["ac"] if (tier == "quick" or len(devs) == 2) else ["ac", "dc"], "tier": tier})
    return cases


def explore(tier, seed):
    rep = core.Report(PROPERTY, LEVEL, tier, seed)
    core.warm(pf=True, dc=True)
    cases = gen_cases(tier)
    rep.rule = ("E1: every network = base in %s + every subset of <=%d compatible deviations of the C23 menu, in each of the "
                "representations %s, paired with EVERY applicable (toolbox transformation, target) enumerated by "
                "mc.b_tool.enum_tools; a pair is distinct+non-trivial when the function accepted the target and both power "
                "flows converged, keyed by hash(base, deviations, representation, option set, tool descriptor)"
                % (ba.BASES, 1 if tier == "quick" else 2, PRES))
    rep.extra["bound_k"] = 1 if tier == "quick" else 2
    rep.extra["networks_x_representations"] = len(cases)
    core.run_cases(rep, run_case, cases)
    rep.assumptions = ["complex bus voltages equal to 1e-7 p.u., powers to 1e-5 MVA + 1e-7 rel, currents 1e-6 kA + 1e-6 rel",
                       "only corresponding buses/elements are compared (mapping from return values / tag columns)",
                       "islands for select_subnet: components over in-service branches and closed bus-bus switches",
                       "targets declined by only_valid_replace are counted, not judged; ZIP loads excluded"]
    return rep


def replay(case):
    return run_case(case)["violations"]

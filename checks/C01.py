"""C01 Kirchhoff power balance at every bus — E1 deviation-bounded enumeration, bookkeeping oracle."""
import copy

import numpy as np

from mc import core, netalpha as na, balance

PROPERTY = "C01"
LEVEL = "exploration"
TOL = 1e-5
META = {
    "text": "Every network reachable from 5 base nets by <=2 (thorough <=3) deviations from a menu that piles every bus-element kind onto shared/fused buses, under 6 power-flow option sets, is solved by the real runpp/rundcpp and the reported element powers are summed per electrical node against the reported branch terminal powers; exhaustive within that bound, no sampling.",
    "note": "Trusted: the bookkeeping in mc/balance.py (sign conventions per result table). Values outside the finite alphabets and networks beyond 5 buses are not covered. Three recorded defect families are matched by exact predicted-mismatch predicates (known_findings.json).",
    "technique": "bounded exhaustive input enumeration (deviation-bounded, k<=2/3) on the real power flow with a nodal-balance invariant",
    "design_ref": "DESIGN.md §3 E1, §4 C01",
}

OPTSETS = ["ac", "ac_novdl", "ac_nonumba", "ac_qlim", "ac_pi", "dc"]
BASES = ["R3", "M4", "T3", "W3", "I2"]


def _zip_kinds(net, buses):
    """is there an in-service voltage dependent load (nonzero z/i share) at these buses?"""
    ld = net.load
    if not len(ld):
        return False
    cols = [c for c in ("const_z_p_percent", "const_i_p_percent", "const_z_q_percent", "const_i_q_percent") if c in ld]
    m = ld["bus"].isin(buses) & ld["in_service"] & (ld[cols].abs().sum(axis=1) > 0)
    return bool(m.any())


def _explain_zip(net, buses, mis, v):
    """Is the mismatch exactly what the recorded defect family C01-zip produces?  The solver applies ONE
    (cp, ci, cz) triple per ppc bus - the unweighted mean over the loads of one pandapower bus - to the whole
    constant-power demand PD of the node, and pfsoln back-computes gen/ext_grid P,Q with the unscaled PD.
    Candidates are computed from the element tables and the reported voltage only."""
    def tot(tab, pc, qc, sign=1, scal=True):
        t = net[tab]
        if not len(t):
            return 0j
        m = t["bus"].isin(buses) & t["in_service"]
        sc = t["scaling"].values if (scal and "scaling" in t) else 1.
        return sign * complex(float((t[pc].values * sc * m.values).sum()), float((t[qc].values * sc * m.values).sum()))
    raw = tot("load", "p_mw", "q_mvar") + tot("sgen", "p_mw", "q_mvar", -1) + tot("storage", "p_mw", "q_mvar") + \
        tot("ward", "ps_mw", "qs_mvar", scal=False) + tot("xward", "ps_mw", "qs_mvar", scal=False)
    rep_loads = 0j
    for tab, sign in (("motor", 1), ("asymmetric_load", 1), ("asymmetric_sgen", -1)):
        if len(net[tab]):
            m = net[tab]["bus"].isin(buses)
            r = net["res_" + tab][m.values]
            raw += sign * complex(float(r.p_mw.sum()), float(r.q_mvar.sum()))
    m = net.load["bus"].isin(buses)
    rl = net.res_load[m.values]
    rep = raw - tot("load", "p_mw", "q_mvar") + complex(float(rl.p_mw.sum()), float(rl.q_mvar.sum()))
    cand_p, cand_q = {rep.real - raw.real}, {rep.imag - raw.imag}
    raws = [raw]
    # enforce_q_lims: a generator (or dc line terminal) at its q-limit is moved into the bus demand, which
    # is then scaled by the ZIP triple as a whole
    gS = 0j
    if len(net.gen):
        m = (net.gen.bus.isin(buses) & net.gen.in_service & ~net.gen.slack).values
        gS += complex(float(net.res_gen.p_mw.values[m].sum()), float(net.res_gen.q_mvar.values[m].sum()))
    if len(net.dcline):
        for side in ("from", "to"):
            m = (net.dcline[side + "_bus"].isin(buses) & net.dcline.in_service).values
            gS -= complex(float(net.res_dcline["p_%s_mw" % side].values[m].sum()),
                          float(net.res_dcline["q_%s_mvar" % side].values[m].sum()))
    if gS:
        raws.append(raw - gS)
    ld = net.load[net.load.in_service & net.load.bus.isin(buses)]
    for b in sorted(set(ld.bus)):
        g = ld[ld.bus == b]
        czp, cip = g.const_z_p_percent.mean() / 100., g.const_i_p_percent.mean() / 100.
        czq, ciq = g.const_z_q_percent.mean() / 100., g.const_i_q_percent.mean() / 100.
        for rw in raws:
            cand_p.add(rep.real - raw.real + rw.real - rw.real * (1 - czp - cip + cip * v + czp * v * v))
            cand_q.add(rep.imag - raw.imag + rw.imag - rw.imag * (1 - czq - ciq + ciq * v + czq * v * v))
    okp = any(abs(mis.real - c) < 1e-6 + 1e-7 * abs(c) for c in cand_p)
    okq = any(abs(mis.imag - c) < 1e-6 + 1e-7 * abs(c) for c in cand_q)
    return okp and okq


def _explain_dc_shunt(net, buses, mis, v):
    """recorded defect C01-dc-shunt: in a DC power flow shunt / ward / xward impedance parts at a bus with a
    voltage set-point are reported with v_set^2 while the DC equations use 1.0 p.u."""
    zrep = 0.
    if len(net.shunt):
        m = net.shunt.bus.isin(buses).values
        zrep += float(np.nansum(net.res_shunt.p_mw.values[m]))
    for tab in ("ward", "xward"):
        if len(net[tab]):
            m = (net[tab].bus.isin(buses) & net[tab].in_service).values
            zrep += float(np.nansum((net["res_" + tab].p_mw.values - net[tab].ps_mw.values)[m]))
    pred = zrep * (1. - 1. / (v * v)) if v else 0.
    return abs(v - 1.) > 1e-9 and abs(mis.real - pred) < 1e-6 + 1e-7 * abs(pred)


def judge(net, optname, opts):
    """all C01 clauses on a converged net; returns list of violation dicts (without case)"""
    dc = bool(opts.get("dc"))
    vs = []
    acc, perbus, nan_issues = balance.nodal_sums(net, dc=dc)
    vm = net.res_bus["vm_pu"]
    vdl = (not dc) and opts.get("voltage_depend_loads", True)
    for tab, idx, what in nan_issues:
        vs.append(core.violation("nan_result", {"table": tab, "index": idx, "what": what, "opt": optname},
                                 tokens=["opt=" + optname, "tab=" + tab]))
    for n, a in sorted(acc.items()):
        buses = sorted(a["buses"])
        if not any(np.isfinite(vm.get(b, np.nan)) and net.bus.at[b, "in_service"] for b in buses):
            continue
        mis = a["elem"] + a["branch"]
        scale = max(1., abs(a["elem"]), abs(a["branch"]))
        if abs(mis.real) > TOL + 1e-7 * scale or ((not dc) and abs(mis.imag) > TOL + 1e-7 * scale):
            toks = ["opt=" + optname] + ["kind=" + k for k in sorted(a["kinds"])]
            if _zip_kinds(net, buses):
                toks.append("zipload_at_node")
            toks.append("vdl_on" if vdl else "vdl_off")
            if dc:
                toks.append("dc")
            npq = sum(int(((net[t]["bus"].isin(buses)) & net[t]["in_service"]).sum()) for t in
                      ("load", "sgen", "storage", "motor", "ward", "xward", "asymmetric_load", "asymmetric_sgen")
                      if len(net[t]))
            toks.append("n_pq_at_node=%d" % npq if npq < 2 else "n_pq_at_node>=2")
            vnode = [float(vm[b]) for b in buses if np.isfinite(vm.get(b, np.nan))][0]
            if vdl and "zipload_at_node" in toks and _explain_zip(net, buses, mis, vnode):
                toks.append("explained=zip_bus_aggregation")
            if dc and _explain_dc_shunt(net, buses, mis, vnode):
                toks.append("explained=dc_shunt_at_vset")
            vs.append(core.violation("nodal_balance", {
                "node_buses": buses, "elements_consumption": [a["elem"].real, a["elem"].imag],
                "branch_outflow": [a["branch"].real, a["branch"].imag], "mismatch": [mis.real, mis.imag],
                "kinds": sorted(a["kinds"]), "opt": optname}, tokens=toks, klass="/".join(sorted(a["kinds"]))))
    # res_bus p/q equals net consumption of elements at the bus
    for b, s in perbus.items():
        if not net.bus.at[b, "in_service"] or not np.isfinite(vm.get(b, np.nan)):
            continue
        rp, rq = net.res_bus.at[b, "p_mw"], net.res_bus.at[b, "q_mvar"]
        bad = abs(rp - s.real) > TOL + 1e-7 * abs(s.real)
        if not dc:
            bad = bad or abs(rq - s.imag) > TOL + 1e-7 * abs(s.imag)
        if bad or not np.isfinite(rp):
            kinds = sorted(t for t, (sg, cols) in balance.BUS_ELEMENTS.items() if t in net and len(net[t]) and any(
                (net[t][bc] == b).any() for bc, _, _ in cols))
            toks = ["opt=" + optname] + ["kind=" + k for k in kinds]
            if _zip_kinds(net, [b]):
                toks.append("zipload_at_node")
            toks.append("vdl_on" if vdl else "vdl_off")
            if dc:
                toks.append("dc")
            if len(net.dcline):
                dcs = 0j
                for side in ("from", "to"):
                    m = (net.dcline[side + "_bus"] == b).values
                    dcs += complex(float(np.nansum(net.res_dcline["p_%s_mw" % side].values[m])),
                                   0. if dc else float(np.nansum(net.res_dcline["q_%s_mvar" % side].values[m])))
                if abs(dcs) > 0 and abs(rp + dcs.real - s.real) < TOL and (dc or abs(rq + dcs.imag - s.imag) < TOL):
                    toks.append("explained=dcline_terminal_omitted")
            vs.append(core.violation("res_bus_pq", {"bus": b, "res_bus": [rp, rq], "elements": [s.real, s.imag],
                                                    "kinds": kinds, "opt": optname}, tokens=toks, klass="/".join(kinds)))
    return vs


def run_case(case):
    net0 = na.build(case)
    out = {"violations": [], "n": 0, "counts": {}}
    sigs = []
    ok = 0
    for on in case["optsets"]:
        opts = na.PF_OPTION_SETS[on]
        net = copy.deepcopy(net0)
        oc = na.run_pf(net, opts)
        out["n"] += 1
        out["counts"]["outcome_" + oc] = out["counts"].get("outcome_" + oc, 0) + 1
        if oc != "ok":
            continue
        ok += 1
        for v in judge(net, on, opts):
            out["violations"].append(v)
        # signature of what was exercised: kinds per fused node + option set
        nodes = balance.fused_nodes(net)
        nfused = len(set(nodes.values())) < len(nodes)
        n_nan = int(net.res_bus.vm_pu.isna().sum())
        sigs.append("%s|%s|%s|fused=%d|dead=%d" % (case["base"], on, core.dhash(case["devs"]), nfused, n_nan))
    out["outcome"] = "ok" if ok else "none_converged"
    out["sig"] = sigs
    return out


def gen_cases(tier):
    cases = []
    for b in BASES:
        menu = na.bus_element_menu(b) + na.structure_menu(b)
        k = 2
        for devs in na.subsets(menu, k):
            cases.append({"base": b, "devs": [list(d) for d in devs], "optsets": OPTSETS})
        if tier == "thorough" and b in ("R3", "T3"):
            m3 = na.bus_element_menu(b, rich=False)
            for devs in na.subsets(m3, 3):
                if len(devs) == 3:
                    cases.append({"base": b, "devs": [list(d) for d in devs], "optsets": ["ac", "ac_qlim", "dc"]})
    return cases


def explore(tier, seed):
    rep = core.Report(PROPERTY, LEVEL, tier, seed)
    core.warm(pf=True, dc=True)
    cases = gen_cases(tier)
    rep.rule = ("E1: every subset of <=2 (thorough: <=3 bus-element) pairwise-compatible deviations from the bus-element + "
                "structure menus of bases %s, each under option sets %s; a case is non-trivial/distinct when the power flow "
                "converged, keyed by (base, option set, deviation-set hash)" % (BASES, OPTSETS))
    rep.extra["bound_k"] = 2 if tier == "quick" else 3
    rep.extra["deviation_sets"] = len(cases)
    core.run_cases(rep, run_case, cases)
    rep.assumptions = ["tolerance 1e-5 MVA abs + 1e-7 rel; only converged power flows are judged",
                       "node = buses fused by closed z=0 bus-bus switches",
                       "values outside the finite deviation alphabets are not covered"]
    return rep


def replay(case):
    out = run_case(case)
    return out["violations"]

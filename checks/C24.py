"""C24 batch create == sequence of single creates — E1 over every single/batch pair x argument vectors x pre-states."""
import itertools

import numpy as np

from mc import core
from mc import i_create as ic

PROPERTY = "C24"
LEVEL = "exploration"
META = {
    "text": "For each of the 22 single/batch create pairs the real batch function and the real single function (called once per element) are run on copies of the same pre-state (empty net with buses / existing elements at non-contiguous indices / existing optional columns and costs) for every argument vector of length 1-3 built from the base arguments plus <=1 (thorough <=2) deviations from a per-pair menu (scalar broadcast vs per-element list vs array, NaN inside lists, optional columns, composite optional groups, custom kwargs, explicit/None/permuted index), for every built-in and several generated standard types, and for the invalid inputs non-existent bus (first/last position of every node argument), duplicate index (existing / within the batch) and duplicate cost; the created rows are compared column by column (null-aware, dtype-insensitive) and acceptance/rejection must agree. Exhaustive within these menus, no sampling.",
    "note": "Trusted: the argument renaming plural->singular and the cosmetic column set (name, geo; bus zone/type). List forms are only used where the batch signature documents an iterable. A column that is missing counts as null; '' counts as null. Custom kwargs columns are exercised but not judged. Values outside the menus, vectors longer than 3 and geodata are not covered.",
    "technique": "bounded exhaustive differential enumeration (deviation-bounded argument vectors, k<=1/2) of batch vs single create on the real tables",
    "design_ref": "DESIGN.md §3 E1, §4 C24",
}

FRESH = [10, 11, 12]
PERM = [12, 10, 11]


_EX = {}


def _existing(pre, table):
    if (pre, table) not in _EX:
        _EX[(pre, table)] = sorted(int(i) for i in ic.prestate(pre)[table].index)
    return _EX[(pre, table)]


def _index_variants(pre, table, n, which):
    ex = _existing(pre, table)
    out = {}
    if "none" in which:
        out["none"] = None
    if "fresh" in which:
        out["fresh"] = FRESH[:n]
    if "perm" in which and n > 1:
        out["perm"] = PERM[:n] if n == 3 else [11, 10]
    if "gap" in which:
        out["gap"] = [i for i in range(0, 40) if i not in ex][:n]
    if ex:
        if "dup_first" in which:
            out["dup_first"] = ([ex[-1]] + FRESH)[:n]
        if "dup_last" in which and n > 1:
            out["dup_last"] = FRESH[:n - 1] + [ex[-1]]
    if "dup_within" in which and n > 1:
        out["dup_within"] = [10] * 2 + FRESH[2:n]
    return out


def _mk(pair, pre, n, kind, args, index, devs, vname, **kw):
    c = {"pair": pair, "pre": pre, "n": n, "kind": kind, "vec": vname, "args": args, "index": index,
         "devs": [d["name"] for d in devs]}
    c.update(kw)
    return c


def gen_cases(tier):
    thorough = tier == "thorough"
    cases = []
    for pair, spec in ic.PAIRS.items():
        table = spec["table"]
        opts = [d for d in spec["opt"] if ic.dev_ok(pair, d)]
        pres = ["plain", "rich"] if spec.get("needs_elements") else ["empty", "plain", "rich"]
        vecs = list(spec["vec"].items())
        for pre in pres:
            for vi, (vname, vec) in enumerate(vecs):
                base = dict(vec)
                base.update(spec["base"])
                for n in (1, 2, 3):
                    # ---- valid inputs: base + <=k deviations
                    which = ["none", "fresh", "perm", "gap"] if thorough else (["none", "fresh", "perm"] if n > 1 else ["none"])
                    devsets = [()] + [(d,) for d in opts]
                    if thorough and n == 2 and pre != "empty" and vi == 0:
                        devsets += [c for c in itertools.combinations(opts, 2) if ic.compatible(c)]
                    for devs in devsets:
                        args = ic.apply_devs(pair, base, devs, n)
                        ivs = _index_variants(pre, table, n, which if len(devs) < 2 else ["none"])
                        for iname, idx in ivs.items():
                            cases.append(_mk(pair, pre, n, "valid", args, idx, devs, vname, idx_kind=iname))
                        if thorough and len(devs) < 2:
                            # numpy array form of every per-element list
                            a2 = {k: (["a", v[1]] if v[0] == "l" and k != "points" else v) for k, v in args.items()}
                            if a2 != args:
                                cases.append(_mk(pair, pre, n, "valid", a2, None, devs, vname, idx_kind="none", form="array"))
                    # ---- invalid: non-existent bus at first / last position of every node argument
                    node_args = list(spec["node_args"]) + (["elements"] if pair == "switch" and vname.startswith("bb") else [])
                    if pre != "empty" or not spec.get("needs_elements"):
                        for na in node_args:
                            for pos in sorted({0, n - 1}):
                                for devs in ([()] + ([(d,) for d in opts[:6]] if thorough else [])):
                                    args = ic.apply_devs(pair, base, devs, n)
                                    v = list(args[na][1])
                                    v[pos] = ic.MISSING_BUS
                                    args[na] = ["l", v]
                                    cases.append(_mk(pair, pre, n, "missing_bus", args, None, devs, vname, where=[na, pos]))
                    # ---- invalid: duplicate index
                    for iname, idx in _index_variants(pre, table, n, ["dup_first", "dup_last", "dup_within"]).items():
                        args = ic.apply_devs(pair, base, (), n)
                        cases.append(_mk(pair, pre, n, "dup_index", args, idx, (), vname, idx_kind=iname))
                    # ---- invalid: duplicate cost (existing in pre "rich", or inside the batch)
                    if spec.get("cost"):
                        for ename, els, ets in (("exist_first", [0, 2, 1], "gen"), ("exist_last", [2, 1, 0], "gen"),
                                                ("within", [2, 2, 1], "gen"), ("within_l", [2, 2, 1], ["gen", "gen", "gen"]),
                                                ("exist_l", [2, 0, 1], ["gen", "gen", "gen"]),
                                                ("other_et", [0, 1, 2], "load"), ("other_et_l", [0, 1, 0], ["sgen", "load", "load"])):
                            if vi:
                                continue
                            for devs in [()] + [(d,) for d in opts if d["name"] in ("q", "pq_l", "cp0")]:
                                for check in (None, False):
                                    args = ic.apply_devs(pair, base, devs, n)
                                    args["elements"] = ["l", els[:n]]
                                    args["et"] = ["s", ets] if isinstance(ets, str) else ["l", ets[:n]]
                                    cases.append(_mk(pair, pre, n, "dup_cost", args, None, devs, ename, check=check))
        # ---- every standard type (built-in: exhaustive; generated) through the std-type pairs
        if "std" in spec:
            element, arg = spec["std"]
            vname, vec = vecs[0]
            for tname in ic.builtin_types(element):
                d0 = ic.D("std=" + tname, **{arg: ic.S(tname)})
                extra = [()]
                if pair in ("trafo", "trafo3w"):
                    extra += [(d,) for d in opts if d["name"] in ("tap_pos", "tap_pos_l", "tct", "tap2_pos")]
                if pair in ("line", "line_dc"):
                    extra += [(d,) for d in opts if d["name"] in ("alpha_temp", "maxload")]
                for pre in (["empty", "rich"] if not thorough else ["empty", "plain", "rich"]):
                    for n in ((2,) if not thorough else (1, 2, 3)):
                        for ex in extra:
                            base = dict(vec)
                            base.update(spec["base"])
                            args = ic.apply_devs(pair, base, (d0,) + ex, n)
                            cases.append(_mk(pair, pre, n, "valid", args, None, (d0,) + ex, vname, idx_kind="none", std=tname))
    # dedupe (the same descriptor can be produced by several loops)
    seen, out = set(), []
    for c in cases:
        h = core.dhash(c)
        if h not in seen:
            seen.add(h)
            out.append(c)
    return out


# --------------------------------------------------------------------------------------------------
def _outcome(fn, net, case):
    try:
        return "ok", fn(net, case)
    except Exception as e:      # rejection (loosely: "raised")
        return "raised:" + type(e).__name__, str(e)[:160]


def run_case(case):
    spec = ic.PAIRS[case["pair"]]
    table = spec["table"]
    tabs = {table, "poly_cost", "pwl_cost"}
    na, nb = ic.prestate(case["pre"], tabs), ic.prestate(case["pre"], tabs)
    oa, ra = _outcome(ic.run_batch, na, case)
    ob, rb = _outcome(ic.run_singles, nb, case)
    for net in (na, nb):
        bad = ic.shared_untouched(case["pre"], net, tabs)
        if bad is not None:
            raise RuntimeError("harness: create function touched shared table %s" % bad)
    out = {"violations": [], "n": 1, "counts": {}, "sig": None}
    base_tok = ["pair=" + case["pair"], "pre=" + case["pre"], "kind=" + case["kind"], "n=%d" % case["n"],
                "vec=" + case["vec"]] + ["dev=" + d.split("=")[0] for d in case["devs"]]
    if case.get("idx_kind"):
        base_tok.append("idx=" + case["idx_kind"])
    acc_a, acc_b = oa == "ok", ob == "ok"
    out["outcome"] = ("accept" if acc_a else "reject") + "/" + ("accept" if acc_b else "reject")
    out["counts"]["kind_" + case["kind"]] = 1
    if acc_a != acc_b:
        toks = base_tok + ["batch=" + oa, "single=" + ob]
        toks += _explain_reject(case, acc_a, oa, ob, ra, rb, na)
        out["violations"].append(core.violation(
            "reject_equivalence", {"batch": [oa, ra if not acc_a else None], "singles": [ob, rb if not acc_b else None]},
            tokens=toks, klass=case["pair"] + ":" + ("batch_accepts" if acc_a else "batch_rejects")))
        out["sig"] = "X|" + core.dhash(case)
        return out
    out["sig"] = core.dhash(case)
    if not acc_a:
        return out
    ta, tb = na[table], nb[table]
    if not ta.index.is_unique:
        out["violations"].append(core.violation(
            "reject_equivalence", {"what": "batch call accepted and left a duplicated index in net.%s" % table,
                                   "batch_index": [int(i) for i in ra], "single_index": [int(i) for i in rb]},
            tokens=base_tok + ["dup_index_created"] + _explain_reject(case, True, oa, ob, ra, rb, na),
            klass=case["pair"] + ":dup_index_created"))
        return out
    if [int(i) for i in ra] != [int(i) for i in rb]:
        out["counts"]["index_choice_differs"] = 1
    diffs, custom = ic.compare_rows(table, ta, ra, tb, rb)
    if custom:
        out["counts"]["custom_column_differs_not_judged"] = 1
    bycol = {}
    for pos, c, va, vb in diffs:
        bycol.setdefault(c, []).append((pos, va, vb))
    for c, lst in sorted(bycol.items()):
        kinds = sorted({("batch_null" if va is None else "single_null" if vb is None else "values") for _, va, vb in lst})
        toks = base_tok + ["col=" + c] + ["diff=" + k for k in kinds] + _explain_rows(case, table, c, lst, na, nb, ra, rb)
        out["violations"].append(core.violation(
            "rows_equal", {"table": table, "column": c, "rows(pos,batch,single)": lst[:3]}, tokens=toks,
            klass="%s:%s:%s" % (case["pair"], c, "/".join(kinds))))
    return out


ZERO_SEQ_IMP = ("rft0_pu", "xft0_pu", "rtf0_pu", "xtf0_pu", "gf0_pu", "bf0_pu", "gt0_pu", "bt0_pu")
WRONG_TABLE = {"ward": "storage", "line_dc_par": "line"}


def _explain_reject(case, acc_a, oa, ob, ra, rb, net_batch):
    """predicates that recompute exactly what a recorded defect does (tokens 'explained=...')"""
    out = []
    pair, args = case["pair"], case["args"]
    pre = ic._PRE[case["pre"]]
    if pair == "impedance" and oa == "raised:InvalidIndexError" and any(a in args for a in ZERO_SEQ_IMP):
        out.append("explained=impedances_zero_seq_set_with_at")
    if pair in WRONG_TABLE and acc_a:
        wrong, table = pre[WRONG_TABLE[pair]], pre[ic.PAIRS[pair]["table"]]
        if case["index"] is None:
            start = int(wrong.index.max()) + 1 if len(wrong) else 0
            if [int(i) for i in ra] == list(range(start, start + case["n"])):
                out.append("explained=index_checked_in_wrong_table")
        elif not any(i in wrong.index for i in case["index"]) and len(set(case["index"])) == len(case["index"]) and \
                any(i in table.index for i in case["index"]):
            out.append("explained=index_checked_in_wrong_table")
    if pair in WRONG_TABLE and (not acc_a) and case["index"] is not None and len(set(case["index"])) == len(case["index"]):
        wrong, table = pre[WRONG_TABLE[pair]], pre[ic.PAIRS[pair]["table"]]
        if any(i in wrong.index for i in case["index"]) and not any(i in table.index for i in case["index"]) and \
                (WRONG_TABLE[pair].capitalize() + "s with indexes") in str(ra):
            out.append("explained=index_checked_in_wrong_table")
    if pair == "switch" and (not acc_a) and args["et"][0] == "a" and "truth value of an array" in str(ra):
        out.append("explained=switches_et_array_truth_value")
    if pair in ("poly_cost", "pwl_cost"):
        if acc_a and case.get("check") is not False:
            from pandapower.create._utils import _costs_existance_check
            kw = {}
            if pair == "pwl_cost":
                kw["power_type"] = ic.batch_value(args["power_type"]) if "power_type" in args else "p"
            try:
                r = _costs_existance_check(pre, ic.batch_value(args["elements"]), ic.batch_value(args["et"]), **kw)
                if not (int(r) >= 1):
                    out.append("explained=costs_existance_check_returns_0")
            except Exception:
                pass
        if (not acc_a) and oa == "raised:ValueError" and args.get("power_type", ["s"])[0] != "s" and \
                ("special directives" in str(ra) or "Shape of passed values" in str(ra)):
            out.append("explained=costs_existance_check_power_type_list")
    if pair == "switch" and (not acc_a) and "is not implemented" in str(ra) and \
            (args["et"] == ["s", "t3"] or (args["et"][0] != "s" and set(args["et"][1]) == {"t3"})):
        out.append("explained=switches_scalar_t3_not_implemented")
    if pair == "shunt" and (not acc_a) and "vn_kv" not in args and "duplicate labels" in str(ra):
        buses = [ic.single_value(args["buses"], i) for i in range(case["n"])]
        if len(set(buses)) < len(buses):        # the bus-labelled vn_kv Series is aligned by label with the new index
            out.append("explained=shunts_vn_kv_label_aligned")
    if (not acc_a) and oa == "raised:TypeError" and "isnan" in str(ra):
        if any(f[0] != "s" and any(isinstance(x, str) and x != ic.NAN or x is None for x in f[1]) for f in args.values()):
            out.append("explained=not_nan_on_list_with_str_or_none")
    return out


TRAFO_STD_COLS = {"shift_degree"} | {"tap%s_%s" % (s, t) for s in ("", "2") for t in (
    "neutral", "max", "min", "side", "step_percent", "step_degree", "changer_type", "pos")}
LINE_STD_COLS = {"alpha", "r0_ohm_per_km", "x0_ohm_per_km", "c0_nf_per_km"}


def _explain_rows(case, table, col, lst, net_batch, net_single, ra, rb):
    out = []
    pair, args = case["pair"], case["args"]

    def allrows(pred):
        try:
            return all(pred(pos, va, vb) for pos, va, vb in lst)
        except Exception:
            return False

    def stdtype(pos):
        return net_single.std_types[table][net_single[table].at[rb[pos], "std_type"]]

    if pair == "trafo" and col in TRAFO_STD_COLS:
        def pred(pos, va, vb):
            t = stdtype(pos)
            if col in t:
                exp = ic.norm(t[col])
            elif col in ("tap_pos", "tap2_pos") and (col not in args or ic.norm(ic.single_value(args[col], pos)) is None):
                exp = ic.norm(t.get(col.replace("pos", "neutral")))
            else:
                return False
            return vb == exp and (va in (None, "nan") or (col == "shift_degree" and va == 0.0))
        if allrows(pred):
            out.append("explained=transformers_std_param_not_copied")
    if pair.startswith("trafo") and col in ("tap2_side", "vector_group", "tap_changer_type") and \
            allrows(lambda pos, va, vb: va in ("nan", "None") and (col not in args or ic.norm(ic.single_value(args[col], pos)) is None)):
        out.append("explained=nan_string_from_astype_str")
    if pair == "sgen" and col == "generator_type" and col not in args and \
            allrows(lambda pos, va, vb: va == "current_source" and vb is None):
        out.append("explained=sgens_default_generator_type_column")
    if pair in ("bus", "bus_dc", "gen") and col in ("min_vm_pu", "max_vm_pu") and \
            allrows(lambda pos, va, vb: va is None and vb == (0.0 if col == "min_vm_pu" else 2.0)):
        out.append("explained=vm_limit_default_not_filled")
    if pair in ("line", "line_dc") and col in LINE_STD_COLS and col not in args and \
            allrows(lambda pos, va, vb: va is None and col in stdtype(pos) and vb == ic.norm(stdtype(pos)[col])):
        out.append("explained=lines_std_param_not_copied")
    if pair == "line_par" and col == "g0_us_per_km" and col not in args and \
            allrows(lambda pos, va, vb: va is None and vb == 0.0):
        out.append("explained=lines_g0_default")
    if pair == "shunt" and col == "vn_kv" and col not in args and \
            allrows(lambda pos, va, vb: va == ic.BUS_VN.get(int(ra[pos])) and vb == ic.BUS_VN.get(ic.single_value(args["buses"], pos))):
        out.append("explained=shunts_vn_kv_label_aligned")
    if pair == "trafo_par" and col == "tap2_pos" and col not in args and "tap2_neutral" in args and \
            allrows(lambda pos, va, vb: va is None and vb == ic.norm(ic.single_value(args["tap2_neutral"], pos))):
        out.append("explained=tap2_pos_default_neutral")
    return out


def explore(tier, seed):
    rep = core.Report(PROPERTY, LEVEL, tier, seed)
    core.quiet()
    for p in ("empty", "plain", "rich"):
        ic.prestate(p)
    ic.freeze_shapes()
    cases = gen_cases(tier)
    rep.rule = ("E1: for each of %d single/batch pairs x pre-state {empty, plain, rich} x bus/element vector variant x n in 1..3: "
                "base arguments + every subset of <=%d compatible deviations of the pair's menu x index {None, fresh, permuted, gap}; "
                "every built-in + generated std type through the std-type pairs; invalid inputs (missing bus first/last, duplicate "
                "index existing/within, duplicate cost existing/within). A case is distinct+non-trivial when batch and singles "
                "were both executed and agreed on acceptance (rows compared) or both rejected; keyed by descriptor hash"
                % (len(ic.PAIRS), 2 if tier == "thorough" else 1))
    rep.extra["bound_k"] = 2 if tier == "thorough" else 1
    rep.extra["pairs"] = sorted("%s/%s" % (s["single"], s["batch"]) for s in ic.PAIRS.values())
    rep.extra["n_cases"] = len(cases)
    rep.extra["std_types_covered"] = {e: len(ic.builtin_types(e)) for e in ("line", "line_dc", "trafo", "trafo3w")}
    core.run_cases(rep, run_case, cases)
    rep.assumptions = ["null-aware, dtype-insensitive value comparison (1e-12 rel); missing column == null; '' == null",
                       "cosmetic columns not compared: name, geo (bus: zone, type); custom kwargs columns exercised, not judged",
                       "exception classes compared loosely (raised / accepted)",
                       "per-element lists only where the batch signature documents an iterable"]
    return rep


def replay(case):
    core.quiet()
    for p in ("empty", "plain", "rich"):
        ic.prestate(p)
    ic.freeze_shapes()
    return run_case(case)["violations"]

"""C14 run_contingency reports the true N-1 extremes, causes, overloading flags, N-0 values and restores in_service.
E1 enumeration of ORDERED N-1 case lists on three meshed nets, brute-force reference on deep copies."""
import copy

import numpy as np

from mc import core, d_nets as dn, d_nminus1 as nm

PROPERTY = "C14"
LEVEL = "exploration"
META = {
    "text": "On three meshed networks (110 kV ring with an out-of-service line and two bridges; ring + parallel/bridging 2-winding transformers across voltage levels; 3-winding transformer meshed with 2-winding transformers) run_contingency is called with every subset of <=4 (quick; thorough <=5 on larger menus) branch elements in every evaluation order the nminus1_cases dict can express, under five limit alphabets, a heavy-load variant with a non-converging outage, a second call on the same net, init='results' power-flow options and raise_errors; every call is compared with a brute-force N-1 loop on deep copies: max/min per bus and branch over converged cases without the element's own outage, N-0 = plain power flow, the named cause reproduces the reported maximum when outaged alone, causes_overloading <=> the outage overloads a branch, in_service restored, written res_* columns = returned dict.",
    "note": "Trusted: mc/d_nminus1.py (60 lines of reference semantics) and pandapower.runpp itself on single-outage copies. Networks beyond 7 buses / 12 branches, lists longer than the bound, tdpf temperatures and run_contingency_ls2g are not covered. cause_* entries of elements without any maximum are uninitialised memory and not judged.",
    "technique": "bounded exhaustive enumeration of ordered N-1 case lists on the real run_contingency with a brute-force N-1 oracle",
    "design_ref": "DESIGN.md §3 E1, §4 C14",
}

NETS = ("M4L", "M4T", "W3M")
_POST_FIRST = {}
_SOLVED = {}


def _first_list(desc):
    """the list of the FIRST call in the 'twice' modes: the whole quick menu; for init='results' without the bridges
    and 3-winding transformers (an islanding outage / a trafo3w outage leaves NaN start voltages for every later
    init='results' power flow, which would bury the other clauses)"""
    menu = dn.MENU[desc["net"]]["quick"]
    if desc["mode"].endswith("_ir"):
        br = dn.ROLES[desc["net"]]["bridge"]
        menu = [e for e in menu if e not in br and e[0] != "trafo3w"]
    types = []
    for e in menu:
        if e[0] not in types:
            types.append(e[0])
    return [[t, [e[1] for e in menu if e[0] == t]] for t in types]


def _start_net(desc):
    """network on which the judged call is made"""
    from pandapower.contingency import run_contingency
    import pandapower as pp
    mode = desc["mode"]
    ir = mode.endswith("_ir")
    if mode.startswith("twice"):
        key = (desc["net"], desc.get("load", "normal"), desc.get("limits", "some"), mode)
        if key not in _POST_FIRST:
            net = dn.build(desc)
            if ir:
                pp.runpp(net)
                run_contingency(net, dn.to_dict(_first_list(desc)), pf_options={"init": "results"},
                                pf_options_nminus1={"init": "results"})
            else:
                run_contingency(net, dn.to_dict(_first_list(desc)))
            _POST_FIRST[key] = net
        return copy.deepcopy(_POST_FIRST[key])
    net = dn.build(desc)
    if ir:
        key = (desc["net"], desc.get("load", "normal"), desc.get("limits", "some"))
        if key not in _SOLVED:
            pp.runpp(net)
            _SOLVED[key] = net
        return copy.deepcopy(_SOLVED[key])
    return net


def _poisons(ref, c):
    """does the converged outage c leave NaN start values for the next init='results' power flow?
    (an islanded in-service bus has vm_pu NaN; an out-of-service trafo3w has vm_internal_pu NaN)"""
    return c[0] == "trafo3w" or bool(np.isnan(ref["cases"][c]["bus"][ref["insvc"]["bus"]]).any())


def _label_nan_start(vs, res, net, before, ref, desc, conv, toks, prev):
    """Recorded defect family 'init_results_nan_start': runpp(init='results') that starts from NaN voltages either
    raises or (lightsim2grid) reports convergence after 0 iterations and leaves the previous results in place.
    Emulation: every power flow after the first poisoning converged outage c* (later N-1 cases that 'converged' and
    the N-0 case) carries the results of c*.  A violation is labelled iff it disappears when the reference is
    replaced by that emulation (same clause / element / index)."""
    first = next((k for k, c in enumerate(conv) if _poisons(ref, c)), None)
    if first is None:
        return vs
    stale = ref["cases"][conv[first]]
    ref2 = dict(ref)
    ref2["cases"] = dict(ref["cases"])
    for c in conv[first + 1:]:
        ref2["cases"][c] = stale
    vs2, _ = nm.judge_c14(res, net, before, ref2, desc["cases"], conv, stale, toks, prev_tables=prev)
    key = lambda v: (v["clause"], v.get("klass"), v["detail"].get("index") if v["clause"] in ("cause", "causes_overloading") else None)
    emu = {key(v): v for v in vs2}
    out = []
    for v in vs:
        v = dict(v)
        if key(v) in emu:
            v["tokens"] = list(emu[key(v)]["tokens"])
        else:
            v["tokens"] = [t for t in v["tokens"] if not t.startswith("explained=")] + ["explained=init_results_nan_start"]
        out.append(v)
    return out


def run_case(desc):
    from pandapower.contingency import run_contingency
    mode = desc["mode"]
    ir = mode.endswith("_ir")
    toks = ["mode=" + mode, "net=" + desc["net"], "limits=" + desc.get("limits", "some"), "load=" + desc.get("load", "normal")]
    ref = nm.brute(desc, ir=ir)
    net = _start_net(desc)
    before = copy.deepcopy(net)
    prev = nm.table_snapshot(net, ref) if mode.startswith("twice") else None
    kw = {}
    if ir:
        kw = {"pf_options": {"init": "results"}, "pf_options_nminus1": {"init": "results"},
              "contingency_evaluation_function": nm.recording_runpp}
        del nm.RECORD[:]
    if mode == "raise":
        kw["raise_errors"] = True
    out = {"violations": [], "n": 1, "counts": {}, "sig": None}
    live = nm.live_cases(ref, desc["cases"])
    try:
        res = run_contingency(net, dn.to_dict(desc["cases"]), **kw)
    except Exception as e:
        out["outcome"] = "raised_" + type(e).__name__
        a, b = nm.in_service_state(net), nm.in_service_state(before)
        if a != b:
            out["violations"].append(core.violation("in_service_restored", {"after_exception": type(e).__name__,
                                                                            "tables": [t for t in b if a.get(t) != b[t]]},
                                                    tokens=toks, klass="in_service"))
        out["counts"]["chk_in_service_after_raise"] = 1
        if live:
            out["sig"] = "raised|" + core.dhash(desc)
        return out
    if ir:
        base_oos = sorted((t, int(i)) for t in dn.BRANCH_TYPES if t in ref["index"]
                          for i, s in zip(ref["index"][t], ref["insvc"][t]) if not s)
        ok_sets = [sorted(r["oos"]) for r in nm.RECORD if r["outcome"] == "ok"]
        conv = [c for c in live if sorted(base_oos + [c]) in ok_sets]
        out["counts"]["ir_case_failed_although_reference_converges"] = sum(
            1 for c in live if c not in conv and ref["cases"].get(c) is not None)
    else:
        conv = [c for c in live if ref["cases"].get(c) is not None]
    vs, counts = nm.judge_c14(res, net, before, ref, desc["cases"], conv, ref["n0"], toks, prev_tables=prev)
    if ir and vs:
        vs = _label_nan_start(vs, res, net, before, ref, desc, conv, toks, prev)
    out["violations"] = vs
    for k, v in counts.items():
        out["counts"][k] = v
    # what did this list exercise?
    out["counts"]["lists_with_nonconverged_case"] = int(len(conv) < len(live))
    out["counts"]["lists_with_skipped_oos_element"] = int(len(live) < len(dn.flat(desc["cases"])))
    out["counts"]["lists_with_islanding_case"] = int(any(np.isnan(ref["cases"][c]["bus"]).any() for c in conv))
    out["outcome"] = "ok"
    if conv:
        out["sig"] = "%s|%s" % (mode, core.dhash(desc))
    return out


def gen_cases(tier):
    cases = []

    def add(mode, net, lists, load="normal", limits="some"):
        for l in lists:
            cases.append({"mode": mode, "net": net, "load": load, "limits": limits, "cases": l})

    for net in NETS:
        q = dn.MENU[net]["quick"]
        th = dn.MENU[net]["thorough"]
        if tier == "quick":
            add("once", net, dn.ordered_lists(q, 4))
            for lim in dn.LIMITS[1:]:
                add("once", net, dn.ordered_lists(q, 2), limits=lim)
            add("twice", net, dn.ordered_lists(q, 2))
            add("once_ir", net, dn.ordered_lists(q, 3))
            add("twice_ir", net, dn.ordered_lists(q, 2))
            if net in dn.HEAVY_FACTOR:
                add("once", net, dn.ordered_lists(q, 3), load="heavy")
                add("raise", net, dn.ordered_lists(q, 2), load="heavy")
        else:
            add("once", net, dn.ordered_lists(th, 4))
            add("once", net, dn.ordered_lists(q, 5, kmin=5))
            for lim in dn.LIMITS[1:]:
                add("once", net, dn.ordered_lists(q, 3), limits=lim)
            add("twice", net, dn.ordered_lists(q, 4))
            add("once_ir", net, dn.ordered_lists(q, 4))
            add("twice_ir", net, dn.ordered_lists(q, 3))
            if net in dn.HEAVY_FACTOR:
                add("once", net, dn.ordered_lists(q, 4), load="heavy")
                add("raise", net, dn.ordered_lists(q, 3), load="heavy")
    return cases


def _prime(cases):
    """reference tables and start nets are computed once in the parent; forked workers inherit them"""
    seen = set()
    for c in cases:
        k = (c["net"], c["load"], c["limits"], c["mode"])
        if k in seen:
            continue
        seen.add(k)
        nm.brute(c, ir=c["mode"].endswith("_ir"))
        _start_net(c)


def explore(tier, seed):
    rep = core.Report(PROPERTY, LEVEL, tier, seed)
    core.warm(pf=True)
    cases = gen_cases(tier)
    _prime(cases)
    rep.rule = ("E1: nets %s x every subset of <=k menu branch elements (lines, trafos, trafo3w; incl. one out-of-service "
                "element and one bridge per net) in every evaluation order expressible by the nminus1_cases dict (all "
                "permutations inside a type x all orders of the types) x modes {once, twice (judged call follows a call with "
                "the whole menu on the same net), once_ir/twice_ir (pf_options init='results'), heavy load (one outage does "
                "not converge), raise_errors} x limit alphabets %s; distinct+non-trivial = descriptor hash of calls in "
                "which at least one N-1 case converged" % (list(NETS), list(dn.LIMITS)))
    rep.extra["bound_k"] = {"quick": "once<=4, once_ir/heavy<=3, limits/twice/twice_ir/raise<=2",
                            "thorough": "once<=4 on larger menus and =5 on quick menus, twice/once_ir/heavy<=4, limits/twice_ir/raise<=3"}[tier]
    rep.extra["menus"] = {n: dn.MENU[n]["quick" if tier == "quick" else "thorough"] for n in NETS}
    rep.extra["roles"] = dn.ROLES
    by_mode = {}
    for c in cases:
        by_mode[c["mode"]] = by_mode.get(c["mode"], 0) + 1
    rep.extra["calls_by_mode"] = by_mode
    core.run_cases(rep, run_case, cases)
    rep.assumptions = ["tolerance 1e-6 p.u. / 1e-4 % abs + 1e-7 rel; limit comparisons closer than 1e-3 % are not judged",
                       "max/min of elements that are out of service in the base net are not judged (the code reports NaN)",
                       "cause_* entries without a finite maximum are uninitialised memory (np.empty) and not judged",
                       "init='results' clauses: the set of converged cases is observed through the public "
                       "contingency_evaluation_function hook; reference values come from deep copies solved with the same options",
                       "an outage without a converged power flow is not judged for causes_overloading"]
    return rep


def replay(case):
    core.quiet()
    return run_case(case)["violations"]

"""C29 Protection devices trip later for smaller currents, never earlier — E1 enumeration of devices x current grid."""
import copy
import math
import os

import numpy as np
import pandas as pd

from mc import core, k_prot as kp

PROPERTY = "C29"
LEVEL = "exploration"
META = {
    "text": "Every built-in fuse std type (each selectable curve) and every generated fuse characteristic (x subsets of a 6-value set x non-increasing t selections from a multiset with a tie, Pchip and linear log-log interpolation) as well as OC relays DTOC/IDMT/IDTOC x 4 IEC curves x 2 (thorough 3) switches x graded time-setting alphabets (list with topological grading, manual DataFrame in natural and permuted row order) x pick-up alphabets (automatic factors, manual DataFrame natural / permuted) are built with the real classes on switch tables with default, permuted ([2,0,1]) and user-chosen ([10,4,7]; fuses) index labels and driven over a sorted current grid (support points, arithmetic and geometric midpoints, +-1..3 ulp around i_start / i_stop / every pick-up, multiples of the pick-up, decades 1 A .. 100 kA), ascending and descending, in both scenarios; on every call: reported time non-increasing along the grid (no trip = +inf), trip flag true exactly when the current is >= i_start (fuse) / > lowest pick-up (relay), activation value bitwise equal to the value written into the table of the chosen scenario.",
    "note": "Continuous domain: decided on the stated finite device alphabets and current grids only. The current is injected through the narrow seam the devices read (net.res_switch_sc.ikss_ka for 'sc', net.res_switch.i_ka for 'pp'; all other cells hold decoys that flip the decision); the thorough tier additionally drives fuses through real calc_sc / runpp + calculate_protection_times. Preconditions of the statement are evaluated on the user's inputs: non-monotone characteristic data and inconsistently graded settings are counted, not judged for monotonicity. Devices whose constructor raises are counted only. Tolerance: 1e-9 relative on the time comparison.",
    "technique": "bounded exhaustive input enumeration (device alphabet x current grid, both call orders) on the real protection classes with monotonicity / threshold / table-value oracles",
    "design_ref": "DESIGN.md §3 E1, §4 C29",
}

POS = 1         # fuse cases: device on the switch row at position 1 of kp.fuse_net(swidx); its label is SWITCH_LABELS[swidx][1]

# per switch id values of the manual DataFrames (all consistent: I_s < I_g < I_gg, t_gg < t_g)
M_IGG = {0: 0.9, 1: 0.8, 2: 0.7}
M_IG = {0: 0.5, 1: 0.4, 2: 0.3}
M_IS = {0: 0.3, 1: 0.2, 2: 0.1}
M_TGG = {0: 0.05, 1: 0.06, 2: 0.07}
M_TG = {0: 0.9, 1: 0.6, 2: 0.3}
M_TMS = {0: 1.0, 1: 0.5, 2: 0.2}
M_TGRADE = {0: 0.5, 1: 0.4, 2: 0.3}
ORDERS = {"natural": [0, 1, 2], "permuted": [2, 0, 1]}


# ----------------------------------------------------------------------------------------------
# cases
# ----------------------------------------------------------------------------------------------
def gen_cases(tier):
    import pandapower as pp
    cases = []
    net = pp.create_empty_network()
    for name in sorted(net.std_types["fuse"]):
        for cs in (0, 1):
            for swidx in ("default", "permuted", "gapped"):
                cases.append({"dev": "fuse", "src": "std", "name": name, "curve_select": cs, "swidx": swidx})
    sizes = (2, 3, 4) if tier == "thorough" else (2, 3)
    for x, t in kp.fuse_generated(sizes):
        for kind in ("Pchip", "linear"):
            for swidx in (("default", "permuted", "gapped") if tier == "thorough" else ("default", "permuted")):
                cases.append({"dev": "fuse", "src": "gen", "x": x, "t": t, "kind": kind, "swidx": swidx})
    sws = (0, 1, 2) if tier == "thorough" else (0, 1)
    relay_start = len(cases)
    for sw in sws:
        # DTOC
        ts_list = [[0.07, 0.5, 0.3], [0.07, 0.07, 0.0], [0.5, 0.07, 0.3]]
        pus = [{"form": "auto"}, {"form": "auto", "kw": {"safety_factor": 0.01}}, {"form": "auto", "kw": {"overload_factor": 2.0, "ct_current_factor": 1.0}},
               {"form": "df", "order": "natural"}, {"form": "df", "order": "permuted"}]
        for ts in [{"form": "list", "v": v} for v in ts_list] + [{"form": "df", "order": o} for o in ("natural", "permuted")]:
            for pu in pus:
                cases.append({"dev": "relay", "type": "DTOC", "curve": "standard_inverse", "sw": sw, "ts": ts, "pu": pu})
        curves = sorted(kp.CURVES)
        for curve in curves:
            ts_list = [[1.0, 0.5], [0.05, 0.0], [0.0, 0.5]]
            pus = [{"form": "auto"}, {"form": "auto", "kw": {"inverse_overload_factor": 2.0}},
                   {"form": "df", "order": "natural"}, {"form": "df", "order": "permuted"}]
            for ts in [{"form": "list", "v": v} for v in ts_list] + [{"form": "df", "order": o} for o in ("natural", "permuted")]:
                for pu in pus:
                    cases.append({"dev": "relay", "type": "IDMT", "curve": curve, "sw": sw, "ts": ts, "pu": pu})
            ts_list = [[0.07, 0.5, 0.3, 1.0, 0.5], [0.07, 0.07, 0.0, 1.0, 0.5], [0.07, 0.5, 0.3, 0.001, 0.0]]
            pus = [{"form": "auto"}, {"form": "auto", "kw": {"safety_factor": 0.01}},
                   {"form": "df", "order": "natural"}, {"form": "df", "order": "permuted"}]
            for ts in [{"form": "list", "v": v} for v in ts_list] + [{"form": "df", "order": "natural"}]:
                for pu in pus:
                    cases.append({"dev": "relay", "type": "IDTOC", "curve": curve, "sw": sw, "ts": ts, "pu": pu})
    # every relay case with default and with permuted switch index labels ("sw" is the row position of the relay's switch)
    relays = cases[relay_start:]
    del cases[relay_start:]
    for swidx in ("default", "permuted"):
        for c in relays:
            c2 = dict(c)
            c2["swidx"] = swidx
            cases.append(c2)
    if tier == "thorough":
        for name in sorted(net.std_types["fuse"]):
            for swidx in ("default", "permuted"):
                cases.append({"dev": "fuse_real", "name": name, "swidx": swidx})
    return cases


# ----------------------------------------------------------------------------------------------
# fuse
# ----------------------------------------------------------------------------------------------
def _std_curve(net, name, cs):
    """the curve the documentation selects: t_avg if the type has one, else t_min (curve_select 0) / t_total (1)"""
    d = net.std_types["fuse"][name]
    if d["t_avg"] != 0:
        return list(d["x_avg"]), list(d["t_avg"]), "avg"
    if cs == 0:
        return list(d["x_min"]), list(d["t_min"]), "min"
    return list(d["x_total"]), list(d["t_total"]), "total"


def _data_monotone(x, t):
    o = np.argsort(np.asarray(x, float), kind="stable")
    xs, ts = np.asarray(x, float)[o], np.asarray(t, float)[o]
    return bool(np.all(np.diff(xs) > 0) and np.all(np.diff(ts) <= 0) and np.all(ts > 0))


def _drive(net, dev, sw, grid, scenario, decoy_fn, use_public):
    """ascending then descending pass; returns list of (i_ka, result dict, pass name)"""
    from pandapower.protection.run_protection import calculate_protection_times
    out = []
    for pname, seq in (("asc", grid), ("desc", grid[::-1])):
        for i in seq:
            kp.inject(net, scenario, sw, i, decoy_fn(i))
            try:
                res = dict(dev.protection_function(net, scenario=scenario))
            except Exception as e:      # a built device that cannot answer: judged by the trip clause (no decision)
                res = {"trip_melt": None, "trip_melt_time_s": float("nan"), "_raised": "%s: %s" % (type(e).__name__, str(e)[:80])}
            res["_has_tripped"] = bool(dev.has_tripped())
            if use_public and pname == "asc" and "_raised" not in res:
                df = calculate_protection_times(net, scenario=scenario)
                row = df[df.switch_id == sw].iloc[0]
                res["_public"] = (bool(row.trip_melt), float(row.activation_parameter_value), float(row.trip_melt_time_s))
            out.append((i, res, pname))
    return out


def _judge_common(obs, scenario, sw, trip_expected, base_tokens, klass, check_mono, check_trip):
    """clauses on one scenario's observations; trip_expected(i_ka) -> bool"""
    vs = []
    n = 0
    done = set()
    for pname in ("asc", "desc"):
        seq = [(i, r) for i, r, p in obs if p == pname]
        seq.sort(key=lambda ir: ir[0])
        cur = [i for i, _ in seq]
        tim = [kp.eff_time(r) for _, r in seq]
        if check_mono:
            br = kp.monotone_break(cur, tim)
            if br and "mono" not in done:
                done.add("mono")
                br.update({"scenario": scenario, "pass": pname})
                vs.append(core.violation("time_non_increasing", br, tokens=base_tokens + ["scenario=" + scenario], klass=klass))
        for i, r in seq:
            n += 1
            if "_raised" in r:
                if "raised" not in done:
                    done.add("raised")
                    vs.append(core.violation("trip_iff_above_pickup", {"i_ka": i, "protection_function_raised": r["_raised"], "scenario": scenario, "pass": pname},
                                             tokens=base_tokens + ["scenario=" + scenario, "raised"], klass=klass))
                continue
            if check_trip:
                exp = trip_expected(i)
                got = r.get("trip_melt")
                if (bool(got) != exp or r["_has_tripped"] != exp) and "trip" not in done:
                    done.add("trip")
                    vs.append(core.violation("trip_iff_above_pickup", {"i_ka": i, "expected_trip": exp, "trip_melt": bool(got), "has_tripped": r["_has_tripped"],
                                                                       "scenario": scenario, "pass": pname, "time": kp.eff_time(r)},
                                             tokens=base_tokens + ["scenario=" + scenario, "expected_trip=%s" % exp], klass=klass))
            v = r.get("activation_parameter_value")
            okv = isinstance(v, (float, np.floating)) and float(v) == i and r.get("activation_parameter") == "i_ka" and r.get("switch_id") == sw
            if "_public" in r:
                pb = r["_public"]
                okv = okv and pb[0] == bool(r.get("trip_melt")) and pb[1] == i and (pb[2] == float(r["trip_melt_time_s"]) or (math.isnan(pb[2]) and math.isnan(float(r["trip_melt_time_s"]))))
            if not okv and "act" not in done:
                done.add("act")
                vs.append(core.violation("activation_value_is_table_value", {"written_i_ka": i, "reported": core.jsonable(v), "activation_parameter": r.get("activation_parameter"),
                                                                             "switch_id": core.jsonable(r.get("switch_id")), "scenario": scenario, "public": core.jsonable(r.get("_public"))},
                                         tokens=base_tokens + ["scenario=" + scenario], klass=klass))
    return vs, n


def run_fuse(case):
    from pandapower.protection.protection_devices.fuse import Fuse
    out = {"violations": [], "n": 0, "counts": {}, "sig": [], "outcome": "ok"}
    cnt = out["counts"]
    net = kp.fuse_net(case["swidx"])
    SW = kp.SWITCH_LABELS[case["swidx"]][POS]
    if case["src"] == "std":
        x, t, which = _std_curve(net, case["name"], case["curve_select"])
        dev = Fuse(net, switch_index=SW, fuse_type=case["name"], curve_select=case["curve_select"])
        toks = ["dev=fuse", "src=std", "curve=" + which, "swidx=" + case["swidx"]]
        klass = "fuse/std"
    else:
        x, t = case["x"], case["t"]
        dev = Fuse(net, switch_index=SW, fuse_type="none", rated_i_a=x[0] / 1.6)
        if case["kind"] == "Pchip":
            dev.create_characteristic(net, x, t)
        else:
            dev.create_characteristic(net, x, t, interpolator_kind="interp1d", kind="linear")
        toks = ["dev=fuse", "src=gen", "kind=" + case["kind"], "swidx=" + case["swidx"]]
        klass = "fuse/gen"
    mono_data = _data_monotone(x, t)
    if not mono_data:
        cnt["precondition_nonmonotone_characteristic_data"] = 1
        toks.append("data_nonmonotone")
    i_start = float(min(x))
    grid = kp.fuse_grid_ka(x)

    def trip_expected(i_ka):
        return bool(i_ka * 1000 >= i_start)

    def decoy(i_ka):
        return (0.5 * i_start / 1000.0) if trip_expected(i_ka) else (2.0 * i_start / 1000.0)

    times = {}
    for scenario in ("sc", "pp"):
        obs = _drive(net, dev, SW, grid, scenario, decoy, use_public=(case["src"] == "std"))
        vs, n = _judge_common(obs, scenario, SW, trip_expected, toks, klass, check_mono=mono_data, check_trip=True)
        out["violations"] += vs
        out["n"] += n
        times[scenario] = [kp.eff_time(r) for i, r, p in obs if p == "asc"]
    nfin = sum(1 for v in times["sc"] if math.isfinite(v) and v > 0)
    out["sig"].append("fuse|%s|%s|finite=%d|zero=%d" % (core.dhash(case), "mono" if mono_data else "nonmono", nfin, sum(1 for v in times["sc"] if v == 0)))
    # observation only (outside the statement): str(device) must not change later answers
    try:
        kp.inject(net, "sc", SW, grid[-1], 0.0)
        before = kp.eff_time(dev.protection_function(net, scenario="sc"))
        str(dev)
        after = kp.eff_time(dev.protection_function(net, scenario="sc"))
        if before != after:
            cnt["observation_str_changes_answer"] = 1
    except Exception:
        cnt["observation_str_breaks_device"] = 1
    return out


def run_fuse_real(case):
    """thorough: the same clauses through the real calculations: calc_sc at every bus x ext_grid strength alphabet and runpp x load
    alphabet; currents are whatever the calculation reports, sorted afterwards"""
    import pandapower as pp
    from pandapower.shortcircuit.calc_sc import calc_sc
    from pandapower.protection.protection_devices.fuse import Fuse
    from pandapower.protection.run_protection import calculate_protection_times
    out = {"violations": [], "n": 0, "counts": {}, "sig": [], "outcome": "ok"}
    base = kp.fuse_net(case["swidx"])
    SW = kp.SWITCH_LABELS[case["swidx"]][POS]
    x, t, which = _std_curve(base, case["name"], 0)
    Fuse(base, switch_index=SW, fuse_type=case["name"])
    mono_data = _data_monotone(x, t)
    i_start = float(min(x))
    toks = ["dev=fuse", "src=std", "route=real", "curve=" + which, "swidx=" + case["swidx"]]
    for scenario in ("sc", "pp"):
        pts = []
        if scenario == "sc":
            for ssc in (0.02, 0.05, 0.1, 0.3, 1., 3., 10., 100.):
                for bus in (2, 3):
                    net = copy.deepcopy(base)
                    net.ext_grid["s_sc_max_mva"] = ssc
                    try:
                        calc_sc(net, bus=bus, branch_results=True)
                    except Exception as e:
                        out["counts"]["real_calc_raises_" + type(e).__name__] = out["counts"].get("real_calc_raises_" + type(e).__name__, 0) + 1
                        continue
                    df = calculate_protection_times(net, scenario="sc")
                    pts.append((float(net.res_switch_sc.ikss_ka.at[SW]), df.iloc[0].to_dict()))
        else:
            for p in (0.0, 0.005, 0.02, 0.05, 0.1, 0.15):
                net = copy.deepcopy(base)
                net.load["p_mw"] = p
                try:
                    pp.runpp(net)
                except Exception as e:
                    out["counts"]["real_calc_raises_" + type(e).__name__] = out["counts"].get("real_calc_raises_" + type(e).__name__, 0) + 1
                    continue
                df = calculate_protection_times(net, scenario="pp")
                pts.append((float(net.res_switch.i_ka.at[SW]), df.iloc[0].to_dict()))
        pts = [p for p in pts if math.isfinite(p[0])]
        pts.sort(key=lambda p: p[0])
        out["n"] += len(pts)
        cur = [p[0] for p in pts]
        tim = [kp.eff_time(p[1]) for p in pts]
        if mono_data:
            br = kp.monotone_break(cur, tim)
            if br:
                br["scenario"] = scenario
                out["violations"].append(core.violation("time_non_increasing", br, tokens=toks + ["scenario=" + scenario], klass="fuse/real"))
        for i, r in pts:
            exp = bool(i * 1000 >= i_start)
            if bool(r["trip_melt"]) != exp:
                out["violations"].append(core.violation("trip_iff_above_pickup", {"i_ka": i, "expected_trip": exp, "scenario": scenario}, tokens=toks + ["scenario=" + scenario], klass="fuse/real"))
                break
        for i, r in pts:
            if float(r["activation_parameter_value"]) != i:
                out["violations"].append(core.violation("activation_value_is_table_value", {"table": i, "reported": float(r["activation_parameter_value"]), "scenario": scenario},
                                                        tokens=toks + ["scenario=" + scenario], klass="fuse/real"))
                break
        out["sig"].append("fuse_real|%s|%s|%s|distinct_currents=%d|tripped=%d" % (case["name"], case["swidx"], scenario, len(set(cur)), sum(1 for v in tim if math.isfinite(v))))
    return out


# ----------------------------------------------------------------------------------------------
# relay
# ----------------------------------------------------------------------------------------------
def _manual_frames(case):
    typ = case["type"]
    ts, pu = case["ts"], case["pu"]
    tdf = pdf = None
    if ts["form"] == "df":
        rows = ORDERS[ts["order"]]
        if typ == "DTOC":
            tdf = pd.DataFrame({"switch_id": rows, "t_gg": [M_TGG[s] for s in rows], "t_g": [M_TG[s] for s in rows]})
        elif typ == "IDMT":
            tdf = pd.DataFrame({"switch_id": rows, "tms": [M_TMS[s] for s in rows], "t_grade": [M_TGRADE[s] for s in rows]})
        else:
            tdf = pd.DataFrame({"switch_id": rows, "t_gg": [M_TGG[s] for s in rows], "t_g": [M_TG[s] for s in rows],
                                "tms": [M_TMS[s] for s in rows], "t_grade": [M_TGRADE[s] for s in rows]})
    if pu["form"] == "df":
        rows = ORDERS[pu["order"]]
        if typ == "DTOC":
            pdf = pd.DataFrame({"switch_id": rows, "I_gg": [M_IGG[s] for s in rows], "I_g": [M_IG[s] for s in rows]})
        elif typ == "IDMT":
            pdf = pd.DataFrame({"switch_id": rows, "I_s": [M_IS[s] for s in rows]})
        else:
            pdf = pd.DataFrame({"switch_id": rows, "I_gg": [M_IGG[s] for s in rows], "I_g": [M_IG[s] for s in rows], "I_s": [M_IS[s] for s in rows]})
    return tdf, pdf


def _ref_settings(case, net, dev):
    """the settings the USER specified for this switch (manual frames by switch_id, documented factor formulas for automatic
    pick-ups); values that only the device can derive (SC based I>>, topological time grading) are taken from the device"""
    typ, sw = case["type"], kp.SWITCH_LABELS[case["swidx"]][case["sw"]]
    ref = {}
    pu, ts = case["pu"], case["ts"]
    if pu["form"] == "df":
        if typ in ("DTOC", "IDTOC"):
            ref["I_g"], ref["I_gg"] = M_IG[sw], M_IGG[sw]
        if typ in ("IDMT", "IDTOC"):
            ref["I_s"] = M_IS[sw]
    else:
        kw = pu.get("kw", {})
        line = int(net.switch.element.at[sw])
        max_i = float(net.line.max_i_ka.at[line])
        if typ in ("DTOC", "IDTOC"):
            ref["I_g"] = max_i * kw.get("overload_factor", 1.2) * kw.get("ct_current_factor", 1.25)
            ref["I_gg"] = dev.I_gg
        if typ in ("IDMT", "IDTOC"):
            ref["I_s"] = max_i * kw.get("inverse_overload_factor", 1.2)
    if ts["form"] == "df":
        if typ in ("DTOC", "IDTOC"):
            ref["t_g"], ref["t_gg"] = M_TG[sw], M_TGG[sw]
        if typ in ("IDMT", "IDTOC"):
            ref["tms"], ref["t_grade"] = M_TMS[sw], M_TGRADE[sw]
    else:
        for k in ("t_g", "t_gg", "tms", "t_grade"):
            if getattr(dev, k, None) is not None:
                ref[k] = getattr(dev, k)
    return ref


def _consistent(typ, ref, curve):
    try:
        if typ == "DTOC":
            return 0 < ref["I_g"] <= ref["I_gg"] and 0 <= ref["t_gg"] <= ref["t_g"]
        if typ == "IDMT":
            return ref["I_s"] > 0 and ref["tms"] >= 0 and ref["t_grade"] >= 0
        return (0 < ref["I_s"] <= ref["I_g"] <= ref["I_gg"] and 0 <= ref["t_gg"] <= ref["t_g"] and ref["tms"] >= 0 and
                ref["t_g"] <= kp.idmt_time(ref["I_g"], ref["I_s"], ref["tms"], ref["t_grade"], curve))
    except (KeyError, TypeError):
        return False


def run_relay(case):
    from pandapower.protection.protection_devices.ocrelay import OCRelay
    out = {"violations": [], "n": 0, "counts": {}, "sig": [], "outcome": "ok"}
    cnt = out["counts"]
    net = kp.relay_net(case["swidx"])
    typ, sw = case["type"], kp.SWITCH_LABELS[case["swidx"]][case["sw"]]
    tdf, pdf = _manual_frames(case)
    ts = tdf if tdf is not None else case["ts"]["v"]
    kw = dict(case["pu"].get("kw", {}))
    try:
        dev = OCRelay(net, switch_index=sw, oc_relay_type=typ, time_settings=ts, pickup_current_manual=pdf, curve_type=case["curve"], **kw)
    except Exception as e:
        cnt["constructor_raises_%s" % type(e).__name__] = 1
        out["outcome"] = "constructor_raises"
        out["n"] = 1
        return out
    ref = _ref_settings(case, net, dev)
    toks = ["dev=relay", "type=" + typ, "curve=" + case["curve"], "ts=" + case["ts"]["form"], "pu=" + case["pu"]["form"],
            "ts_order=%s" % case["ts"].get("order"), "pu_order=%s" % case["pu"].get("order"), "swidx=" + case["swidx"]]
    klass = "relay/" + typ
    cons = _consistent(typ, ref, case["curve"])
    if not cons:
        cnt["precondition_inconsistent_grading"] = 1
    # recomputation of the exact effect of positional look-up in the manual frames (known-finding predicate)
    if pdf is not None and case["pu"]["order"] != "natural":
        pos = {c: float(pdf[c].iloc[sw]) for c in pdf.columns if c != "switch_id"}
        attrs = {"I_g": dev.I_g, "I_s": dev.I_s}
        if all(attrs[k] is None or attrs[k] == pos[k] for k in ("I_g", "I_s") if k in pos) and any(pos[k] != ref.get(k) for k in pos if k in ref):
            toks.append("explained=manual_pickup_row_taken_by_position_not_switch_id")
    if tdf is not None and case["ts"]["order"] != "natural":
        toks.append("manual_times_permuted")
    pickups = [ref.get("I_s"), ref.get("I_g"), ref.get("I_gg"), dev.I_s, dev.I_g, dev.I_gg]
    grid = kp.relay_grid_ka(pickups)
    low = ref.get("I_s") if typ in ("IDMT", "IDTOC") else ref.get("I_g")

    def trip_expected(i_ka):
        return bool(i_ka > low)

    def decoy(i_ka):
        return 0.5 * low if trip_expected(i_ka) else 2.0 * max(p for p in pickups if p is not None)

    shape = None
    for scenario in ("sc", "pp"):
        obs = _drive(net, dev, sw, grid, scenario, decoy, use_public=False)
        vs, n = _judge_common(obs, scenario, sw, trip_expected, toks, klass, check_mono=cons, check_trip=cons)
        out["violations"] += vs
        out["n"] += n
        tim = [kp.eff_time(r) for i, r, p in obs if p == "asc"]
        shape = (sum(1 for v in tim if math.isinf(v)), len(set(v for v in tim if math.isfinite(v))))
    out["sig"].append("relay|%s|cons=%d|notrip=%d|distinct_times=%d" % (core.dhash(case), cons, shape[0], shape[1]))
    return out


def run_case(case):
    if case["dev"] == "fuse":
        return run_fuse(case)
    if case["dev"] == "fuse_real":
        return run_fuse_real(case)
    return run_relay(case)


def explore(tier, seed):
    rep = core.Report(PROPERTY, LEVEL, tier, seed)
    core.warm(pf=True, sc=True)
    for k in kp.SWITCH_LABELS:
        kp.fuse_net(k)
    for k in ("default", "permuted"):
        kp.relay_net(k)
    cases = gen_cases(tier)
    stride = int(os.environ.get("VERIF_CASE_STRIDE", "1") or 1)   # screening aid for seeded-mutation runs only: every n-th case
    if stride > 1:
        cases = cases[::stride]
        rep.exhaustive = False
        rep.extra["case_stride"] = stride
    rep.rule = ("E1: device alphabet (31 built-in fuse std types x curve_select, generated fuses: x subsets of %s x non-increasing t "
                "selections of %s x {Pchip, linear}; OC relays {DTOC, IDMT, IDTOC} x 4 curves x switches x time-setting alphabet x pick-up "
                "alphabet) x switch index labels %s x the device's sorted current grid x {sc, pp} x {ascending, descending}; a device is distinct+non-trivial when it "
                "was built and driven over its grid, keyed by the case hash and the observed trip pattern" % (kp.FUSE_X, kp.FUSE_T_MULTISET, kp.SWITCH_LABELS))
    rep.extra["devices"] = len(cases)
    rep.extra["fuse_devices"] = sum(1 for c in cases if c["dev"] == "fuse")
    rep.extra["relay_devices"] = sum(1 for c in cases if c["dev"] == "relay")
    core.run_cases(rep, run_case, cases)
    obs = []
    if rep.extra.get("precondition_nonmonotone_characteristic_data"):
        obs.append("built-in fuse std type data that is not monotone (outside the precondition, not judged for monotonicity): "
                   "HV 10A t_min = [10.0, 1675.0, 0.344, ...] (std_types.py, probably 1.675)")
    if rep.extra.get("observation_str_breaks_device") or rep.extra.get("observation_str_changes_answer"):
        obs.append("str(Fuse) / str(OCRelay) sets self.characteristic_index = 1 (fuse.py:137): the next protection_function call of a fuse "
                   "reads another characteristic or raises KeyError (outside the statement, observation only)")
    if any(k.startswith("constructor_raises") for k in rep.extra):
        obs.append("OCRelay constructors that raise are counted only (e.g. IDTOC with the documented manual time-setting DataFrame: "
                   "self.time_settings[0] on a DataFrame -> KeyError; ocrelay.py:166)")
    rep.extra["observations"] = obs
    rep.assumptions = ["decided on the finite device alphabets and current grids only (continuous domain)",
                       "time comparison tolerance 1e-9 relative; 'no trip' (inf / NaN / flag false) is +inf",
                       "preconditions (monotone data, consistent grading I_s<=I_g<=I_gg, t_gg<=t_g<=t_idmt(I_g), tms>=0) evaluated on the user's inputs"]
    return rep


def replay(case):
    core.quiet()
    return run_case(case)["violations"]

"""C22 network edits never leave dangling references - E2 explicit-state BFS over edit histories on the real net."""
from mc import core
from mc import explore as bfsx
from mc import h_c22 as h

PROPERTY = "C22"
LEVEL = "model_checking"
META = {
    "text": "Starting from a 6-bus network that holds every reference kind (b/l/t/t3 switches, bus/line/trafo/trafo3w measurements incl. a numeric side, poly and pwl costs, an index group and a name-referenced group, ConstControl and tap controllers on load/trafo/trafo3w, tap characteristic tables and splines, result tables), every sequence of up to 3 bound operations from a 33-op alphabet (thorough: 3 from the full 55-op alphabet and 4 from a 16-op core alphabet) of create/drop/fuse/select_subnet/merge_nets/reindex/continuous-index/replace/drop-inactive operations is executed on the real net, deduplicated by a canonical state, and after every operation that returned, every reference held anywhere in the net is resolved against the table it points to; exhaustive within that bound.",
    "note": "Trusted: the reference enumeration in mc/h_c22.py allrefs (which columns/attributes are references). Only dangling references that an operation newly creates are reported (a state that already dangles is still expanded, inherited danglings are counted). Operations that raise are outcomes; the state after a raise is neither judged nor expanded. Targets/lookup values outside the bound alphabet and nets beyond 6(+2) buses are not covered. Recorded defect families are matched by (clause, operation, holder, target, explained=...) signatures.",
    "technique": "explicit-state breadth-first search over operation histories on the real pandapower net with a referential-integrity invariant checked after every transition",
    "design_ref": "DESIGN.md §3 E2, §4 C22",
}


class Model:
    """adapter for mc.explore.bfs"""
    def __init__(self, tier):
        self.tier = tier

    def init(self):
        return h.init()

    def ops(self, s):
        return h.ops(s, self.tier)

    def apply(self, s, op):
        return h.apply(s, op)

    def copy(self, s):
        return h.copy_state(s)

    def canon(self, s):
        return h.canon(s)

    def invariant(self, s, hist, op, outcome):
        vs = []
        for k, d, toks in s["new"]:
            vs.append(core.violation(k[0], dict(d, key=list(k), introduced_by=h.opname(op)), tokens=toks,
                                     klass="%s|%s|%s" % (h.opname(op), k[1], k[3])))
        return vs


BOUNDS = {"quick": [("quick", 3)], "thorough": [("thorough", 3), ("core", 4)]}


def explore_(tier, seed, rep):
    s0 = h.init()
    if s0["bad"]:
        rep.violations.append(core.violation("initial_state", {"dangling": [list(k) for k in s0["bad"]]},
                                             case={"history": []}, tokens=["init"]))
    rep.extra["bounds"] = []
    for alpha, depth in BOUNDS[tier]:
        m = Model(alpha)
        sub = core.Report(PROPERTY, LEVEL, tier, seed)
        bfsx.bfs(sub, m, depth)
        rep.evaluations += sub.evaluations
        rep.nontrivial.update(sub.nontrivial)
        for k, n in sub.outcomes.items():
            rep.outcome(k, n)
        rep.violations += [dict(v, case=dict(v["case"], alphabet=alpha)) for v in sub.violations]
        rep.samples += sub.samples
        rep.exhaustive = rep.exhaustive and sub.exhaustive
        rep.extra["bounds"].append({"alphabet": alpha, "n_ops_initial": len(m.ops(s0)), "depth": depth,
                                    "states": sub.extra["states"], "transitions": sub.extra["transitions"],
                                    "levels": sub.extra["levels"]})
        for k in ("states", "transitions", "traces_validated_against_impl"):
            rep.extra[k] = rep.extra.get(k, 0) + sub.extra[k]
        rep.extra["depth_completed"] = max(rep.extra.get("depth_completed", 0), sub.extra["depth_completed"])
        rep.extra["distinct_outcomes"] = len(rep.outcomes)
    rep.extra["raised_ops"] = sum(n for k, n in rep.outcomes.items() if k.startswith("raised"))
    return rep


def explore(tier, seed):
    rep = core.Report(PROPERTY, LEVEL, tier, seed)
    core.warm(pf=True)
    h.base_nets()
    rep.rule = ("E2 BFS: every sequence of <= depth bound operations (alphabet of %d / %d bound ops: create_*, drop_*, fuse_buses, "
                "select_subnet, merge_nets, reindex_buses, reindex_elements per element type, create_continuous_*_index, replace_*, "
                "drop_inactive_elements, set_isolated_areas_out_of_service) from the 6-bus all-reference-kinds net; an op is enabled "
                "when its concrete targets exist; states deduplicated by the canonical form (all element-table columns in row "
                "order + result index sets + the set of already dangling references); distinct_nontrivial = distinct canonical "
                "states reached" % (len(h.ops(h.init(), "quick")), len(h.ops(h.init(), "thorough"))))
    explore_(tier, seed, rep)
    rep.assumptions = ["judged: states after operations that returned; raised operations are counted (outcomes raised:<Exception>) and not expanded",
                       "only references newly dangling after an operation are reported; inherited ones are attributed to the operation that introduced them",
                       "a reference is identified by (clause, holder table, column, target table, target value)",
                       "merge_nets is called with validate=False; no power flow is run after the initial one"]
    return rep


def replay(case):
    m = Model(case.get("alphabet", "thorough"))
    return bfsx.replay_history(m, case["history"])

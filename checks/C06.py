"""C06 all power-flow algorithms / back-ends agree - E1 (k<=1/2 deviations) x the full solver option product."""
import contextlib
import copy
import io

import numpy as np

from mc import core, netalpha as na
from mc import c_nets, c_solvers as cs

PROPERTY = "C06"
LEVEL = "exploration"
META = {
    "text": "Every network reachable from 10 base nets (radial, ring+chord, 2-winding and 3-winding transformer, two radial islands, radial with one loop, two ring islands, parallel lines, phase shifting transformer in a second island, two generators with staggered reactive limits) by <=1 (thorough <=2) deviations is solved by the default Newton-Raphson and then by every element of the full product algorithm {nr, iwamoto_nr, bfsw, gs, fdbx, fdxb} x numba {on, off} x lightsim2grid {off, on} x init {flat, dc, results} (x enforce_q_lims {off, on} on nets with generators); whenever an alternative returns, its complex bus voltages and all branch / slack / generator powers are compared with the default solution, and the backward/forward sweep must not die with an internal error on a radial or weakly meshed net with one slack per island.",
    "note": "Trusted: the default NR solution as reference (its own correctness is C01/C02). Documented refusals (NotImplementedError, LoadflowNotConverged of gs/fd within max_iteration) are counted as outcomes; a flat start behind a phase shifting transformer that lands on another exact root of the reference's own equations is counted, not judged. ZIP loads, FACTS and loadings with |dV| > 10 % are outside the alphabet; weakly meshed means <= 3 independent loops per island.",
    "technique": "bounded exhaustive input enumeration (deviation-bounded) crossed with a full configuration product, differential oracle against the default solver with family tolerances",
    "design_ref": "DESIGN.md §3 E1, §4 C06",
}

BASES = ["R3", "M4", "T3", "W3", "I2", "L1", "MI2", "PL", "TS", "G2"]
REFUSALS = ("NotImplementedError", "LoadflowNotConverged", "UserWarning", "not_converged")
MAX_LOOPS_WEAK = 3


def menu(b):
    hot = c_nets.HOT[b][0]
    s = 20. if b == "M4" else 1.
    other = [x for x in (1, 2, 3, 0) if x != hot][0] if b != "PL" else 1
    m = [["load", hot, 1.5 * s, 0.5 * s, "P", 1., True],
         ["sgen", hot, 0.8 * s, -0.2 * s, 1., True],
         # shunt dimension of the result routines (_get_numba_functions: any(GS), any(BS)): b only, g only, g+b, and
         # pairs at two buses whose ratings cancel in total
         ["shunt", hot, 0., -0.5 * s, 1, 1.0, True],
         ["shunt", hot, 0.1 * s, 0., 1, 1.0, True],
         ["shunt", hot, 0.1 * s, -0.5 * s, 1, 1.0, True],
         ["shunt_pair", other, hot, 0., 0.6 * s],
         ["shunt_pair", other, hot, 0.2 * s, 0.],
         ["ward", hot, True],
         ["xward", hot, True],
         ["gen", hot, 1.0 * s, 1.01, "wide", False, True],
         ["gen", hot, 0.5 * s, 1.03, "none", False, True],
         ["gen", hot, 0.6 * s, 1.04, "tight", False, True],    # reactive limit binding under enforce_q_lims
         ["sn", 100.],
         ["ext_grid", hot, 1.0, 0., True],                  # second slack in the same island
         ["set", "ext_grid", 0, "bus", hot]]                # slack is not the first bus
    if b == "TS":
        m = [d for d in m if d[0] in ("load", "shunt_pair", "xward", "sn") or (d[0] == "gen" and d[4] != "none")]
        m += [["set", "ext_grid", 1, "bus", 5], ["set", "ext_grid", 1, "bus", 4],       # slack on the LV side of the shifted trafo
              ["set", "ext_grid", 1, "bus", 3],
              ["set", "trafo", 0, "shift_degree", 30.], ["set", "trafo", 0, "shift_degree", -150.],
              ["set", "trafo", 0, "shift_degree", 0.], ["set", "trafo", 0, "shift_degree", 180.],
              ["set", "trafo", 0, "tap_pos", 2], ["set", "trafo", 0, "tap_side", "lv"],
              ["trafo", 3, 4, {"shift_degree": 150.}], ["set", "ext_grid", 0, "in_service", False],
              ["swapline", 2], ["set", "bus", 5, "in_service", False]]
    if b == "G2":
        m = [d for d in m if d[0] in ("load", "shunt", "sn") or (d[0] == "gen" and d[4] == "tight")][:5]
        m += [["set", "gen", 0, "max_q_mvar", 60.], ["set", "gen", 1, "max_q_mvar", 60.],      # only one gen limited
              ["set", "gen", 1, "max_q_mvar", 10.],                                           # both beyond the limit in the first pass
              ["set", "gen", 0, "vm_pu", 0.96], ["set", "gen", 1, "vm_pu", 0.97],             # lower limit binding
              ["set", "gen", 0, "in_service", False], ["set", "gen", 1, "bus", 2],            # one gen / two gens at one bus
              ["set", "gen", 0, "min_q_mvar", 0.], ["set", "gen", 1, "p_mw", 40.],
              ["line", 1, 3, 1, True]]
    if b in ("R3", "M4", "T3", "W3", "I2"):
        m += [d for d in na.structure_menu(b) if d[0] != "sn"]
    if b == "T3":
        m += [["set", "trafo", 0, "shift_degree", 30.]]
    if b == "L1":
        m += [["set", "line", 4, "in_service", False], ["set", "line", 0, "parallel", 2], ["line", 1, 2, 1, True],
              ["switch", 3, 4, "l", False, 0.], ["impedance", 1, 3, False], ["set", "bus", 4, "in_service", False],
              ["swapline", 4], ["line", 0, 2, 1, True], ["switch", 2, 4, "b", True, 0.], ["switch", 2, 4, "b", True, 0.5]]
    if b == "MI2":
        m += [["set", "ext_grid", 1, "bus", 5], ["set", "line", 2, "in_service", False],
              ["set", "line", 5, "in_service", False], ["line", 0, 2, 1, True], ["line", 3, 4, 1, True],
              ["set", "ext_grid", 1, "in_service", False], ["swapline", 4], ["gen", 5, 0.4, 1.0, "wide", False, True]]
    if b == "PL":
        m += [["set", "line", 1, "in_service", False], ["set", "line", 0, "parallel", 2], ["swapline", 1],
              ["line", 1, 2, 1, True], ["impedance", 0, 1, False], ["switch", 0, 1, "l", False, 0.],
              ["line", 0, 2, 1, True]]
    return m


def run_case(case):
    net0 = c_nets.build(case)
    out = {"violations": [], "n": 0, "counts": {}, "sig": []}

    def count(k):
        out["counts"][k] = out["counts"].get(k, 0) + 1
    qlim = bool(case["configs"][0].get("qlim"))
    ref = copy.deepcopy(net0)
    oc = na.run_pf(ref, {"enforce_q_lims": True} if qlim else {})
    out["n"] += 1
    if oc != "ok":
        count("reference_" + oc)
        out["outcome"] = "reference_failed"
        return out
    snap = cs.snapshot(ref)
    internal = ref._ppc.get("internal", {})
    facts = cs.topo_facts(ref) if "branch" in internal and "bus" in internal else None
    ttoks = cs.topo_tokens(facts) if facts else ["no_pq_pv_bus"]
    qualifies = bool(facts) and facts["one_slack_per_island"] and facts["max_loops"] <= MAX_LOOPS_WEAK
    nh = core.dhash([case["base"], case["devs"]])
    gen_toks = []
    if qlim and len(net0.gen):
        g = net0.gen[net0.gen.in_service & ~net0.gen.slack]
        if len(g) and bool((np.isclose(g.max_q_mvar.values.astype(float), 0.) | np.isclose(g.min_q_mvar.values.astype(float), 0.)).any()):
            # recorded defect: runpf_pypower._run_ac_pf_with_qlims_enforced never limits a gen one of whose limits is exactly 0
            gen_toks.append("gen_zero_qlimit")
    scratch = {}
    for c in case["configs"]:
        # a fresh deep copy per run; a copy on which pandapower refused to start (NotImplementedError is raised while
        # the options are checked, before the net is touched) is reused for the next configuration
        net = scratch.pop(c["init"] == "results", None)
        if net is None:
            net = copy.deepcopy(ref if c["init"] == "results" else net0)
        with contextlib.redirect_stdout(io.StringIO()):   # iwamoto_nr prints its multiplier
            oc, msg = cs.run_alt(net, c)
        if oc == "NotImplementedError":
            scratch[c["init"] == "results"] = net
        out["n"] += 1
        count("alt_%s_%s" % (c["alg"], oc))
        toks = ["alg=" + c["alg"], "numba=%s" % c["numba"], "ls2g=%s" % c["ls2g"], "init=" + c["init"],
                "qlim=%s" % qlim] + ttoks
        if oc == "ok":
            alt = cs.snapshot(net)
            bad = cs.compare(snap, alt, c["alg"])
            if bad and c["init"] in ("flat", "results") and facts and facts["shift"] and \
                    cs.other_valid_root(ref, net, spec_from_alt=qlim):
                # a start vector > 90 degrees away from the solution behind a phase shifting transformer (documented caveat
                # of init="flat"; with init="results" the auxiliary bus of a line ending at an out-of-service bus is started
                # flat as well): Newton converges to another exact root of the SAME equations (checked with the reference's
                # own Ybus) - low-voltage branch or flipped angle at a PV bus; two valid solutions, not a defect
                count("other_valid_solution_flat_start_phase_shift")
                continue
            out["sig"].append("%s|%s" % (nh, cs.cfg_name(c)))
            for what, dev, tol, where in bad:
                out["violations"].append(core.violation(
                    "agreement", {"config": cs.cfg_name(c), "what": what, "deviation": dev, "tolerance": tol,
                                  "where": where, "facts": facts},
                    tokens=toks + ["what=" + what.split(".")[0]] + gen_toks, klass=c["alg"] + "/" + what.split(".")[0]))
                break  # one violation per (net, config): the first table that disagrees
        elif c["alg"] == "bfsw" and not c["ls2g"] and qualifies and oc not in ("NotImplementedError", "UserWarning"):
            clause = "bfsw_no_solution" if oc in ("LoadflowNotConverged", "not_converged") else "bfsw_internal_error"
            ex = cs.explain_bfsw_error(facts, oc, msg) if clause == "bfsw_internal_error" else []
            out["violations"].append(core.violation(
                clause, {"config": cs.cfg_name(c), "exception": oc, "message": msg, "facts": facts},
                tokens=toks + ["exc=" + oc] + ex + (["pv_inner_loop"] if "inner iterations for PV nodes" in msg else []),
                klass="bfsw/" + oc))
    out["outcome"] = "ok"
    return out


def gen_cases(tier):
    cfgs = cs.configs()
    cases = []
    k = 1 if tier == "quick" else 2
    for b in BASES:
        for devs in na.subsets(menu(b), k):
            devs = [list(d) for d in devs]
            # enforce_q_lims=True only changes anything when the net holds generators (gen / dcline): the q-limit half of the
            # product is crossed with exactly those nets, reference = default NR with enforce_q_lims=True
            has_gen = b == "G2" or any(d[0] in ("gen", "dcline") for d in devs)
            for q in ([False, True] if has_gen else [False]):
                for alg in cs.ALGS:      # one case per (net, enforce_q_lims, algorithm): 12 configurations each
                    cases.append({"base": b, "devs": devs,
                                  "configs": [c for c in cfgs if c["alg"] == alg and c["qlim"] == q]})
    return cases


def explore(tier, seed):
    rep = core.Report(PROPERTY, LEVEL, tier, seed)
    core.warm(pf=True)
    cs.warm_all()
    cases = gen_cases(tier)
    k = 1 if tier == "quick" else 2
    rep.rule = ("E1 x full product: every subset of <=%d pairwise-compatible deviations from the per-base menus of %s, each "
                "solved by default NR and by all 72 elements of algorithm x numba x lightsim2grid x init (nets holding generators additionally by the same 72 with enforce_q_lims=True against default NR with enforce_q_lims=True); distinct+non-trivial = "
                "(net hash, configuration) pairs whose alternative run converged and was compared" % (k, BASES))
    rep.extra["bound_k"] = k
    rep.extra["nets"] = len({core.dhash([c["base"], c["devs"]]) for c in cases})
    rep.extra["nets_with_generators_crossed_with_enforce_q_lims"] = sum(1 for c in cases if c["configs"][0]["qlim"]) // len(cs.ALGS)
    rep.extra["configurations"] = len(cs.configs())
    rep.extra["tolerances"] = {"V_nr_family": cs.TOL_V["nr"], "V_other": cs.TOL_V["loose"], "S_abs_mva": cs.TOL_S_ABS,
                               "S_rel": cs.TOL_S_REL}
    core.run_cases(rep, run_case, cases)
    rep.assumptions = ["reference = default runpp (nr, numba, lightsim2grid auto, init auto); nets whose reference does not converge are counted only",
                       "bfsw must-solve clause applies to nets with exactly one slack bus per island and <= %d independent loops per island" % MAX_LOOPS_WEAK,
                       "refusals (NotImplementedError / LoadflowNotConverged / UserWarning) are outcomes, counted per algorithm in extra",
                       "init=flat on nets with a phase shifting transformer: a result that differs but satisfies the reference's own equations (Ybus, Sbus, bus types of the default run) to 1e-6 p.u. is another valid root - counted as other_valid_solution_flat_start_phase_shift",
                       "no ZIP loads / FACTS; moderate loading"]
    return rep


def replay(case):
    return run_case(case)["violations"]

"""C32 Characteristics interpolate through their support points — E1 full enumeration of small data sets."""
import os
import pickle

import numpy as np

from mc import core, k_char as kc

PROPERTY = "C32"
LEVEL = "exploration"
META = {
    "text": "Every strictly increasing x subset (size 2-5) of a 7-value set crossed with every ordered y selection from a 5-element multiset (monotone and arbitrary, with ties) is turned into a real Characteristic, SplineCharacteristic (every scipy interp1d kind, the default kind, Pchip; with and without a fill_value tuple) and LogSplineCharacteristic (positive data) and evaluated: value at each support point equals y_i, monotone data under shape-preserving kinds stays between the neighbouring y values at 9 interior points per interval, and to_json/from_json of the object (before and after first use), the JSON round trip of the net holding it and pickle give bit-identical evaluations on the grid; the from_points/from_gradient constructors are enumerated over a small grid as well.",
    "note": "The domain is continuous: the property is decided on the stated finite x/y alphabets and the 9-interior-point evaluation grid only. Trusted: numpy float comparison, scipy raising its documented ValueError for too few points (counted, not judged). Tolerance 1e-9 relative to max(1,|y|); for the logarithmic class (data over 8 decades, incl. values below 1e-4) 1e-9 relative to each value.",
    "technique": "bounded exhaustive input enumeration (full product of finite data alphabets x interpolator kinds) on the real classes with interpolation / range / serialisation-equality oracles",
    "design_ref": "DESIGN.md §3 E1, §4 C32",
}


def _variants(tier):
    """(cls, interpolator_kind, kind kwarg or None, fill) tuples = one per branch of the interpolator getter / scipy kind"""
    v = [("Characteristic", None, None, "default")]
    for cls in ("SplineCharacteristic", "LogSplineCharacteristic"):
        v.append((cls, "interp1d", None, "default"))           # default kind (quadratic)
        for k in kc.INTERP1D_KINDS:
            v.append((cls, "interp1d", k, "default"))
        v.append((cls, "Pchip", None, "default"))
        # documented usage: fill_value tuple to follow the behaviour of Characteristic outside the range
        fills = kc.INTERP1D_KINDS if tier == "thorough" else ["linear", "quadratic", "previous"]
        for k in fills:
            v.append((cls, "interp1d", k, "tuple"))
        v.append((cls, "Pchip", None, "noextrap"))
    return v


def gen_cases(tier):
    cases = []
    for cls, ik, kind, fill in _variants(tier):
        alpha = kc.X_LOG if cls == "LogSplineCharacteristic" else kc.X_ALPHA
        for x in kc.x_subsets(alpha):
            cases.append({"t": "data", "cls": cls, "ik": ik, "kind": kind, "fill": fill, "x": x})
    for cls in ("Characteristic", "SplineCharacteristic"):
        cases.append({"t": "from_points", "cls": cls})
    cases.append({"t": "from_gradient", "cls": "Characteristic"})
    for cls, ik, kind, fill in _variants(tier):
        cases.append({"t": "netjson", "cls": cls, "ik": ik, "kind": kind, "fill": fill, "ys": "all" if tier == "thorough" else "first3+last"})
    cases.sort(key=lambda c: (0 if c["t"] == "data" else 1, len(c.get("x", [])), c["cls"], str(c.get("ik")), str(c.get("kind")), c.get("fill", ""), c.get("x", [])))
    return cases


def _classes():
    from pandapower.control.util import characteristic as ch
    return {"Characteristic": ch.Characteristic, "SplineCharacteristic": ch.SplineCharacteristic,
            "LogSplineCharacteristic": ch.LogSplineCharacteristic}


def _build(net, case, x, y, as_array):
    cl = _classes()[case["cls"]]
    xv, yv = (np.array(x, float), np.array(y, float)) if as_array else (list(x), list(y))
    if case["cls"] == "Characteristic":
        return cl(net, xv, yv)
    kw = {}
    if case["kind"] is not None:
        kw["kind"] = case["kind"]
    if case["fill"] == "tuple":
        kw["fill_value"] = (float(y[0]), float(y[-1]))
    if case["fill"] == "noextrap":
        kw["extrapolate"] = False
    return cl(net, xv, yv, interpolator_kind=case["ik"], **kw)


def _kind_key(case):
    if case["cls"] == "Characteristic":
        return "char"
    if case["ik"] == "Pchip":
        return "Pchip"
    return case["kind"] or "quadratic"


def _tokens(case, extra=()):
    return ["cls=" + case["cls"], "ik=%s" % case.get("ik"), "kind=%s" % case.get("kind"), "fill=%s" % case.get("fill")] + list(extra)


def _ev(obj, pts):
    return np.asarray(obj(np.asarray(pts, float)), float)


def run_data_case(case):
    out = {"violations": [], "n": 0, "counts": {}, "sig": []}
    cnt = out["counts"]
    x = case["x"]
    n = len(x)
    log = case["cls"] == "LogSplineCharacteristic"
    ys = kc.y_assignments(kc.Y_LOG_MULTISET if log else kc.Y_MULTISET, n)
    kk = _kind_key(case)
    grid, outside = kc.eval_grid(x)
    gpts = [g for _, g in grid]
    allpts = gpts + outside
    net = _empty_net()
    objs = []
    seen_clause = set()

    def viol(clause, detail, y, extra=()):
        key = (clause,) + tuple(extra)
        if key in seen_clause:         # one report per clause and case is enough (all y of this x/kind share the cause)
            cnt["suppressed_same_clause"] = cnt.get("suppressed_same_clause", 0) + 1
            return
        seen_clause.add(key)
        detail = dict(detail)
        detail["y"] = y
        out["violations"].append(core.violation(clause, detail, tokens=_tokens(case, extra), klass=case["cls"] + "/" + kk))

    for yi, y in enumerate(ys):
        as_array = bool(yi % 2)         # both list and ndarray inputs (setter of LogSpline compares with == 0)
        out["n"] += 1
        try:
            obj = _build(net, case, x, y, as_array)
            js_fresh = obj.to_json()     # serialised BEFORE the interpolator exists
            vals = _ev(obj, allpts)
        except ValueError as e:
            need = kc.MIN_POINTS.get(kk, 2)
            if n < need:                 # scipy's documented refusal: spline order needs more points
                cnt["refused_too_few_points"] = cnt.get("refused_too_few_points", 0) + 1
                continue
            viol("support_points", {"raised": "%s: %s" % (type(e).__name__, e)}, y, ["raised"])
            continue
        except Exception as e:
            viol("support_points", {"raised": "%s: %s" % (type(e).__name__, e)}, y, ["raised"])
            continue
        vals_grid = vals[:len(gpts)]
        vals_sup = [v for (tag, _), v in zip(grid, vals_grid) if tag == "sup"]
        # scalar call must agree with the vector call at the support points
        try:
            sc = [float(obj(float(xi))) for xi in x]
        except Exception as e:
            sc = None
            viol("support_points", {"raised_scalar": "%s: %s" % (type(e).__name__, e)}, y, ["raised"])
        if sc is not None and not kc.same(sc, vals_sup):
            viol("support_points", {"scalar_call": sc, "vector_call": [float(v) for v in vals_sup]}, y, ["scalar_vs_vector"])
        for clause, detail in kc.judge_values(kk, x, y, vals_sup, vals_grid, grid, relative=log):
            viol(clause, detail, y, ["monotone" if kc.monotone(y) else "arbitrary"])
        # serialisation: object level, fresh and used
        for name, js in (("json_fresh", js_fresh), ("json_used", None)):
            try:
                if js is None:
                    js = obj.to_json()
                o2 = type(obj).from_json(js)
                v2 = _ev(o2, allpts)
                ok = kc.same(v2, vals) and type(o2) is type(obj)
            except Exception as e:
                ok, v2 = False, "%s: %s" % (type(e).__name__, e)
            if not ok:
                viol("serialisation", {"form": name, "before": [float(v) for v in vals], "after": v2 if isinstance(v2, str) else [float(v) for v in v2]}, y, ["form=" + name])
        try:
            o3 = pickle.loads(pickle.dumps(obj))
            ok = kc.same(_ev(o3, allpts), vals)
        except Exception as e:
            ok = False
        if not ok:
            viol("serialisation", {"form": "pickle"}, y, ["form=pickle"])
        objs.append((obj.index, y, vals))
        out["sig"].append("%s|%s|%s|%s|%s|%s" % (case["cls"], kk, case["fill"], x, y, "arr" if as_array else "list"))
    out["outcome"] = "ok" if objs else "all_refused"
    return out


def run_netjson_case(case):
    """JSON round trip of a NET holding many characteristics of one variant in one table (every x subset x a y selection)"""
    import pandapower as pp
    out = {"violations": [], "n": 0, "counts": {}, "sig": [], "outcome": "ok"}
    log = case["cls"] == "LogSplineCharacteristic"
    kk = _kind_key(case)
    net = _empty_net()
    objs = []
    for x in kc.x_subsets(kc.X_LOG if log else kc.X_ALPHA):
        if len(x) < kc.MIN_POINTS.get(kk, 2):
            continue
        ys = kc.y_assignments(kc.Y_LOG_MULTISET if log else kc.Y_MULTISET, len(x))
        if case["ys"] != "all":
            ys = ys[:3] + ys[-1:]
        grid, outside = kc.eval_grid(x)
        pts = [g for _, g in grid] + outside
        for k, y in enumerate(ys):
            obj = _build(net, case, x, y, bool(k % 2))
            if k % 3 == 0:
                vals = _ev(obj, pts)          # used object (interpolator exists) ...
                objs.append((obj.index, x, y, pts, vals))
            else:
                objs.append((obj.index, x, y, pts, None))   # ... and never-called object
    out["n"] += 1
    try:
        net2 = pp.from_json_string(pp.to_json(net))
    except Exception as e:
        out["violations"].append(core.violation("serialisation", {"form": "net_json", "raised": "%s: %s" % (type(e).__name__, e)},
                                                tokens=_tokens(case, ["form=net_json", "raised"]), klass=case["cls"] + "/" + kk))
        return out
    nbad = 0
    for idx, x, y, pts, vals in objs:
        out["n"] += 1
        if vals is None:
            vals = _ev(net.characteristic.object.at[idx], pts)
        try:
            o4 = net2.characteristic.object.at[idx]
            ok = type(o4).__name__ == case["cls"] and kc.same(_ev(o4, pts), vals)
            det = {"type_after": type(o4).__name__}
        except Exception as e:
            ok, det = False, {"raised": "%s: %s" % (type(e).__name__, e)}
        if not ok:
            nbad += 1
            if nbad <= 2:
                det.update({"form": "net_json", "index": int(idx), "x": x, "y": y})
                out["violations"].append(core.violation("serialisation", det, tokens=_tokens(case, ["form=net_json"]), klass=case["cls"] + "/" + kk))
        else:
            out["sig"].append("netjson|%s|%s|%s|%s|%s" % (case["cls"], kk, case["fill"], x, y))
    out["counts"]["net_json_objects"] = len(objs)
    return out


_NET0 = None


def _empty_net():
    """deep copy of one prebuilt empty pandapowerNet (create_empty_network costs 0.3 s, a deep copy 10 ms)"""
    import copy
    global _NET0
    if _NET0 is None:
        from pandapower.create import create_empty_network
        _NET0 = create_empty_network()
    return copy.deepcopy(_NET0)


def run_helper_case(case):
    out = {"violations": [], "n": 0, "counts": {}, "sig": [], "outcome": "ok"}
    net = _empty_net()
    cl = _classes()[case["cls"]]
    if case["t"] == "from_points":
        for x in kc.x_subsets(kc.X_ALPHA, sizes=(3, 4)):
            for y in kc.y_assignments(kc.Y_MULTISET, len(x)):
                out["n"] += 1
                obj = cl.from_points(net, list(zip(x, y)))
                vals = [float(obj(xi)) for xi in x]
                if not all(abs(v - yi) <= kc.RTOL * kc.scale_of(y) for v, yi in zip(vals, y)):
                    out["violations"].append(core.violation("support_points", {"x": x, "y": y, "values": vals, "helper": "from_points"},
                                                            tokens=_tokens(case, ["helper=from_points"]), klass="from_points"))
                o2 = cl.from_json(obj.to_json())
                if not kc.same([float(o2(xi)) for xi in x], vals):
                    out["violations"].append(core.violation("serialisation", {"x": x, "y": y, "helper": "from_points"},
                                                            tokens=_tokens(case, ["helper=from_points"]), klass="from_points"))
                out["sig"].append("from_points|%s|%s|%s" % (case["cls"], x, y))
        return out
    # from_gradient: support points are (x_left, y_min) and (x_right, y_max) as computed by the helper itself
    for zc in (-85.0, 0.0, 3.0, 115.0):
        for grad in (100.0, 1.0, 0.5, -0.5, -1.0, -100.0):
            for ymin, ymax in ((10.0, 20.0), (-2.0, 5.0), (0.0, 1.0)):
                out["n"] += 1
                obj = cl.from_gradient(net, zero_crossing=zc, gradient=grad, y_min=ymin, y_max=ymax)
                xl, xr = (ymin - zc) / grad, (ymax - zc) / grad
                vals = [float(obj(xl)), float(obj(xr))]
                tol = kc.RTOL * max(1.0, abs(ymin), abs(ymax))
                if not (abs(vals[0] - ymin) <= tol and abs(vals[1] - ymax) <= tol):
                    toks = ["helper=from_gradient", "gradient<0" if grad < 0 else "gradient>0"]
                    if grad < 0 and abs(vals[0] - ymax) <= tol and abs(vals[1] - ymin) <= tol:
                        toks.append("explained=decreasing_x_passed_to_interp")
                    out["violations"].append(core.violation(
                        "support_points", {"helper": "from_gradient", "zero_crossing": zc, "gradient": grad, "y_min": ymin, "y_max": ymax,
                                           "x_vals": [float(v) for v in obj.x_vals], "y_vals": [float(v) for v in obj.y_vals],
                                           "values_at_x_vals": vals}, tokens=_tokens(case, toks), klass="from_gradient"))
                out["sig"].append("from_gradient|%s|%s|%s|%s" % (zc, grad, ymin, ymax))
    return out


def run_case(case):
    if case["t"] == "data":
        return run_data_case(case)
    if case["t"] == "netjson":
        return run_netjson_case(case)
    return run_helper_case(case)


def explore(tier, seed):
    rep = core.Report(PROPERTY, LEVEL, tier, seed)
    core.quiet()
    import pandapower  # noqa: F401  (import in the parent before forking)
    _empty_net()
    cases = gen_cases(tier)
    stride = int(os.environ.get("VERIF_CASE_STRIDE", "1") or 1)   # screening aid for seeded-mutation runs only: every n-th case
    if stride > 1:
        cases = cases[::stride]
        rep.exhaustive = False
        rep.extra["case_stride"] = stride
    rep.rule = ("E1 full product: class/interpolator variant x every strictly increasing x subset of size 2-5 of %s (Log: %s) x every "
                "distinct ordered y selection from the multiset %s (Log: %s); one case = (variant, x), evaluated for every y. A data set "
                "is distinct+non-trivial when the object could be built and evaluated (scipy's too-few-points refusal is counted "
                "separately), keyed by (class, kind, fill, x, y, input container)" % (kc.X_ALPHA, kc.X_LOG, kc.Y_MULTISET, kc.Y_LOG_MULTISET))
    rep.extra["variants"] = len(_variants(tier))
    rep.extra["x_subsets"] = len(kc.x_subsets(kc.X_ALPHA))
    rep.extra["x_subsets_log"] = len(kc.x_subsets(kc.X_LOG))
    rep.extra["interior_points_per_interval"] = 9
    rep.extra["cases"] = len(cases)
    core.run_cases(rep, run_case, cases)
    rep.assumptions = ["decided on the finite x / y alphabets and the 9-interior-point grid only (continuous domain)",
                       "tolerance 1e-9 relative to max(1, max|y|); serialisation compared bitwise (NaN == NaN)",
                       "interp1d kinds needing more points than given raise scipy's ValueError: counted as refused_too_few_points, not judged"]
    return rep


def replay(case):
    return run_case(case)["violations"]

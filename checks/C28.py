"""C28 grid equivalents reproduce the internal operating point and leave the original net unchanged - E1."""
import copy

import numpy as np

from mc import core, j_equiv as je

PROPERTY = "C28"
LEVEL = "exploration"
TOL_VM = 1e-6
TOL_VA = 1e-4
META = {
    "text": "For a 4-bus meshed net and a 6-bus meshed net with PV generator, sgens, shunts and a transformer (plus <=1 deviation: sn_mva, slack generator, ward/xward/storage/motor/shunt/sgen in the external area, bus-bus switch at a bus, second busbars behind closed / open bus-bus switches, a dcline, switched-off lines, scaled load) EVERY partition of the buses into (internal, boundary, external) with a connected or empty internal area and a separating boundary is passed to the real get_equivalent for ward, xward and rei x return_internal x calculate_voltage_angles; a power flow on the returned equivalent (merged with the internal sub-net when only the equivalent is returned) must reproduce vm_pu to 1e-6 and va_degree to 1e-4 at every internal and boundary bus (buses mapped by name), and the net that was passed in must be cell-for-cell unchanged; exhaustive within that bound, no sampling.",
    "note": "Trusted: mc/j_equiv.py (split enumeration, NaN-aware snapshot comparison, name-based bus mapping). Exceptions raised by get_equivalent and equivalents that contain no slack (whole grid external with the slack eliminated) are counted as outcomes, not judged. ZIP loads, transformer phase shift (documented REI limitation), ward_type='ward_admittance' in the quick tier, and nets beyond 7 buses are not covered.",
    "technique": "bounded exhaustive input enumeration (all bus partitions x equivalent type x options) of the real get_equivalent with a differential power-flow oracle and a before/after snapshot",
    "design_ref": "DESIGN.md §3 E1, §4 C28",
}


def _has_slack(net):
    return bool((len(net.ext_grid) and net.ext_grid.in_service.any()) or
                (len(net.gen) and (net.gen.slack & net.gen.in_service).any()))


EXPL_CVA = "explained=cva_false_ignores_assist_ext_grid_angles"
EXPL_REI = "explained=rei_eq_switch_between_total_buses_drops_shunts"


def _explain(case, ref, eq, I, B, kw, get_equivalent, merge, select_subnet, pp):
    """predicates of the two recorded defects (evaluated only when a voltage mismatch was observed)"""
    toks = []
    # REI: two REI "total" buses joined by an eq_switch lose their equivalent shunts (TODO in
    # rei_generation._replace_ext_area_by_impedances_and_shunts)
    if case["eq_type"] == "rei" and len(eq.switch):
        tot = set(eq.bus.index[eq.bus.name.astype(str).str.contains("-total")])
        sw = eq.switch[(eq.switch.name.astype(str) == "eq_switch") & (eq.switch.et == "b")]
        if len(sw) and all(b in tot and e in tot for b, e in zip(sw.bus.values, sw.element.values)):
            toks.append(EXPL_REI)
    # calculate_voltage_angles=False: the internal power flows ignore va_degree of the assist ext_grids that
    # get_equivalent puts on the boundary buses (build_gen: slack angle only used when calculate_voltage_angles)
    if not case["cva"] and not toks:
        slack = set(ref.ext_grid.bus[ref.ext_grid.in_service]) | set(ref.gen.bus[ref.gen.in_service & ref.gen.slack])
        assist = [b for b in B if b not in slack and abs(float(ref.res_bus.at[b, "va_degree"])) > 1e-9]
        if assist:
            try:
                net2 = copy.deepcopy(ref)
                eq2 = get_equivalent(net2, case["eq_type"], list(B), list(I), return_internal=case["return_internal"],
                                     calculate_voltage_angles=True, **kw)
                if I and not case["return_internal"]:
                    bb = [int(b) for b in eq2.bus_lookups["boundary_buses_inclusive_bswitch"]]
                    eq2 = merge(eq2, select_subnet(ref, sorted(set(I) | set(B) | set(bb)), include_results=True))
                pp.runpp(eq2, calculate_voltage_angles=False)
                _, _, probs2 = je.compare_voltages(ref, eq2, [b for b in list(I) + list(B)
                                                              if np.isfinite(ref.res_bus.at[b, "vm_pu"])], TOL_VM, TOL_VA)
                if not probs2:
                    toks.append(EXPL_CVA)
            except Exception:
                pass
    return toks


def run_case(case):
    import pandapower as pp
    from pandapower.grid_equivalents import get_equivalent, merge_internal_net_and_equivalent_external_net
    from pandapower.toolbox.grid_modification import select_subnet

    out = {"violations": [], "n": 1, "counts": {}, "sig": None}

    def count(k):
        out["counts"][k] = out["counts"].get(k, 0) + 1

    net = je.build(case)
    cva = case["cva"]
    try:
        pp.runpp(net, calculate_voltage_angles=cva)
    except Exception as e:
        out["outcome"] = "orig_pf_" + type(e).__name__
        return out
    I, B = case["split"]["I"], case["split"]["B"]
    toks = ["eq=" + case["eq_type"], "ri=%s" % case["return_internal"], "cva=%s" % cva,
            "internal=%s" % ("empty" if not I else "nonempty")]
    kw = dict(case.get("kw") or {})
    snap = je.snapshot(net)
    ref = copy.deepcopy(net)
    exc = None
    try:
        eq = get_equivalent(net, case["eq_type"], list(B), list(I), return_internal=case["return_internal"],
                            calculate_voltage_angles=cva, **kw)
    except Exception as e:
        exc = e
    # clause 2: the caller's net is unchanged (also when the call raised)
    for tab, what in je.diff_snapshot(snap, net):
        out["violations"].append(core.violation("original_changed", {"table": tab, "what": what,
                                                                     "raised": type(exc).__name__ if exc else None},
                                                tokens=toks + ["tab=" + tab], klass="original_changed/" + tab))
    if exc is not None:
        out["outcome"] = "raise_" + type(exc).__name__
        count("raise_%s_%s" % (case["eq_type"], type(exc).__name__))
        out["exc_msg"] = str(exc)[:200]
        return out
    if eq is None:
        out["outcome"] = "returned_none"
        return out
    # clause 1: power flow on the equivalent
    how = "returned"
    try:
        if I and not case["return_internal"]:
            how = "merged"
            # get_equivalent may have moved an external slack bus into the boundary: use its own boundary list
            bb = [int(b) for b in eq.bus_lookups["boundary_buses_inclusive_bswitch"]]
            ib = select_subnet(ref, sorted(set(I) | set(B) | set(bb)), include_results=True)
            eq = merge_internal_net_and_equivalent_external_net(eq, ib)
    except Exception as e:
        out["outcome"] = "merge_raise_" + type(e).__name__
        count("merge_raise_%s_%s" % (case["eq_type"], type(e).__name__))
        return out
    if not _has_slack(eq):
        out["outcome"] = "no_slack_in_equivalent"
        count("no_slack_%s" % case["eq_type"])
        return out
    try:
        pp.runpp(eq, calculate_voltage_angles=cva)
    except Exception as e:
        out["outcome"] = "eq_pf_" + type(e).__name__
        count("eq_pf_%s_%s" % (case["eq_type"], type(e).__name__))
        return out
    if not eq.converged:
        out["outcome"] = "eq_pf_not_converged"
        return out
    judged = [b for b in list(I) + list(B) if np.isfinite(ref.res_bus.at[b, "vm_pu"])]
    wvm, wva, probs = je.compare_voltages(ref, eq, judged, TOL_VM, TOL_VA)
    if any("problem" not in p for p in probs):
        # runpp(init="auto") starts from the results stored in the returned net; an equivalent with large shunt /
        # PV parts can have a second power-flow solution there.  Two valid solutions are not compared: the verdict is
        # taken from a power flow started independently of the stored results as well.
        try:
            eq2 = copy.deepcopy(eq)
            pp.runpp(eq2, calculate_voltage_angles=cva, init="dc" if cva else "flat")
            wvm2, wva2, probs2 = je.compare_voltages(ref, eq2, judged, TOL_VM, TOL_VA)
            if eq2.converged and len(probs2) < len(probs) or (wvm2, wva2) < (wvm, wva):
                count("stored_results_are_another_pf_solution_" + case["eq_type"])
                wvm, wva, probs, eq = wvm2, wva2, probs2, eq2
        except Exception:
            pass
    expl = []
    if any("problem" not in p for p in probs):
        expl = _explain(case, ref, eq, I, B, kw, get_equivalent, merge_internal_net_and_equivalent_external_net,
                        select_subnet, pp)
    toks = toks + expl
    if len(ref.dcline):
        toks.append("has_dcline")
    slack = set(ref.ext_grid.bus[ref.ext_grid.in_service]) | set(ref.gen.bus[ref.gen.in_service & ref.gen.slack])
    if slack & set(case["split"]["E"]):
        toks.append("slack_in=external")
    for tab in ("xward", "ward"):
        if len(ref[tab]):
            E = set(case["split"]["E"])
            where = sorted({"external" if b in E else "boundary" if b in set(B) else "internal" for b in ref[tab].bus.values})
            toks += ["%s_at=%s" % (tab, w) for w in where]
    for p in probs:
        clause = "bus_missing" if "problem" in p else "voltage"
        p = dict(p)
        p.update({"how": how, "worst_dvm": wvm, "worst_dva": wva})
        kinds = sorted(t for t in ("storage", "motor", "ward", "xward", "gen", "sgen", "shunt", "load") if len(ref[t]) and
                       ref[t].bus.isin(case["split"]["E"]).any())
        out["violations"].append(core.violation(clause, p, tokens=toks + ["how=" + how] + ["ext_kind=" + k for k in kinds],
                                                klass=clause + "/" + case["eq_type"]))
    out["outcome"] = "ok"
    out["sig"] = "%s|%s|%s|%s|ri=%s|cva=%s|%s" % (case["base"], core.dhash(case["devs"]), core.dhash(case["split"]),
                                                   case["eq_type"], case["return_internal"], cva, how)
    count("judged_" + how)
    return out


QUICK_DEVS = {"G6": [["sn", 100.], ["gen_slack", 0], ["ext_xward", 2], ["bb", 3], ["dcline", 1, 3, 4.0], ["bb2", 3, 2],
                     ["bbo", 1, 2]], "M4": [["ext_ward", 1], ["dcline", 1, 3, 4.0]]}
ALL_OPTS = [(True, True), (False, True), (True, False), (False, False)]


def gen_cases(tier):
    """quick: M4 everything; G6 full option product on splits with <=2 boundary buses, (T,T) on the other splits with
    an internal area, empty internal area only with <=2 boundary buses and calculate_voltage_angles=True; deviated nets:
    QUICK_DEVS x splits with internal area and <=2 boundary buses x (T,T).  thorough: every split x every option on the
    base nets, every menu deviation x every split x {(T,T),(F,T),(T,F)}, plus ward_admittance."""
    cases = []
    quick = tier == "quick"
    plan = [("M4", []), ("G6", [])]
    for b in ("G6", "M4"):
        plan += [(b, [d]) for d in (QUICK_DEVS[b] if quick else je.dev_menu(b))]
    for base, devs in plan:
        sp = je.splits(je.build({"base": base, "devs": devs}))
        for s in sp:
            small = len(s["B"]) <= 2 or base == "M4"
            if devs:
                if quick and (not s["I"] or not small):
                    continue
                opts = [(True, True)] if quick else ALL_OPTS[:3]
            elif quick and not small:
                if not s["I"]:
                    continue
                opts = [(True, True)]
            elif quick and not s["I"] and base != "M4":
                opts = [(False, True)]
            else:
                opts = ALL_OPTS
            if not s["I"]:
                opts = sorted({(False, cva) for _, cva in opts}, reverse=True)   # return_internal is forced off
            for eq_type in ("ward", "xward", "rei"):
                for ri, cva in opts:
                    cases.append({"base": base, "devs": devs, "split": s, "eq_type": eq_type,
                                  "return_internal": ri, "cva": cva})
                if not quick and not devs and eq_type != "rei":
                    cases.append({"base": base, "devs": devs, "split": s, "eq_type": eq_type, "return_internal": True,
                                  "cva": True, "kw": {"ward_type": "ward_admittance"}})
    cases.sort(key=lambda c: len(c["devs"]))
    return cases


def explore(tier, seed):
    rep = core.Report(PROPERTY, LEVEL, tier, seed)
    core.warm(pf=True)
    cases = gen_cases(tier)
    rep.rule = ("E1: bases M4, G6 (mc/j_equiv.py) with <=1 deviation from dev_menu; per net EVERY partition of the buses into "
                "(internal, boundary, external) with boundary and external non-empty, no branch between internal and external "
                "and a connected (or empty) internal area; x eq_type {ward, xward, rei} x return_internal {T,F} x "
                "calculate_voltage_angles {T,F}; quick: full option product on M4 and on G6 splits with <=2 boundary buses, (T,T) "
                "on the other G6 splits, deviations %s on splits with internal area and <=2 boundary buses; thorough: every "
                "split x every option, every menu deviation x every split x {(T,T),(F,T),(T,F)}, ward_admittance; a case is distinct+non-trivial when get_equivalent returned a net "
                "whose power flow converged and was compared, keyed by (net, split, eq_type, options)" % (QUICK_DEVS,))
    rep.extra["get_equivalent_calls"] = len(cases)
    rep.extra["splits"] = {b: len(je.splits(je.base(b))) for b in ("M4", "G6")}
    res = core.run_cases(rep, run_case, cases)
    msgs = {}
    for c, r in zip(cases, res):
        if r.get("exc_msg"):
            key = "%s+%s|%s|%s: %s" % (c["base"], c["devs"][0][0] if c["devs"] else "-", c["eq_type"], r["outcome"],
                                       r["exc_msg"][:100])
            msgs[key] = msgs.get(key, 0) + 1
    rep.extra["exception_messages"] = dict(sorted(msgs.items(), key=lambda kv: -kv[1])[:30])
    rep.assumptions = ["vm_pu to 1e-6, va_degree to 1e-4, buses of the equivalent identified by bus name",
                       "original net solved with the same calculate_voltage_angles as passed to get_equivalent",
                       "return_internal=False with a non-empty internal area: judged after "
                       "merge_internal_net_and_equivalent_external_net with select_subnet(net, internal+boundary)",
                       "exceptions / equivalents without slack are outcomes (counted per class), not verdicts",
                       "snapshot: every DataFrame (incl. res_*) and scalar entry of the net, NaN-aware, new columns tolerated"]
    return rep


def replay(case):
    core.warm(pf=True)
    return run_case(case)["violations"]

"""C33 DER controller set-points stay within the declared capability — E1 over a P/Q/V grid x area x q-model x saturation."""
import copy
import math
import os

import numpy as np
import pandas as pd

from mc import core, k_der as kd

PROPERTY = "C33"
LEVEL = "exploration"
TOL = 1e-9
META = {
    "text": "For every capability area class of PQVAreas.py (STATCOM, polygon, VDE 4105/4110/4120/4130 variants, stand-alone PQ and QV parts; 26 area objects incl. none) x every q-model class (10 incl. none) x saturate_sn_mva in {NaN, 0.8 sn, sn} x q_prio x damping in {1, 2}, real DERControllers are stepped on sgens covering sn in {1,2} x 7 active powers (incl. the 0.05 / 0.2 p.u. break points) x 7 start reactive powers x 7 voltages (incl. the exact 96/110 and 127/110 p.u. break points; thorough multi-element mode: 17), as multi-element controllers (mixed inside/outside elements, plus one controller on the elements that all start inside the area; quick: damped runs and QModelCosphiSn on a stated sub-grid) and one controller per element (quick: area+saturation on a 2x2 p/vm sub-grid; thorough: full grid), and through run_control on a 2-bus net (thorough). After every control_step: sqrt(p^2+q^2) <= saturate_sn_mva when saturation is active; when only an area applies, q/sn lies in the documented q range of that area at (p/sn, vm), recomputed independently (own polygon slicing / piecewise-linear limits, no shapely, no q_flexibility call).",
    "note": "Continuous domain: decided on the stated finite P/Q/V grids only. Narrow seam: res_bus.vm_pu is written directly and is_converged/control_step are called in the order run_control uses; the thorough tier also goes through runpp(run_control=True). With damping > 1 and a start outside the capability only the converged state is judged (a damped step is a convex combination of an outside and an inside point), with the controller's own convergence tolerance. Points where the documented area is empty (p or vm outside the polygon, PQ and QV parts disjoint) and steps that raise (documented merge-overlap ValueError, shapely NotImplementedError at p = 0.05 of PQArea4110, scalar q of QModelCosphiSn) are counted, not judged. Area classes whose constructor raises (PQVArea4130V2: AttributeError) are counted. The reference shapes are transcribed from the vertex lists quoted in the class definitions.",
    "technique": "bounded exhaustive input enumeration (full product of finite grids) on the real controller with an independently recomputed capability-area reference",
    "design_ref": "DESIGN.md §3 E1, §4 C33",
}

MAX_ERR = 1e-6
MAX_ITER = 60


# ----------------------------------------------------------------------------------------------
# case list
# ----------------------------------------------------------------------------------------------
def _sat_prio():
    return [("nan", True), (0.8, True), (0.8, False), (1.0, True), (1.0, False)]


def gen_cases(tier):
    cases = []
    for area in kd.area_keys():
        for qm in kd.qmodel_keys():
            for sat, qprio in _sat_prio():
                for damp in (1, 2):
                    c = {"mode": "vector", "area": area, "qm": qm, "sat": sat, "q_prio": qprio, "damp": damp, "rmo": True}
                    if tier == "quick" and (damp == 2 or qm.startswith("cosphi_sn")):
                        c["short_grid"] = True
                    cases.append(c)
    # merge-overlap handling switched off (documented alternative: mean of the two bounds)
    for area in [a for a in kd.area_keys() if a.startswith("pqv")]:
        for sat, qprio in (("nan", True), (1.0, True)):
            cases.append({"mode": "vector", "area": area, "qm": "none", "sat": sat, "q_prio": qprio, "damp": 1, "rmo": False})
    if tier == "quick":
        # one controller per element on a small grid, area AND saturation together (a single element inside the area with S above
        # saturate_sn_mva takes the all-in-area path of _saturate); the thorough tier does this on the full grid
        for area in [a for a in kd.area_keys() if a != "none"]:
            for qm in ("none", "const_q_0.3", "cosphi_p_0.9", "qv_curve"):
                for sat, qprio in _sat_prio()[1:]:
                    cases.append({"mode": "single", "area": area, "qm": qm, "sat": sat, "q_prio": qprio, "damp": 1, "rmo": True, "tiny_grid": True})
    if tier == "thorough":
        for area in kd.area_keys():
            for qm in ("none", "const_q_-1.0", "cosphi_p_0.9", "cosphi_sn_0.2", "cosphi_p_curve", "qv_curve"):
                for sat, qprio in _sat_prio():
                    cases.append({"mode": "single", "area": area, "qm": qm, "sat": sat, "q_prio": qprio, "damp": 1, "rmo": True})
        for area in [a for a in kd.area_keys() if a.startswith("pqv") or a in ("none", "statcom")]:
            for qm in ("none", "const_q_-1.0", "cosphi_p_0.9", "qv_curve", "cosphi_v_curve"):
                for sat, qprio in (("nan", True), (0.8, True), (0.8, False)):
                    for damp in (1, 2):
                        cases.append({"mode": "run_control", "area": area, "qm": qm, "sat": sat, "q_prio": qprio, "damp": damp, "rmo": True})
    return cases


def _elements(case, tier_vms):
    """(sn, p_pu, q_pu, vm index) grid of a case.  Full grid for damping 1; the damped runs (about 17 steps each) and the
    q-model whose scalar q makes nearly every step raise use a stated sub-grid in the quick tier."""
    qs = kd.Q_PU if case["qm"] == "none" else kd.Q_PU_SHORT
    sns, ps, ivs = kd.SN, kd.P_PU, list(range(len(tier_vms)))
    if case.get("short_grid"):
        sns, ps, ivs = kd.SN[:1], [0.03, 0.2, 1.0], [0, 1, 3, 4, 6]
    if case.get("tiny_grid"):
        sns, ps, ivs = kd.SN[:1], [0.2, 1.0], [3, 4]
    return [(sn, p, q, iv) for iv in ivs for sn in sns for p in ps for q in qs]


# ----------------------------------------------------------------------------------------------
# stepping
# ----------------------------------------------------------------------------------------------
_BASE = {}


def _net_for(vms):
    key = tuple(vms)
    if key not in _BASE:
        _BASE[key] = kd.base_net(vms)
    net = copy.deepcopy(_BASE[key])
    n = len(net.bus)
    net["res_bus"] = pd.DataFrame({"vm_pu": [1.0] + list(vms), "va_degree": [0.] * n, "p_mw": [0.] * n, "q_mvar": [0.] * n}, index=net.bus.index)
    return net


def _sat_value(case, sn):
    return float("nan") if case["sat"] == "nan" else case["sat"] * sn


def _judge(case, elems, idxs, net, vms, when, damped_conv, cnt, vs, done):
    """the two clauses of the statement on the current net.sgen rows idxs"""
    area = case["area"]
    n = 0
    for el, i in zip(elems, idxs):
        sn, p0, q0, iv = el
        p, q = float(net.sgen.p_mw.at[i]), float(net.sgen.q_mvar.at[i])
        n += 1
        if not (math.isfinite(p) and math.isfinite(q)):
            if "nan" not in done:
                done.add("nan")
                vs.append(core.violation("apparent_power_within_saturation" if case["sat"] != "nan" else "q_within_area",
                                         {"element": list(el), "p_mw": p, "q_mvar": q, "when": when, "what": "non-finite set-point"},
                                         tokens=_tokens(case) + ["nonfinite"], klass=area + "/" + case["qm"]))
            continue
        sat = _sat_value(case, sn)
        # a damped controller stops when np.allclose(target, value, atol=max_error) (default rtol 1e-5) holds for the HALF step
        tq = case["damp"] * (MAX_ERR + 1e-5 * abs(q)) * 1.05 if damped_conv else 0.0
        tp = case["damp"] * (MAX_ERR + 1e-5 * abs(p)) * 1.05 if damped_conv else 0.0
        if not math.isnan(sat):
            s = math.hypot(p, q)
            if s > sat * (1 + TOL) + tp + tq and "s" not in done:
                done.add("s")
                vs.append(core.violation("apparent_power_within_saturation",
                                         {"element": {"sn_mva": sn, "p_start_pu": p0, "q_start_pu": q0, "vm_pu": vms[iv]}, "p_mw": p, "q_mvar": q, "s_mva": s,
                                          "saturate_sn_mva": sat, "when": when}, tokens=_tokens(case), klass=area + "/" + case["qm"]))
        elif area != "none":
            ref = kd.ref_range(area, p / sn, vms[iv])
            if ref is None:
                cnt["not_judged_documented_area_empty"] = cnt.get("not_judged_documented_area_empty", 0) + 1
                continue
            qpu = q / sn
            t = TOL + tq / sn
            if not (ref[0] - t <= qpu <= ref[1] + t) and "q" not in done:
                done.add("q")
                toks = _tokens(case)
                if area.startswith(("pqv4120", "qv4120")) and vms[iv] == 96.0 / 110:
                    mq = kd.Q4120[2 if area == "qv4120" else int(area[8])][0]
                    if abs(qpu - mq) <= 1e-9 or ref[0] > qpu:
                        toks.append("explained=qv4120_vm_equals_min_vm_falls_through_to_above_max_branch")
                vs.append(core.violation("q_within_area", {"element": {"sn_mva": sn, "p_start_pu": p0, "q_start_pu": q0, "vm_pu": vms[iv]}, "p_pu": p / sn, "q_pu": qpu,
                                                           "documented_q_range_pu": list(ref), "when": when}, tokens=toks, klass=area + "/" + case["qm"]))
    return n


def _tokens(case):
    return ["area=" + case["area"], "qm=" + case["qm"], "sat=%s" % case["sat"], "q_prio=%s" % case["q_prio"], "damp=%s" % case["damp"],
            "mode=" + case["mode"], "rmo=%s" % case["rmo"]]


def _start_inside(case, el, vms):
    sn, p, q, iv = el
    sat = _sat_value(case, sn)
    if not math.isnan(sat):
        return math.hypot(p * sn, q * sn) <= sat
    if case["area"] == "none":
        return True
    ref = kd.ref_range(case["area"], p, vms[iv])
    return ref is not None and ref[0] <= q <= ref[1]


def _reset(net, elems, idxs):
    net.sgen.loc[idxs, "p_mw"] = [e[1] * e[0] for e in elems]
    net.sgen.loc[idxs, "q_mvar"] = [e[2] * e[0] for e in elems]


def _split(elems, idxs, level):
    """level 0: by voltage, level 1: by active power, level 2: single elements"""
    parts = {}
    for e, i in zip(elems, idxs):
        k = e[3] if level == 0 else (e[1] if level == 1 else i)
        parts.setdefault(k, ([], []))
        parts[k][0].append(e)
        parts[k][1].append(i)
    return [parts[k] for k in sorted(parts)]


def _run_group(case, net, elems, idxs, vms, out, level=0, expect_refusal=False):
    """one multi-element controller on `elems` (rows idxs of net.sgen); when a step raises the group is split by voltage, then by
    active power, then into single elements, each retried from its start values"""
    from pandapower.control.controller.DERController import DERController
    cnt, vs = out["counts"], out["violations"]
    sat = np.array([_sat_value(case, e[0]) for e in elems])
    try:
        area = kd.make_area(case["area"], raise_merge_overlap=case["rmo"])
        ctrl = DERController(net, list(idxs), q_model=kd.make_qmodel(case["qm"]), pqv_area=area,
                             saturate_sn_mva=sat if len(elems) > 1 else float(sat[0]), q_prio=case["q_prio"], damping_coef=case["damp"],
                             max_p_error=MAX_ERR, max_q_error=MAX_ERR)
    except Exception as e:
        cnt["constructor_raises_%s" % type(e).__name__] = cnt.get("constructor_raises_%s" % type(e).__name__, 0) + len(elems)
        return
    done = set()
    judge_each = case["damp"] == 1 or all(_start_inside(case, e, vms) for e in elems)
    try:
        steps = 0
        conv = False
        for it in range(MAX_ITER):
            conv = bool(ctrl.is_converged(net))
            if conv:
                break
            ctrl.control_step(net)
            steps += 1
            if judge_each:
                out["n"] += _judge(case, elems, idxs, net, vms, "after step %d" % steps, False, cnt, vs, done)
    except Exception as e:
        if len(elems) == 1 or (expect_refusal and isinstance(e, ValueError) and "max_q > min_q" in str(e)):
            k = "step_raises_%s" % type(e).__name__
            cnt[k] = cnt.get(k, 0) + len(elems)
            out["raise_kinds"].add("%s|%s|%s: %s" % (case["area"], case["qm"], type(e).__name__, str(e)[:60]))
            return
        _reset(net, elems, idxs)
        parts = _split(elems, idxs, level)
        while len(parts) == 1 and level < 2:
            level += 1
            parts = _split(elems, idxs, level)
        for pe, pi in parts:
            _run_group(case, net, pe, pi, vms, out, level + 1)
        return
    if not conv:
        cnt["not_converged_in_%d_iterations" % MAX_ITER] = cnt.get("not_converged_in_%d_iterations" % MAX_ITER, 0) + len(elems)
    elif not judge_each:
        out["n"] += _judge(case, elems, idxs, net, vms, "at convergence (damped, %d steps)" % steps, True, cnt, vs, done)
    cnt["control_steps"] = cnt.get("control_steps", 0) + steps * len(elems)
    for e, i in zip(elems, idxs):
        moved = abs(net.sgen.q_mvar.at[i] - e[2] * e[0]) > 1e-12 or abs(net.sgen.p_mw.at[i] - e[1] * e[0]) > 1e-12
        out["sig"].append("%s|%s|%s|%s|%s|%s|%s|moved=%d" % (case["area"], case["qm"], case["sat"], case["q_prio"], case["damp"], case["mode"], e, moved))


def _case_net(case, vms):
    from pandapower.create import create_sgens
    elems = _elements(case, vms)
    net = _net_for(vms)
    idxs = list(create_sgens(net, [1 + e[3] for e in elems], p_mw=[e[1] * e[0] for e in elems], q_mvar=[e[2] * e[0] for e in elems],
                             sn_mva=[e[0] for e in elems]))
    return net, elems, idxs


def run_vector(case, vms):
    out = {"violations": [], "n": 0, "counts": {}, "sig": [], "raise_kinds": set(), "outcome": "ok"}
    net, elems, idxs = _case_net(case, vms)
    # elements whose documented area is empty (PQ and QV part disjoint, p / vm outside the polygon) get their own controller: with
    # raise_merge_overlap=True the documented answer is a ValueError for all of them, which would take the whole vector down
    a = ([], [])
    b = ([], [])
    for e, i in zip(elems, idxs):
        ref = kd.ref_range(case["area"], e[1], vms[e[3]]) if case["area"] != "none" else (0, 0)
        g = b if ref is None else a
        g[0].append(e)
        g[1].append(i)
    if a[0]:
        _run_group(case, net, a[0], a[1], vms, out)
    if b[0]:
        _run_group(case, net, b[0], b[1], vms, out, expect_refusal=case["rmo"] and case["area"].startswith("pqv4"))
    # a controller whose elements ALL start inside the area (grouping only: the area's own in_area picks them, the oracle stays the
    # independent reference): exercises the all-in-area path of _saturate together with the apparent power saturation
    if case["area"] != "none" and case["qm"] == "none" and a[0]:
        try:
            area = kd.make_area(case["area"], raise_merge_overlap=case["rmo"])
            ins = np.asarray(area.in_area(pd.Series([e[1] for e in a[0]]), pd.Series([e[2] for e in a[0]]), pd.Series([vms[e[3]] for e in a[0]])), dtype=bool)
        except Exception:
            ins = np.zeros(len(a[0]), dtype=bool)
        ie = [e for e, k in zip(a[0], ins) if k]
        ii = [i for i, k in zip(a[1], ins) if k]
        if ie and len(ie) < len(a[0]):
            _reset(net, ie, ii)
            out["counts"]["inside_only_groups"] = 1
            _run_group(case, net, ie, ii, vms, out)
    return out


def run_single(case, vms):
    out = {"violations": [], "n": 0, "counts": {}, "sig": [], "raise_kinds": set(), "outcome": "ok"}
    net, elems, idxs = _case_net(case, vms)
    for e, i in zip(elems, idxs):
        _run_group(case, net, [e], [i], vms, out, level=3)
    return out


_RC_BASE = None


def run_rc(case):
    """thorough: the same clauses through runpp(run_control=True) on a 2-bus net"""
    import pandapower as pp
    from pandapower.control.controller.DERController import DERController
    out = {"violations": [], "n": 0, "counts": {}, "sig": [], "raise_kinds": set(), "outcome": "ok"}
    cnt = out["counts"]
    global _RC_BASE
    if _RC_BASE is None:
        _RC_BASE = pp.create_empty_network()
        pp.create_buses(_RC_BASE, 2, 20.)
        pp.create_ext_grid(_RC_BASE, 0, vm_pu=1.0)
        pp.create_line_from_parameters(_RC_BASE, 0, 1, 1.0, 0.2, 0.1, 10., 1.)
    for vm_set in (0.9, 0.96, 1.0, 1.04, 1.1):
        for sn in (1.0,):
            for p_pu in (0.03, 0.12, 1.0):
                for q_pu in ((-0.45, 1.2) if case["qm"] == "none" else (0.0,)):
                    net = copy.deepcopy(_RC_BASE)
                    net.ext_grid["vm_pu"] = vm_set
                    i = pp.create_sgen(net, 1, p_mw=p_pu * sn, q_mvar=q_pu * sn, sn_mva=sn)
                    try:
                        DERController(net, i, q_model=kd.make_qmodel(case["qm"]), pqv_area=kd.make_area(case["area"]),
                                      saturate_sn_mva=_sat_value(case, sn), q_prio=case["q_prio"], damping_coef=case["damp"])
                        pp.runpp(net, run_control=True)
                    except Exception as e:
                        k = "run_control_raises_%s" % type(e).__name__
                        cnt[k] = cnt.get(k, 0) + 1
                        continue
                    vm = float(net.res_bus.vm_pu.at[1])
                    done = set()
                    out["n"] += _judge(case, [(sn, p_pu, q_pu, 0)], [i], net, [vm], "after run_control", True, cnt, out["violations"], done)
                    out["sig"].append("rc|%s|%s|%s|%s|%s|%s|%s|%s|%s" % (case["area"], case["qm"], case["sat"], case["q_prio"], case["damp"], vm_set, sn, p_pu, q_pu))
    return out


def run_case(case):
    tier_vms = kd.VM + (kd.VM_EXTRA if case.get("vm_extra") else [])
    if case["mode"] == "vector":
        out = run_vector(case, tier_vms)
    elif case["mode"] == "single":
        out = run_single(case, tier_vms)
    else:
        out = run_rc(case)
    rk = out.pop("raise_kinds")
    if rk:
        out["counts"]["cases_with_raising_steps"] = 1
        out["raise_examples"] = sorted(rk)[:3]
    return out


def explore(tier, seed):
    rep = core.Report(PROPERTY, LEVEL, tier, seed)
    core.warm(pf=(tier == "thorough"))
    import pandapower.control  # noqa: F401
    cases = gen_cases(tier)
    stride = int(os.environ.get("VERIF_CASE_STRIDE", "1") or 1)   # screening aid for seeded-mutation runs only: every n-th case
    if stride > 1:
        cases = cases[::stride]
        rep.exhaustive = False
        rep.extra["case_stride"] = stride
    if tier == "thorough":
        for c in cases:
            if c["mode"] == "vector":
                c["vm_extra"] = True
    _net_for(kd.VM)
    rep.rule = ("E1 full product: area object (%d) x q-model (%d) x (saturate_sn_mva, q_prio) in %s x damping {1,2} x element grid sn %s x p/sn %s x "
                "q/sn %s (with a q-model: %s) x vm %s (thorough, multi-element mode: + %d more break points); an element is distinct+non-trivial when its controller "
                "stepped without raising, keyed by (area, q-model, saturation, q_prio, damping, mode, element, moved flag)" % (
                    len(kd.area_keys()), len(kd.qmodel_keys()), _sat_prio(), kd.SN, kd.P_PU, kd.Q_PU, kd.Q_PU_SHORT, [round(v, 4) for v in kd.VM], len(kd.VM_EXTRA)))
    rep.extra["controller_configurations"] = len(cases)
    rep.extra["areas"] = len(kd.area_keys())
    rep.extra["q_models"] = len(kd.qmodel_keys())
    res = core.run_cases(rep, run_case, cases)
    ex = []
    for r in res:
        for s in r.get("raise_examples", []):
            if len(ex) < 400:
                ex.append(s)
    rep.extra["raising_step_kinds"] = sorted({e.split("|", 2)[0] + "|" + e.split("|", 2)[2] for e in ex})[:25]
    rep.assumptions = ["decided on the finite P/Q/V grids only (continuous domain)",
                       "tolerance 1e-9 relative; damped controllers started outside the capability are judged at convergence with damping*max_error",
                       "documented-empty areas, raising steps and non-constructible area classes are counted, not judged"]
    return rep


def replay(case):
    core.quiet()
    import pandapower.control  # noqa: F401
    return run_case(dict(case))["violations"]

"""C18 short-circuit results are consistent with the IEC 60909 relations - E1 deviation-bounded enumeration
of networks x full product of calc_sc configurations, relation + reference-model + differential oracles."""
import copy
import itertools
import math
import time

import numpy as np

from mc import core, netalpha as na, f_sc, f_scref

PROPERTY = "C18"
LEVEL = "exploration"
META = {
    "text": "Every network reachable from 4 base nets with short-circuit data by <=2 deviations from a menu of short-circuit relevant bus elements (second ext_grid, synchronous generators with/without power-station transformer, full-converter sgens, motors, ward, shunt, an LV feeder) is solved by the real calc_sc for case max/min x fault 3ph/2ph/1ph under the product of net.sn_mva {1,100} x inverse_y {True,False} x bus argument (all, every single bus, every pair) and kappa_method {B,C} x topology {auto,radial,meshed}; on every result row the IEC 60909 relations between ikss, skss, ip, rk/xk are evaluated, rk+j*xk is compared with an independently built dense nodal model of the documented element short-circuit impedances, and all results are compared across sn_mva / inverse_y / bus argument. Exhaustive within that bound, no sampling.",
    "note": "Trusted: mc/f_scref.py (element models from doc/shortcircuit and IEC 60909-0: ext_grid, line with temperature correction, transformer with K_T, three-winding transformer, generator with K_G, power station unit K_S/K_SO, motor) and the c-factor table. Nets with elements that have no documented short-circuit model (ward) are only judged by the relation and invariance clauses. For the generator terminal bus of a power station unit Un in the ikss relation is the generator rated voltage (IEC 60909-0 6.7.2). ip for 1ph is not implemented by calc_sc (outcome, not judged).",
    "technique": "bounded exhaustive input/configuration enumeration (deviation-bounded k<=2, full option product) on the real calc_sc with relation, reference-model and metamorphic invariance oracles",
    "design_ref": "DESIGN.md §3 E1, §4 C18",
}

RTOL = 1e-8
CASES = ["max", "min"]
FAULTS = ["3ph", "2ph", "1ph"]
COLS = {"3ph": ["ikss_ka", "skss_mw", "ip_ka", "ith_ka", "rk_ohm", "xk_ohm"],
        "2ph": ["ikss_ka", "skss_mw", "ip_ka", "ith_ka", "rk_ohm", "xk_ohm"],
        "1ph": ["ikss_ka", "rk0_ohm", "xk0_ohm", "rk_ohm", "xk_ohm"]}


def _close(a, b, rtol=RTOL):
    if a is None or b is None:
        return a is b
    na_, nb_ = (a != a), (b != b)
    if na_ or nb_:
        return na_ and nb_
    if math.isinf(a) or math.isinf(b):
        return a == b
    return abs(a - b) <= rtol * max(abs(a), abs(b)) + 1e-12


def _net_for(net0, sn):
    net = copy.deepcopy(net0)
    net.sn_mva = float(sn)
    return net


def _kw(fault, cfg):
    kw = dict(fault=fault, case=cfg["case"], inverse_y=cfg["inv"], lv_tol_percent=cfg["lv_tol"])
    if cfg["bus"] is not None:
        kw["bus"] = cfg["bus"] if len(cfg["bus"]) > 1 else cfg["bus"][0]
    if fault != "1ph":
        kw.update(ip=True, ith=True, kappa_method=cfg["kappa"], topology=cfg["topo"])
    return kw


def _row(res, b, cols):
    return [float(res.at[b, c]) if c in res.columns else None for c in cols]


PAIRS = {"rk_ohm": "xk_ohm", "xk_ohm": "rk_ohm", "rk0_ohm": "xk0_ohm", "xk0_ohm": "rk0_ohm"}


def _row_diffs(b, cols, ra, rb):
    """columns of one bus that differ; r/x of an impedance are compared as one complex number (a zero-sequence path blocked
    with 1e20*baseMVA leaves |x| ~ 1e4 ohm and r as a difference of huge numbers: only |Z| carries 1e-8 accuracy)"""
    va, vb = dict(zip(cols, ra)), dict(zip(cols, rb))
    out = []
    for c in cols:
        x, y = va[c], vb[c]
        if _close(x, y):
            continue
        p = PAIRS.get(c)
        if p in va and all(v is not None and v == v and not math.isinf(v) for v in (x, y, va[p], vb[p])):
            za, zb = complex(x, va[p]), complex(y, vb[p])
            if abs(za - zb) <= RTOL * max(abs(za), abs(zb)):
                continue
        out.append((b, c, x, y))
    return out


def _has_current_source(net, case):
    return case == "max" and len(net.sgen) > 0 and bool(net.sgen.in_service.any())


def _ps_gen_vn(net):
    """bus -> generator rated voltage for generator terminal buses of power station units (incl. fused buses)"""
    out = {}
    g = net.gen
    if len(g) and "power_station_trafo" in g.columns:
        node = f_scref.fused(net)
        for i in g.index:
            if bool(g.at[i, "in_service"]) and not f_scref._na(g.at[i, "power_station_trafo"]) and int(g.at[i, "bus"]) in node:
                n = node[int(g.at[i, "bus"])]
                for b, nn in node.items():
                    if nn == n:
                        out[b] = float(g.at[i, "vn_kv"])
    return out


def plan(fault, buses, hot_pair, full):
    """calc_sc configurations of one (net, case, fault, lv_tol): list of dict(sn, inv, bus, kappa, topo).
    buses: the bus labels of the net.  full: every (sn, inverse_y) x (all, each single bus, each pair); otherwise (k=2 cases of
    the quick tier) all four (sn, inverse_y) with bus=None, each single bus + the hot pair under (1, False) and (100, True),
    the hot pair under (100, False)."""
    buses = list(buses)
    singles = [[b] for b in buses]
    pairs = [list(p) for p in itertools.combinations(buses, 2)] if full else [list(hot_pair)]
    cfgs = []
    for sn, inv in itertools.product((1, 100), (True, False)):
        if full or (sn, inv) in ((1, False), (100, True)):
            args = [None] + singles + pairs
        else:
            args = [None] + ([list(hot_pair)] if (sn, inv) == (100, False) else [])
        for bus in args:
            if sn == 1 and inv and bus is None:
                continue
            cfgs.append({"sn": sn, "inv": inv, "bus": bus, "kappa": "C", "topo": "auto"})
    if fault != "1ph":
        for kappa, topo in itertools.product(("B", "C"), ("auto", "radial", "meshed")):
            if (kappa, topo) != ("C", "auto"):
                cfgs.append({"sn": 1, "inv": True, "bus": None, "kappa": kappa, "topo": topo})
            if full or (kappa, topo) in (("B", "meshed"), ("C", "radial")):
                cfgs.append({"sn": 100, "inv": False, "bus": list(hot_pair), "kappa": kappa, "topo": topo})
    return cfgs


def _judge_rows(net, fault, case, lv_tol, res, ref3, cfgname, toks0, kappa_only=False):
    """relation clauses on one result table. ref3: 3ph table of the same net/case (for the 2ph clause) or None."""
    vs = []
    cs = _has_current_source(net, case)
    psvn = _ps_gen_vn(net)
    for b in res.index:
        b = int(b)
        ikss = float(res.at[b, "ikss_ka"])
        if ikss != ikss:
            continue
        un = float(net.bus.at[b, "vn_kv"])
        c = f_scref.c_factor(un, case, lv_tol)
        rk, xk = float(res.at[b, "rk_ohm"]), float(res.at[b, "xk_ohm"])
        zk = abs(complex(rk, xk))
        un_src = psvn.get(b, un)
        i1 = c * un_src / (math.sqrt(3.) * zk) if zk > 0 else float("nan")
        toks = toks0 + ["bus_kv=%g" % un] + (["ps_gen_bus"] if b in psvn else [])
        if not kappa_only:
            if fault == "3ph" and not cs and not _close(ikss, i1):
                vs.append(core.violation("ikss_formula", {"bus": b, "ikss_ka": ikss, "c": c, "un_kv": un_src, "rk_ohm": rk, "xk_ohm": xk,
                                                          "expected": i1, "cfg": cfgname}, tokens=toks, klass="ikss"))
            if fault == "3ph":
                skss = float(res.at[b, "skss_mw"])
                if not _close(skss, math.sqrt(3.) * un * ikss):
                    # recorded defect C18-skss-psgen-sgen: the whole sum IKSS1+IKSS2 is scaled by UrG/Un in SKSS, only IKSS1 in ikss
                    pred = math.sqrt(3.) * un * (i1 + (ikss - i1) * un_src / un)
                    ex = ["explained=skss_scales_converter_part"] if (b in psvn and cs and _close(skss, pred)) else []
                    vs.append(core.violation("skss", {"bus": b, "skss_mw": skss, "ikss_ka": ikss, "un_kv": un,
                                                      "expected": math.sqrt(3.) * un * ikss, "cfg": cfgname}, tokens=toks + ex, klass="skss"))
            if fault == "2ph" and not cs and ref3 is not None:
                i3 = float(ref3.at[b, "ikss_ka"])
                if not _close(ikss, math.sqrt(3.) / 2. * i3):
                    vs.append(core.violation("ikss_2ph", {"bus": b, "ikss_2ph": ikss, "ikss_3ph": i3, "cfg": cfgname}, tokens=toks, klass="2ph"))
        if fault in ("3ph", "2ph") and "ip_ka" in res.columns:
            ip = float(res.at[b, "ip_ka"])
            kap = ip / (math.sqrt(2.) * ikss) if ikss > 0 else float("nan")
            ok = (kap == kap) and 1.02 - 1e-9 <= kap <= 2. + 1e-9
            if not ok and cs and ip == ip:
                # with converter contributions IEC adds sqrt(2)*I''k of the converters: kappa of the voltage-source part
                f = 1. if fault == "3ph" else math.sqrt(3.) / 2.
                ivs = i1 * f
                k2 = (ip / math.sqrt(2.) - (ikss - ivs)) / ivs if ivs > 0 else float("nan")
                ok = (k2 == k2) and 1.02 - 1e-7 <= k2 <= 2. + 1e-7
            if not ok:
                vs.append(core.violation("ip_kappa", {"bus": b, "ip_ka": ip, "ikss_ka": ikss, "kappa": kap, "cfg": cfgname},
                                         tokens=toks, klass="kappa"))
    return vs


def run_case(case):
    t_cpu = time.process_time()
    out = _run_case(case)
    out.setdefault("counts", {})["cpu_ms_total"] = int(1000 * (time.process_time() - t_cpu))
    return out


def _run_case(case):
    net0 = f_sc.build(case)
    fault, cse, lv_tol = case["fault"], case["case"], case.get("lv_tol", 10)
    out = {"violations": [], "n": 0, "counts": {}, "sig": None}
    nets = {1: _net_for(net0, 1), 100: _net_for(net0, 100)}
    cols = COLS[fault]
    toks0 = ["fault=" + fault, "case=" + cse] + sorted(set(
        "dev=" + (d[0] if d[0] != "set" else "set:%s.%s=%s" % (d[1], d[3], d[4])) for d in case["devs"]))

    def cnt(k):
        out["counts"][k] = out["counts"].get(k, 0) + 1

    def run(cfg, fresh=False, flt=None):
        net = _net_for(net0, cfg["sn"]) if fresh else nets[cfg["sn"]]
        c = dict(cfg, case=cse, lv_tol=lv_tol)
        out["n"] += 1
        return f_sc.run_sc(net, **_kw(flt or fault, c))

    refcfg = {"sn": 1, "inv": True, "bus": None, "kappa": "C", "topo": "auto"}
    oc, ref = run(refcfg, fresh=True)
    cnt("outcome_" + oc)
    if oc != "ok":
        out["outcome"] = oc
        return out
    labels = [int(b) for b in net0.bus.index]
    bmap = {}
    for d in case["devs"]:
        if d[0] == "sc_reindex":
            bmap = f_sc.bus_map(len(labels), d[1])
    live = [int(b) for b in ref.index if ref.at[b, "ikss_ka"] == ref.at[b, "ikss_ka"]]
    out["outcome"] = "ok"
    if live:
        out["sig"] = "%s|%s|%s|%s|%d|%d" % (case["base"], core.dhash(case["devs"]), cse, fault, lv_tol, len(live))
    if fault == "1ph":
        cnt("ip_not_implemented_1ph")
    ref3 = None
    if fault == "2ph":
        oc3, ref3 = run(refcfg, fresh=True, flt="3ph")
        if oc3 != "ok":
            ref3 = None
    # relation clauses on the reference configuration
    out["violations"] += _judge_rows(net0, fault, cse, lv_tol, ref, ref3, "ref", toks0)
    # Thevenin impedance against the independent model
    why = f_scref.unsupported(net0)
    if why:
        cnt("thevenin_not_modelled")
    else:
        Z = f_scref.thevenin(net0, cse, lv_tol)
        Zbug = None
        psvn = _ps_gen_vn(net0)
        for b in ref.index:
            b = int(b)
            z = Z.get(b)
            rk, xk = float(ref.at[b, "rk_ohm"]), float(ref.at[b, "xk_ohm"])
            if z is None:
                bad = rk == rk or xk == xk
                pred = None
            else:
                bad = not (abs(complex(rk, xk) - z) <= 1e-8 * abs(z)) if rk == rk and xk == xk else True
                pred = [z.real, z.imag]
            cnt("thevenin_rows")
            if bad:
                toks = list(toks0) + (["ps_gen_bus"] if b in psvn else [])
                if Zbug is None:
                    Zbug = (f_scref.thevenin(net0, cse, lv_tol, bus_level_k=True),
                            f_scref.thevenin(net0, cse, lv_tol, ignore_inside=True),
                            f_scref.thevenin(net0, cse, lv_tol, bus_level_k=True, ignore_inside=True))
                for zb, tok in zip((Zbug[0].get(b), Zbug[1].get(b), Zbug[2].get(b)),
                                   (["explained=gen_k_per_bus"], ["explained=ps_inside_ignored_1ph"],
                                    ["explained=gen_k_per_bus", "explained=ps_inside_ignored_1ph"])):
                    if zb is not None and rk == rk and abs(complex(rk, xk) - zb) <= 1e-8 * abs(zb):
                        toks += tok
                        break
                out["violations"].append(core.violation("thevenin", {"bus": b, "rk_ohm": rk, "xk_ohm": xk, "model": pred},
                                                        tokens=toks, klass="thevenin"))
    # invariance: sn_mva, inverse_y, bus argument; kappa bounds under every kappa_method/topology
    hot = [bmap.get(b, b) for b in (case.get("hot_pair") or [0, 1])]
    for cfg in plan(fault, labels, hot, case.get("full", False)):
        oc, res = run(cfg)
        name = "sn=%s,inv=%s,bus=%s,kappa=%s,topo=%s" % (cfg["sn"], cfg["inv"], cfg["bus"], cfg["kappa"], cfg["topo"])
        if oc != "ok":
            cnt("variant_" + oc)
            out["violations"].append(core.violation("variant_raises", {"cfg": name, "exception": oc},
                                                    tokens=toks0 + ["exc=" + oc], klass="raise"))
            continue
        same_kappa = (cfg["kappa"], cfg["topo"]) == ("C", "auto")
        ccols = cols if same_kappa else [c for c in cols if c not in ("ip_ka", "ith_ka")]
        want = labels if cfg["bus"] is None else cfg["bus"]
        if sorted(int(b) for b in res.index) != sorted(want):
            out["violations"].append(core.violation("result_rows", {"cfg": name, "rows": [int(b) for b in res.index], "bus": want},
                                                    tokens=toks0, klass="rows"))
            continue
        diffs = []
        for b in want:
            diffs += _row_diffs(b, ccols, _row(ref, b, ccols), _row(res, b, ccols))
        if diffs:
            # confirm on fresh deep copies (rules out history effects of re-using the net object)
            oc2, res2 = run(cfg, fresh=True)
            diffs = []
            if oc2 == "ok":
                for b in want:
                    diffs += _row_diffs(b, ccols, _row(ref, b, ccols), _row(res2, b, ccols))
            else:
                cnt("history_dependent_outcome")
            if not diffs:
                cnt("difference_not_reproduced_on_fresh_copy")
        if diffs:
            kinds = []
            if cfg["sn"] != 1:
                kinds.append("sn_mva")
            if not cfg["inv"]:
                kinds.append("inverse_y")
            if cfg["bus"] is not None:
                kinds.append("bus_subset")
            b, c, x, y = diffs[0]
            out["violations"].append(core.violation(
                "invariance", {"cfg": name, "bus": b, "column": c, "reference": x, "variant": y, "n_diffs": len(diffs)},
                tokens=toks0 + ["varies=" + k for k in kinds] + ["col=" + c], klass="invariance:" + "+".join(kinds)))
        if not same_kappa:
            out["violations"] += _judge_rows(net0, fault, cse, lv_tol, res, None, name, toks0 + ["kappa=" + cfg["kappa"], "topo=" + cfg["topo"]],
                                             kappa_only=True)
    return out


def gen_cases(tier):
    cases = []
    for b in f_sc.BASES:
        menu = f_sc.menu(b, tier)
        h0, h1 = f_sc.HOT[b]
        for devs in na.subsets(menu, 2, compatible=f_sc.compatible):
            devs = [list(d) for d in devs]
            zero_seq_only = any(f_sc.zero_sequence_only(d) for d in devs)
            has_lv = any(d[0] == "sc_lv" for d in devs)
            nb = 4 + (2 if has_lv else 0)
            for cse in CASES:
                for fault in (["1ph"] if zero_seq_only else FAULTS):
                    for lv_tol in ((10, 6) if has_lv else (10,)):
                        full = tier == "thorough" or len(devs) <= 1
                        cases.append({"base": b, "devs": devs, "case": cse, "fault": fault, "lv_tol": lv_tol,
                                      "hot_pair": [min(h0, h1), max(h0, h1)] if not has_lv else [h0, nb - 1], "full": full})
    cases.sort(key=lambda c: len(c["devs"]))
    return cases


def explore(tier, seed):
    rep = core.Report(PROPERTY, LEVEL, tier, seed)
    core.warm(pf=False, sc=True)
    cases = gen_cases(tier)
    rep.rule = ("E1: every subset of <=2 pairwise-compatible deviations from the short-circuit element menu (mc/f_sc.menu) of bases %s "
                "x case {max,min} x fault {3ph,2ph,1ph} (x lv_tol {10,6} when an LV feeder is present); inside each case the full "
                "product sn_mva {1,100} x inverse_y {T,F} x bus argument (all, each single bus, %s) and kappa_method {B,C} x topology "
                "{auto,radial,meshed}; a case is distinct+non-trivial when the reference calc_sc succeeded with >=1 supplied fault bus, "
                "keyed by (base, deviation hash, case, fault, lv_tol)" % (f_sc.BASES, "every pair" if tier == "thorough" else "every pair for k<=1, the hot pair for k=2"))
    rep.extra["bound_k"] = 2
    rep.extra["menu_sizes"] = {b: len(f_sc.menu(b, tier)) for b in f_sc.BASES}
    rep.extra["cases"] = len(cases)
    core.run_cases(rep, run_case, cases)
    rep.assumptions = ["relative tolerance 1e-8 on every compared quantity", "values outside the finite alphabets are not covered",
                       "Thevenin clause only for nets whose elements all have a documented short-circuit model (no ward)",
                       "ip/ith are not requested for 1ph (not implemented in calc_sc)"]
    return rep


def replay(case):
    return run_case(case)["violations"]

"""C26 topology graphs represent exactly the energizing connections - E1 x full option product, set-based reference."""
import hashlib

import networkx as nx

from mc import core, netalpha as na, j_topo as jt

PROPERTY = "C26"
LEVEL = "exploration"
META = {
    "text": "For every net reachable from 6 base nets (incl. two parallel three-winding transformers) by <=2 topology deviations (every bus-bus / line / trafo / trafo3w switch position, in_service flag of buses and branches, parallel line, impedance, dcline, impedance switch, extra bus) the real create_nxgraph is called under the Cartesian product of respect_switches x include_* (bool and explicit index lists) x nogobuses x notravbuses x multi x include_out_of_service and its node set, adjacency (edge multiset with keys, edge set for multi=False) and weights are compared with a reference graph written from the docstring with plain Python sets; connected_components must partition the node set into the BFS components of the reference (notravbuses: reached, not traversed) and calc_distance_to_bus must equal Dijkstra on the reference for every source bus; exhaustive within the bound, no sampling.",
    "note": "Trusted: mc/j_topo.py reference (docstring semantics; notravbuses read as 'reachable but not traversed' as pinned by test_distance and the code comment; include_out_of_service=True read as including out-of-service branches as well as buses, as used by the plotting module; include_switches index lists read like the other include_* options). tcsc/vsc/line_dc, calc_branch_impedances, trafo_length_km, graph_tool and networks beyond 6 buses are not covered.",
    "technique": "bounded exhaustive input enumeration (deviation-bounded nets x full option product) of the real create_nxgraph / connected_components / calc_distance_to_bus against a set-based reference graph",
    "design_ref": "DESIGN.md §3 E1, §4 C26",
}

TOL = 1e-9
CAP = 8


OPT_DEFAULTS = {"respect_switches": True, "multi": True, "include_out_of_service": False, "nogobuses": None,
                "notravbuses": None, "include_lines": True, "include_impedances": True, "include_dclines": True,
                "include_trafos": True, "include_trafo3ws": True, "include_switches": True}


def _h(x):
    return hashlib.sha1(repr(x).encode()).hexdigest()[:10]


def _kw(o):
    kw = dict(o)
    for k in ("nogobuses", "notravbuses"):
        if kw[k] is not None:
            kw[k] = set(kw[k])
    return kw


def _key(k):
    return (str(k[0]), int(k[1]))


def compare_graph(mg, o, nodes, adj, edges):
    """-> list of (clause, detail)"""
    out = []
    multi = o["multi"]
    if multi != isinstance(mg, nx.MultiGraph):
        out.append(("graph_type", {"multi": multi, "type": type(mg).__name__}))
    got_nodes = {int(n) for n in mg.nodes()}
    if got_nodes != nodes:
        out.append(("node_set", {"missing": sorted(nodes - got_nodes), "extra": sorted(got_nodes - nodes)}))
        return out
    # adjacency (directed view: notravbuses have no outgoing adjacency)
    for u in sorted(nodes):
        if multi:
            got = sorted((int(v), _key(k)) for v, kd in mg.adj[u].items() for k in kd)
            exp = sorted((v, k) for v, k, _ in adj[u])
        else:
            got = sorted(int(v) for v in mg.adj[u])
            exp = sorted({v for v, _, _ in adj[u]})
        if got != exp:
            out.append(("edge_set", {"at_bus": u, "got": got, "expected": exp}))
            return out
    if multi:
        for u in sorted(nodes):
            for v, kd in mg.adj[u].items():
                for k, data in kd.items():
                    w = [w for vv, kk, w in adj[u] if vv == int(v) and kk == _key(k)][0]
                    if abs(float(data.get("weight", float("nan"))) - w) > TOL:
                        out.append(("edge_weight", {"edge": [u, int(v), list(_key(k))], "got": data.get("weight"),
                                                    "expected": w}))
                        return out
    if not o["notravbuses"]:
        # public edge view
        if multi:
            got = sorted((min(int(a), int(b)), max(int(a), int(b)), _key(k)) for a, b, k in mg.edges(keys=True))
            exp = sorted((min(a, b), max(a, b), k) for a, b, k, _ in edges)
        else:
            got = sorted({(min(int(a), int(b)), max(int(a), int(b))) for a, b in mg.edges()})
            exp = sorted({(min(a, b), max(a, b)) for a, b, _, _ in edges})
        if got != exp:
            out.append(("edge_set", {"view": "edges()", "got": got, "expected": exp}))
    return out


def compare_components(top, mg, nodes, adj, notrav_used, N):
    """connected_components(mg, notravbuses=N) against the reference clusters"""
    out = []
    try:
        got = [set(int(x) for x in c) for c in (top.connected_components(mg, notravbuses=set(N)) if N
                                                 else top.connected_components(mg))]
    except Exception as e:
        return [("components_raise", {"exc": type(e).__name__, "msg": str(e)[:200], "notravbuses": sorted(N)})]
    comps, pairs = jt.ref_components(nodes, adj, N)
    Nset = set(N)
    cover = {}
    for c in got:
        for n in c - Nset:
            cover[n] = cover.get(n, 0) + 1
    free = nodes - Nset
    bad = sorted(n for n in free if cover.get(n, 0) != 1)
    extra = sorted(set().union(*got) - nodes) if got else []
    if bad or extra:
        out.append(("components_partition", {"not_exactly_once": bad, "unknown_nodes": extra, "notravbuses": sorted(N),
                                             "got": [sorted(c) for c in got]}))
        return out
    gs = {frozenset(c) for c in got}
    if notrav_used and N:
        # graph already built with notravbuses: no adjacency leaves a notravbus, pairs cannot be seen
        exp = set(comps)
        ok = exp <= gs and gs <= exp | pairs
    else:
        exp = set(comps) | pairs
        ok = gs == exp
    if not ok:
        out.append(("components", {"got": sorted(sorted(c) for c in gs), "expected": sorted(sorted(c) for c in exp),
                                   "notravbuses": sorted(N)}))
    return out


def compare_distance(res, exp):
    got = {int(k): float(v) for k, v in res.items()}
    if set(got) != set(exp):
        return {"reached_got": sorted(got), "reached_expected": sorted(exp)}
    worst = max((abs(got[k] - exp[k]), k) for k in exp)
    if worst[0] > TOL:
        return {"bus": worst[1], "got": got[worst[1]], "expected": exp[worst[1]], "all_got": got, "all_expected": exp}
    return None


def _viol(case, o, clause, detail, extra_tokens=()):
    toks = ["rs=%s" % o.get("respect_switches"), "multi=%s" % o.get("multi"), "oos=%s" % o.get("include_out_of_service"),
            "nogo=%s" % ("set" if o.get("nogobuses") else "None"), "notrav=%s" % ("set" if o.get("notravbuses") else "None")]
    for k in jt.KINDS:
        v = o.get(jt.OPTKEY[k], True)
        toks.append("%s=%s" % (jt.OPTKEY[k], v if isinstance(v, bool) else "list"))
    toks += list(extra_tokens)
    d = dict(detail)
    d["opt"] = o
    only = {k: v for k, v in o.items() if k not in OPT_DEFAULTS or v != OPT_DEFAULTS[k]}   # defaults omitted: minimal first
    return core.violation(clause, d, case={"base": case["base"], "devs": case["devs"], "only": only},
                          tokens=toks, klass=clause)


EXPL_ORDER = "explained=notrav_pruned_before_out_of_service_removal"


EXPL_SW = "explained=include_switches_list_treated_as_true"


def _explain(T, o, test):
    """tokens of the recorded defects that reproduce the observation: test(o') is evaluated with the reference
    options as given and - when include_switches is an index list - with include_switches=True"""
    if test(o):
        return [EXPL_ORDER]
    if isinstance(o["include_switches"], list) and o["include_switches"]:
        o2 = dict(o)
        o2["include_switches"] = True
        if test(o2):
            return [EXPL_ORDER, EXPL_SW]
    return []


def _emulate_order_defect(T, o):
    """Recompute what the recorded defect does: create_nxgraph empties the adjacency of the notravbuses FIRST and
    removes the out-of-service buses AFTERWARDS with Graph.remove_node, which walks adj[dead] and deletes the
    reverse entries.  A dead bus next to a notravbus -> KeyError (reverse entry already gone); a dead notravbus ->
    its neighbours keep a dangling entry to a node that no longer exists.
    Returns None (defect not triggered), "KeyError", or (nodes, adj) with the dangling entries."""
    if not o["notravbuses"] or o["include_out_of_service"]:
        return None
    nogo = set(o["nogobuses"] or ())
    notrav = set(o["notravbuses"])
    dead = [b for b, s in T["bus"] if not s and b not in nogo]
    if not dead:
        return None
    nodes = {b for b, _ in T["bus"] if b not in nogo}
    adj = {n: [] for n in nodes}
    for u, v, key, w in jt.ref_edges(T, o):
        if u in nodes and v in nodes:
            adj[u].append((v, key, w))
            if u != v:
                adj[v].append((u, key, w))
    for b in notrav:
        if b in adj:
            adj[b] = []
    triggered = False
    for d in dead:
        nbrs = {v for v, _, _ in adj[d]}
        for u in nbrs:
            if u not in adj or not any(v == d for v, _, _ in adj[u]):
                return "KeyError"
            adj[u] = [e for e in adj[u] if e[0] != d]
        del adj[d]
        nodes.discard(d)
        if any(v == d for lst in adj.values() for v, _, _ in lst):
            triggered = True
    return (nodes, adj) if triggered else None


def eval_graph(top, net, T, case, o, out, sigs, do_dist_g):
    """one create_nxgraph call + every graph-level clause"""
    out["n"] += 1
    nodes, adj, edges = jt.ref_graph(T, o)
    conflict = bool(o["nogobuses"] and o["notravbuses"] and set(o["nogobuses"]) & set(o["notravbuses"]))
    try:
        mg = top.create_nxgraph(net, **_kw(o))
    except Exception as e:
        name = type(e).__name__
        if conflict:
            out["counts"]["raise_nogo_is_notrav"] = out["counts"].get("raise_nogo_is_notrav", 0) + 1
            return
        toks = ["exc=" + name]
        if name == "KeyError":
            toks += _explain(T, o, lambda oo: _emulate_order_defect(T, oo) == "KeyError")
        out["violations"].append(_viol(case, o, "raises", {"exc": name, "msg": str(e)[:200]}, toks))
        return
    if conflict:
        # contradictory request; whatever is returned is not judged
        out["counts"]["nogo_is_notrav_returned"] = out["counts"].get("nogo_is_notrav_returned", 0) + 1
        return
    vs = compare_graph(mg, o, nodes, adj, edges)
    for clause, detail in vs:
        toks = []
        if clause == "edge_set" and isinstance(o["include_switches"], list):
            o2 = dict(o)
            o2["include_switches"] = True
            n2, a2, e2 = jt.ref_graph(T, o2)
            if not compare_graph(mg, o2, n2, a2, e2):
                toks.append(EXPL_SW)
        if clause == "edge_set" and not toks:
            def same_as_emulated(oo):
                emu = _emulate_order_defect(T, oo)
                return isinstance(emu, tuple) and not compare_graph(mg, oo, emu[0], emu[1], [])
            toks += _explain(T, o, same_as_emulated)
        out["violations"].append(_viol(case, o, clause, detail, toks))
    if vs:
        return
    sigs.add("%s|%s" % (case["base"], _h((sorted(nodes), sorted((min(a, b), max(a, b), k) for a, b, k, _ in edges),
                                             sorted(o["notravbuses"] or ()), o["multi"]))) if edges else None)
    # connected components
    used = bool(o["notravbuses"])
    Ns = [tuple(o["notravbuses"])] if used else [()] + [(b,) for b in sorted(nodes)][:3]
    if not used and len(nodes) >= 2:
        s = sorted(nodes)
        Ns.append((s[0], s[-1]))
        Ns.append((s[1], s[-1]) if len(s) > 2 else (s[0],))
    for N in Ns:
        out["counts"]["cc_calls"] = out["counts"].get("cc_calls", 0) + 1
        for clause, detail in compare_components(top, mg, nodes, adj, used, N):
            out["violations"].append(_viol(case, o, clause, detail))
    # distances on the supplied graph
    if do_dist_g and o["multi"] and not o["nogobuses"] and not o["include_out_of_service"]:
        for src in sorted(nodes):
            for wname in ("weight", None):
                out["counts"]["dist_g_calls"] = out["counts"].get("dist_g_calls", 0) + 1
                try:
                    res = top.calc_distance_to_bus(net, src, weight=wname, g=mg)
                except Exception as e:
                    out["violations"].append(_viol(case, o, "distance_raises", {"exc": type(e).__name__, "src": src}))
                    continue
                bad = compare_distance(res, jt.ref_dijkstra(adj, src, weighted=wname is not None))
                if bad:
                    bad.update({"src": src, "weight": wname, "g": "supplied"})
                    out["violations"].append(_viol(case, o, "distance", bad))


def eval_distance(top, net, T, case, d, out):
    """calc_distance_to_bus building its own graph"""
    out["n"] += 1
    o = {"respect_switches": d["respect_switches"], "nogobuses": d["nogobuses"], "notravbuses": d["notravbuses"],
         "multi": True, "include_out_of_service": False}
    for k in jt.KINDS:
        o[jt.OPTKEY[k]] = True
    nodes, adj, _ = jt.ref_graph(T, o)
    src, wname = d["src"], d["weight"]
    conflict = bool(o["nogobuses"] and o["notravbuses"] and set(o["nogobuses"]) & set(o["notravbuses"]))
    od = dict(o)
    od.update({"src": src, "weight": wname, "dist": True})
    try:
        res = top.calc_distance_to_bus(net, src, respect_switches=d["respect_switches"],
                                       nogobuses=None if d["nogobuses"] is None else set(d["nogobuses"]),
                                       notravbuses=None if d["notravbuses"] is None else set(d["notravbuses"]),
                                       weight=wname)
    except Exception as e:
        name = type(e).__name__
        if conflict:
            out["counts"]["raise_nogo_is_notrav"] = out["counts"].get("raise_nogo_is_notrav", 0) + 1
        elif src not in nodes and name == "NodeNotFound":
            out["counts"]["dist_source_absent"] = out["counts"].get("dist_source_absent", 0) + 1
        else:
            toks = ["exc=" + name, "dist"]
            if name == "KeyError":
                emu = _emulate_order_defect(T, o)
                if emu == "KeyError":
                    toks.append(EXPL_ORDER)
                elif isinstance(emu, tuple) and src in emu[0]:
                    try:
                        jt.ref_dijkstra(emu[1], src)
                    except KeyError:      # the search walks into a dangling neighbour, as networkx does
                        toks.append(EXPL_ORDER)
            out["violations"].append(_viol(case, od, "raises", {"exc": name, "msg": str(e)[:200], "src": src}, toks))
        return
    if conflict:
        return
    if src not in nodes:
        out["violations"].append(_viol(case, od, "distance", {"src": src, "note": "source not in graph but distances returned",
                                                              "got": {int(k): float(v) for k, v in res.items()}}))
        return
    bad = compare_distance(res, jt.ref_dijkstra(adj, src, weighted=wname is not None))
    if bad:
        bad.update({"src": src, "weight": wname, "g": "own"})
        out["violations"].append(_viol(case, od, "distance", bad))


def distance_vectors(T, bsel):
    bopts = [None] + [[b] for b in bsel]
    out = []
    for src, _ in T["bus"]:
        for rs in (True, False):
            for nogo in bopts:
                for notrav in bopts:
                    for w in ("weight", None):
                        out.append({"src": src, "respect_switches": rs, "nogobuses": nogo, "notravbuses": notrav,
                                    "weight": w})
    return out


def run_case(case):
    import pandapower.topology as top
    net = jt.build(case)
    T = jt.extract(net)
    out = {"violations": [], "n": 0, "counts": {}, "outcome": "ok"}
    sigs = set()
    only = case.get("only")
    if only is not None:
        only = dict(OPT_DEFAULTS, **only)
        if only.get("dist"):
            eval_distance(top, net, T, case, only, out)
        else:
            eval_graph(top, net, T, case, {k: v for k, v in only.items()}, out, sigs, True)
    else:
        allb = [b for b, _ in T["bus"]]
        hot = [b for b in jt.HOT[case["base"]]][:2]
        if len(hot) < 2:
            hot = hot + [b for b in allb if b not in hot][:1]
        bsel = allb if case["bsel"] == "all" else hot if case["bsel"] == "hot2" else hot[:1]
        for o in jt.option_vectors(T, case["mode"], bsel):
            eval_graph(top, net, T, case, o, out, sigs, case.get("dist_g", False))
        out["counts"]["graph_builds"] = out["n"]
        for d in distance_vectors(T, allb if case["dist_bsel"] == "all" else hot):
            eval_distance(top, net, T, case, d, out)
        out["counts"]["distance_own_graph_calls"] = out["n"] - out["counts"]["graph_builds"]
        T2 = jt.extract(net)
        if T2 != T:
            raise RuntimeError("create_nxgraph / graph searches changed the net tables")
    sigs.discard(None)
    out["sig"] = sorted(sigs)
    # per net keep at most CAP violations of one (clause, explanation) class - every class stays visible, the rest is counted
    kept, seen = [], {}
    for v in out["violations"]:
        key = (v["clause"], tuple(t for t in v["tokens"] if t.startswith("explained=") or t.startswith("exc=")))
        seen[key] = seen.get(key, 0) + 1
        if seen[key] <= CAP:
            kept.append(v)
    if len(kept) < len(out["violations"]):
        out["counts"]["violations_beyond_cap_per_net_and_class"] = len(out["violations"]) - len(kept)
    out["counts"]["violating_evaluations"] = len(out["violations"])
    out["violations"] = kept
    return out


def gen_cases(tier):
    cases = []
    for c in jt.gen_nets(2):
        k = len(c["devs"])
        c = dict(c)
        if tier == "quick":
            if k <= 1:
                c.update({"mode": "full", "bsel": "hot2", "dist_g": True, "dist_bsel": "all"})
            else:
                c.update({"mode": "reduced", "bsel": "hot1", "dist_g": False, "dist_bsel": "hot"})
        else:
            if k <= 1:
                c.update({"mode": "full_rich", "bsel": "all", "dist_g": True, "dist_bsel": "all"})
            else:
                c.update({"mode": "full", "bsel": "hot2", "dist_g": True, "dist_bsel": "all"})
        cases.append(c)
    return cases


def explore(tier, seed):
    rep = core.Report(PROPERTY, LEVEL, tier, seed)
    core.quiet()
    import pandapower.topology  # noqa: F401  (import before forking)
    cases = gen_cases(tier)
    rep.rule = ("E1: every subset of <=2 compatible deviations from the topology menu (mc/j_topo.topo_menu: all switch "
                "positions, in_service flags, parallel line, impedance, dcline, impedance switch, extra bus) of bases %s; per "
                "net the Cartesian product respect_switches x multi x include_out_of_service x nogobuses{None,{b}} x "
                "notravbuses{None,{b}} x include_* over the element kinds present (True / False / [first] / [last]; thorough "
                "k<=1 also [all] / []); quick: full include product on nets with <=1 deviation, at most one non-True include "
                "option on 2-deviation nets; thorough: full product everywhere; plus calc_distance_to_bus for every source bus x "
                "respect_switches x nogobuses x notravbuses x weight. distinct_nontrivial = distinct (base, reference graph with "
                ">=1 edge, notravbuses, multi) among graphs that matched the reference" % (jt.BASES,))
    rep.extra["bound_k"] = 2
    rep.extra["nets"] = len(cases)
    rep.extra["menu_sizes"] = {b: len(jt.topo_menu(b)) for b in jt.BASES}
    core.run_cases(rep, run_case, cases)
    rep.assumptions = ["reference graph written from the docstrings (mc/j_topo.py), plain Python sets, no networkx",
                       "notravbuses: reachable but not traversed (test-pinned); include_out_of_service=True includes "
                       "out-of-service branches and buses; include_switches index list filters bus-bus switches",
                       "nogobuses and notravbuses naming the same bus is a contradictory request: counted, not judged",
                       "edge weights: line length_km, 0 otherwise; distances compared to 1e-9"]
    return rep


def replay(case):
    core.quiet()
    case = dict(case)
    case.setdefault("mode", "full")
    case.setdefault("bsel", "hot2")
    case.setdefault("dist_bsel", "all")
    return run_case(case)["violations"]

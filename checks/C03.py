"""C03 Energy conservation and non-negative losses of passive branches — E1 deviation-bounded enumeration."""
import copy

import numpy as np

from mc import core, netalpha as na, balance, a_net

PROPERTY = "C03"
LEVEL = "exploration"
TOL = 1e-5          # MW, global balance (NR stops at 1e-8 MVA per bus)
TOL_ID = 1e-9       # MW, identities computed from one voltage vector
META = {
    "text": "Every network reachable from 5 base nets by <=2 (thorough <=3) deviations from a passive-network menu (loads, generation, shunts/wards, parallel paths, open-ended lines, r=0 / g>0 / c=0 lines, phase shifters, lossless transformers, impedance switches, dc lines, islands, sn_mva) is solved by the real runpp/rundcpp under 5 AC option sets (single-slack fast back-substitution, numba general, PYPOWER, pandapower-Newton without lightsim2grid, pi transformer model) and DC; on every converged run total reported generation minus consumption is compared with the sum of reported branch losses, every passive branch is checked for pl_mw >= 0 and pl_mw = sum of its terminal powers, DC runs for zero losses; exhaustive within that bound.",
    "note": "Trusted: sign conventions in mc/balance.py. Passive = line r,g>=0; trafo/trafo3w vkr,pfe>=0; impedance with rft=rtf, xft=xtf, r,gf,gt>=0; bus-bus switch z_ohm>0. Asymmetric impedances and dc lines are only in the balance and in pl=p_from+p_to, never in the sign clause; 'all branch losses zero in DC' is judged on line/trafo/trafo3w/impedance/switch (a dc line's loss is an explicit parameter). Voltage-dependent loads only alone on a node (recorded defect C01-zip). DC runs with a shunt-type element at a bus with a voltage set-point != 1 are attributed to the recorded DC shunt reporting defect by an exact predicate.",
    "technique": "bounded exhaustive input enumeration (deviation-bounded, k<=2/3) on the real power flow with energy-balance and loss-sign invariants",
    "design_ref": "DESIGN.md §3 E1, §4 C03",
}

BASES = ["R3", "M4", "T3", "W3", "I2"]
OPTS = {
    "ac": {},                                   # lightsim2grid Newton when applicable + numba back-substitution
    "ac_nols": {"lightsim2grid": False},        # pandapower Newton + numba back-substitution
    "ac_nonumba": {"numba": False},             # PYPOWER pfsoln
    "ac_novdl": {"voltage_depend_loads": False},
    "ac_pi": {"trafo_model": "pi"},
    "dc": {"dc": True},
}
OPTSETS = {"R3": ["ac", "ac_nols", "ac_nonumba", "dc"], "M4": ["ac", "ac_nols", "ac_nonumba", "dc"],
           "T3": ["ac", "ac_nonumba", "ac_pi", "dc"], "W3": ["ac", "ac_nonumba", "ac_pi", "dc"],
           "I2": ["ac", "ac_nols", "ac_nonumba", "dc"]}


def extra_menu(b):
    """passive-branch parameter corners not in the shared structure menu + demand at the slack bus itself"""
    s = 20. if b == "M4" else 1.
    vE = float(na.base(b).ext_grid.vm_pu.iloc[0])
    hot = na.HOT[b][0]
    m = [["load", 0, 0.7 * s, 0.2 * s, "P", 1., True],
         # voltage-controlled generation at the reference bus itself (AC and DC slack dispatch at a shared bus)
         ["genx", 0, 0.6 * s, vE, -50. * s, 50. * s, 1., False, True, 0.],
         # conductance-only / susceptance-only shunt-type elements (the fast-path guard looks at GS and BS separately)
         ["shunt", hot, 0.1 * s, 0., 1, 1.0, True], ["wardx", hot, 0., 0., 0.2 * s, 0.], ["wardx", hot, 0.3 * s, 0.1 * s, 0., 0.]]
    if b == "W3":
        # a second / third three-winding transformer with different losses (results are stored grouped by side)
        m += [["t3x", 0, 1, 2, {"vkr_hv_percent": 0.6, "vkr_mv_percent": 0.1, "pfe_kw": 5., "vk_hv_percent": 12.}],
              ["t3x", 0, 3, 2, {"vkr_lv_percent": 0.9, "pfe_kw": 60., "i0_percent": 0.3}]]
    return m + _extra_menu(b)


def _extra_menu(b):
    if b == "R3":
        return [["set", "line", 1, "r_ohm_per_km", 0.], ["set", "line", 0, "g_us_per_km", 50.],
                ["set", "line", 1, "c_nf_per_km", 0.], ["linex", 0, 2, {"r_ohm_per_km": 0., "c_nf_per_km": 0.}],
                ["impx", 1, 2, 0.02, 0.05, {"gf_pu": 0.01, "gt_pu": 0.02, "bf_pu": 0.03}], ["impx", 0, 2, 0., 0.05, {}],
                ["switch", 1, 0, "l", False, 0.], ["set", "ext_grid", 0, "vm_pu", 0.97]]
    if b == "M4":
        return [["set", "line", 1, "r_ohm_per_km", 0.], ["set", "line", 4, "g_us_per_km", 5.],
                ["linex", 1, 3, {"r_ohm_per_km": 0., "c_nf_per_km": 0.}], ["switch", 2, 1, "l", False, 0.],
                ["impx", 1, 3, 0.002, 0.01, {"gf_pu": 0.001, "gt_pu": 0.002}], ["set", "ext_grid", 0, "va_degree", 20.]]
    if b == "T3":
        return [["set", "trafo", 0, "pfe_kw", 0.], ["set", "trafo", 0, "i0_percent", 0.], ["set", "trafo", 0, "vkr_percent", 0.],
                ["set", "trafo", 0, "tap_step_degree", 90.], ["set", "trafo", 0, "tap_pos", 9],
                ["trafo", 0, 2, {"shift_degree": 30., "vk_percent": 10.}], ["set", "line", 0, "r_ohm_per_km", 0.],
                ["set", "line", 0, "g_us_per_km", 50.]]
    if b == "W3":
        return [["set", "trafo3w", 0, "pfe_kw", 0.], ["set", "trafo3w", 0, "i0_percent", 0.],
                ["set", "trafo3w", 0, "vkr_mv_percent", 0.], ["set", "trafo3w", 0, "tap_pos", 5],
                ["set", "line", 0, "r_ohm_per_km", 0.], ["linex", 1, 3, {"g_us_per_km": 20.}]]
    if b == "I2":
        return [["set", "line", 2, "r_ohm_per_km", 0.], ["set", "line", 1, "g_us_per_km", 50.],
                ["switch", 3, 2, "l", True, 0.], ["set", "ext_grid", 1, "vm_pu", 1.03]]
    return []


def bus_menu(b):
    """bus elements on the collision buses; ZIP loads only via "zbus" (own new bus: alone on their node)"""
    hot = na.HOT[b]

    def drop(d):      # budget: variants that only matter for q-limits / scaling of results (C04, C01) are left out here
        return (d[0] == "load" and (d[4] != "P" or not d[6])) or (d[0] == "gen" and d[4] in ("tight", "none")) or \
            d[0] == "asym_sgen" or (d[0] == "sgen" and (d[4] != 1. or d[1] != hot[0])) or (d[0] == "storage" and d[2] < 0)
    m = [d for d in na.bus_element_menu(b, rich=False) if not drop(d)]
    s = 20. if b == "M4" else 1.
    b0 = na.HOT[b][0]
    m += [["zbus", b0, 1.0 * s, 0.4 * s, "Z", 1.], ["zbus", b0, 1.2 * s, 0.3 * s, "M2", 0.5],
          ["sgen", b0, 4.0 * s, 0.5 * s, 1., True],                     # reverse power flow into the slack
          ["genx", b0, 0.9 * s, 1.02, -0.2 * s, 0.2 * s, 0.5, False, True, 0.]]
    return m


# ----------------------------------------------------------------------------------------------
def _passive_rows(net):
    """table -> boolean array: rows whose series resistance and shunt conductance are non-negative"""
    out = {}
    if len(net.line):
        g = net.line["g_us_per_km"].values if "g_us_per_km" in net.line else np.zeros(len(net.line))
        out["line"] = (net.line.r_ohm_per_km.values >= 0) & (np.nan_to_num(g) >= 0)
    if len(net.trafo):
        out["trafo"] = (net.trafo.vkr_percent.values >= 0) & (net.trafo.pfe_kw.values >= 0)
    if len(net.trafo3w):
        t = net.trafo3w
        out["trafo3w"] = (t.vkr_hv_percent.values >= 0) & (t.vkr_mv_percent.values >= 0) & (t.vkr_lv_percent.values >= 0) & \
                         (t.pfe_kw.values >= 0)
    if len(net.impedance):
        i = net.impedance
        sym = (i.rft_pu.values == i.rtf_pu.values) & (i.xft_pu.values == i.xtf_pu.values)
        gok = np.ones(len(i), dtype=bool)
        for c in ("gf_pu", "gt_pu"):
            if c in i:
                gok &= np.nan_to_num(i[c].values) >= 0
        out["impedance"] = sym & (i.rft_pu.values >= 0) & gok
    return out


TERMS = {"line": ("p_from_mw", "p_to_mw"), "trafo": ("p_hv_mw", "p_lv_mw"), "trafo3w": ("p_hv_mw", "p_mv_mw", "p_lv_mw"),
         "impedance": ("p_from_mw", "p_to_mw"), "dcline": ("p_from_mw", "p_to_mw")}


def _explain_dc_shunt_total(net, mis):
    """recorded defect (C01-dc-shunt): in a DC power flow the impedance part of shunts / wards / xwards at a bus with
    a voltage set-point is reported with vm_set^2 while the DC equations use 1.0 p.u.; predicted global mismatch."""
    pred = 0.
    vm = net.res_bus.vm_pu
    rows = []
    if len(net.shunt):
        rows += [(int(b), float(p)) for b, p in zip(net.shunt.bus.values, net.res_shunt.p_mw.values)]
    for tab in ("ward", "xward"):
        if len(net[tab]):
            z = (net["res_" + tab].p_mw.values - net[tab].ps_mw.values * net[tab].in_service.values)
            rows += [(int(b), float(p)) for b, p, ins in zip(net[tab].bus.values, z, net[tab].in_service.values) if ins]
    for b, p in rows:
        v = vm.get(b, np.nan)
        if np.isfinite(v) and np.isfinite(p) and v and abs(v - 1.) > 1e-9:
            pred += p * (1. - 1. / (v * v))
    return abs(pred) > 1e-9 and abs(mis - pred) < 1e-6 + 1e-7 * abs(pred)


def judge(net, optname, opts, path):
    dc = bool(opts.get("dc"))
    vs = []
    base_toks = ["opt=" + optname, "path=" + path]
    passive = _passive_rows(net)
    loss_sum = 0.
    # ---- per branch: pl = sum of terminal powers, sign for passive rows, zero in DC
    for tab, cols in TERMS.items():
        if not len(net[tab]):
            continue
        r = net["res_" + tab]
        for pos, idx in enumerate(net[tab].index):
            if idx not in r.index:
                continue
            pl = r.at[idx, "pl_mw"]
            terms = [r.at[idx, c] for c in cols]
            if not np.isfinite(pl) and not any(np.isfinite(t) for t in terms):
                continue       # not part of the calculation (out of service / unsupplied)
            if not np.isfinite(pl) or not all(np.isfinite(t) for t in terms):
                vs.append(core.violation("pl_identity", {"table": tab, "index": int(idx), "pl_mw": pl, "terminals": terms,
                                                         "opt": optname, "what": "partly NaN"},
                                         tokens=base_toks + ["tab=" + tab, "nan"], klass=tab))
                continue
            scale = max(abs(t) for t in terms)
            loss_sum += pl
            if dc:
                if tab != "dcline" and abs(pl) > 1e-12:
                    vs.append(core.violation("dc_zero_loss", {"table": tab, "index": int(idx), "pl_mw": pl, "opt": optname},
                                             tokens=base_toks + ["tab=" + tab], klass=tab))
                if tab != "dcline" and abs(sum(terms)) > TOL_ID + 1e-10 * scale:
                    vs.append(core.violation("dc_zero_loss", {"table": tab, "index": int(idx), "terminal_sum": sum(terms),
                                                              "terminals": terms, "opt": optname},
                                             tokens=base_toks + ["tab=" + tab, "terminals"], klass=tab))
                if tab == "dcline" and abs(pl - sum(terms)) > TOL_ID + 1e-10 * scale:
                    vs.append(core.violation("pl_identity", {"table": tab, "index": int(idx), "pl_mw": pl, "terminals": terms,
                                                             "opt": optname}, tokens=base_toks + ["tab=" + tab], klass=tab))
                continue
            if abs(pl - sum(terms)) > TOL_ID + 1e-10 * scale:
                vs.append(core.violation("pl_identity", {"table": tab, "index": int(idx), "pl_mw": pl, "terminals": terms,
                                                         "opt": optname}, tokens=base_toks + ["tab=" + tab], klass=tab))
            if tab in passive and passive[tab][pos] and pl < -(TOL_ID + 1e-10 * scale):
                vs.append(core.violation("passive_loss_nonneg", {"table": tab, "index": int(idx), "pl_mw": pl,
                                                                 "terminals": terms, "opt": optname},
                                         tokens=base_toks + ["tab=" + tab], klass=tab))
    # ---- impedance switches (bus-bus switches with z_ohm > 0 are branches)
    rs = net.get("res_switch")
    if rs is not None and len(rs) and "p_from_mw" in rs.columns:
        for idx in net.switch.index:
            if idx not in rs.index or net.switch.at[idx, "et"] != "b":
                continue
            pf, pt = rs.at[idx, "p_from_mw"], rs.at[idx, "p_to_mw"]
            if not (np.isfinite(pf) and np.isfinite(pt)):
                continue
            pl = pf + pt
            loss_sum += pl
            scale = max(abs(pf), abs(pt))
            if dc:
                if abs(pl) > TOL_ID + 1e-10 * scale:
                    vs.append(core.violation("dc_zero_loss", {"table": "switch", "index": int(idx), "terminal_sum": pl,
                                                              "opt": optname}, tokens=base_toks + ["tab=switch"], klass="switch"))
            elif pl < -(TOL_ID + 1e-10 * scale):
                vs.append(core.violation("passive_loss_nonneg", {"table": "switch", "index": int(idx), "pl_mw": pl,
                                                                 "opt": optname}, tokens=base_toks + ["tab=switch"], klass="switch"))
    # ---- global balance over the energized part: sum(consumption - generation) + sum(losses) = 0
    acc, _, _ = balance.nodal_sums(net, dc=dc)
    vm = net.res_bus.vm_pu
    cons, kinds, scale = 0., set(), 1.
    for n, a in acc.items():
        if not any(a_net.energized(net, b) for b in a["buses"]):
            continue
        cons += a["elem"].real
        scale = max(scale, abs(a["elem"].real))
        kinds |= a["kinds"]
    dcl = float(np.nansum(net.res_dcline.pl_mw.values)) if len(net.dcline) else 0.
    mis = cons + (loss_sum - dcl)          # dc line terminals are already inside `cons`
    if abs(mis) > TOL + 1e-7 * scale:
        toks = base_toks + ["kind=" + k for k in sorted(kinds)]
        if dc:
            toks.append("dc")
            if _explain_dc_shunt_total(net, mis):
                toks.append("explained=dc_shunt_at_vset")
        vs.append(core.violation("energy_balance_dc" if dc else "energy_balance",
                                 {"net_consumption_mw": cons, "branch_losses_mw": loss_sum - dcl, "mismatch_mw": mis,
                                  "kinds": sorted(kinds), "opt": optname, "path": path},
                                 tokens=toks, klass="/".join(sorted(kinds))))
    return vs


def run_case(case):
    net0 = a_net.build(case)
    out = {"violations": [], "n": 0, "counts": {}}
    sigs, ok = [], 0
    for on in case["optsets"]:
        opts = OPTS[on]
        net = copy.deepcopy(net0)
        oc = a_net.run_pf(net, opts)
        out["n"] += 1
        out["counts"]["outcome_" + oc] = out["counts"].get("outcome_" + oc, 0) + 1
        if oc != "ok":
            continue
        ok += 1
        path = a_net.pfsoln_path(net, opts)
        out["counts"]["path_" + path] = out["counts"].get("path_" + path, 0) + 1
        out["violations"] += judge(net, on, opts, path)
        n_dead = int(net.res_bus.vm_pu.isna().sum())
        sigs.append("%s|%s|%s|%s|dead=%d" % (case["base"], on, core.dhash(case["devs"]), path, n_dead))
    out["outcome"] = "ok" if ok else "none_converged"
    out["sig"] = sigs
    return out


def optsets_for(b, devs):
    """budget: the pandapower-Newton (lightsim2grid off) and pi-model runs repeat the same back-substitution code as "ac";
    they are kept for every case with <=1 deviation and for the pairs that touch what they are about"""
    o = list(OPTSETS[b])
    if len(devs) >= 2:
        if "ac_nols" in o and not any(d[0] in ("genx", "gen", "xward", "dcline", "ext_grid") for d in devs):
            o.remove("ac_nols")
        if "ac_pi" in o and not any(d[0] in ("trafo", "t3x") or (d[0] == "set" and d[1] in ("trafo", "trafo3w")) for d in devs):
            o.remove("ac_pi")
    return o


def gen_cases(tier):
    import os
    cases = []
    for b in (os.environ.get("A_BASES", "").split(",") if os.environ.get("A_BASES") else BASES):   # A_BASES: development only
        menu = bus_menu(b) + na.structure_menu(b) + extra_menu(b)
        for devs in na.subsets(menu, 2):
            cases.append({"base": b, "devs": [list(d) for d in devs], "optsets": optsets_for(b, devs)})
        if tier == "thorough":
            m3 = na.structure_menu(b) + extra_menu(b) + [d for d in bus_menu(b) if d[0] in ("sgen", "shunt", "gen", "xward", "ext_grid")][:6]
            for devs in na.subsets(m3, 3):
                if len(devs) == 3:
                    cases.append({"base": b, "devs": [list(d) for d in devs], "optsets": ["ac", "ac_nonumba", "dc"]})
    return cases


def explore(tier, seed):
    rep = core.Report(PROPERTY, LEVEL, tier, seed)
    core.warm(pf=True, dc=True)
    cases = gen_cases(tier)
    rep.rule = ("E1: every subset of <=2 (thorough: additionally every 3-subset of the structure+parameter menu plus 6 "
                "injecting bus elements) pairwise-compatible deviations from the passive-network menus of bases %s, each under "
                "the option sets %s; a case counts as distinct+non-trivial when the power flow converged, keyed by (base, "
                "option set, deviation-set hash, back-substitution path taken, number of unsupplied buses)" % (BASES, OPTSETS))
    rep.extra["bound_k"] = 2 if tier == "quick" else 3
    rep.extra["deviation_sets"] = len(cases)
    rep.extra["menu_sizes"] = {b: len(bus_menu(b) + na.structure_menu(b) + extra_menu(b)) for b in BASES}
    core.run_cases(rep, run_case, cases)
    rep.assumptions = ["global balance tolerance 1e-5 MW + 1e-7 rel; per-branch identities 1e-9 MW + 1e-10 rel",
                       "only converged power flows are judged; elements at unsupplied buses are not part of the balance",
                       "passive = r,g,pfe,vkr >= 0 and symmetric impedance; asymmetric impedances and dc lines are excluded from the sign clause",
                       "values outside the finite deviation alphabets are not covered"]
    return rep


def replay(case):
    return run_case(case)["violations"]

"""C13 Controller loop terminates with converged controllers and fresh results - E3 on the loop + E1 on real tap controllers."""
import copy
import itertools

import numpy as np

import pandapower as pp
from pandapower.auxiliary import LoadflowNotConverged
from pandapower.control.basic_controller import Controller
from pandapower.control import run_control, DiscreteTapControl, ContinuousTapControl, ConstControl

from mc import core, netalpha as na

PROPERTY = "C13"
LEVEL = "model_checking"
META = {
    "text": "(a) The real run_control loop is closed with scripted controllers (level, order, steps-still-needed, a disturbance relation 'a step of i makes j need another step') and a scripted run function; every parameter combination for 2 controllers (and a reduced product for 3) x max_iter x check_each_level is executed, and for each the run-function answer sequences with at most one LoadflowNotConverged at every possible call position (choice-point exploration, deviation bound 1). (b) Real Discrete/Continuous tap controllers on 2W/3W transformers from EVERY starting tap position x load levels x bands/set-points x sides x levels/orders, plus ConstControl companions. Oracle: run_control raises a not-converged error or returns with all in-service controllers converged, control steps in ascending (level, order), taps inside [min,max], band/set-point or limit reached, results equal to a fresh runpp.",
    "note": "Scripted controllers abstract real ones to (need, disturbance); real-controller part covers only tap controllers and ConstControl on 3-4 bus nets. States = distinct (configuration, answer sequence) executions; transitions = control-loop evaluations (run-function calls).",
    "technique": "choice-point exploration of the real control loop with scripted environment (deviation-bounded), exhaustive parameter enumeration for real controllers",
    "design_ref": "DESIGN.md §3 E3, §4 C13",
}


# ----------------------------------------------------------------------------------------------
# (a) scripted controllers
# ----------------------------------------------------------------------------------------------
class Scripted(Controller):
    def __init__(self, net, tag, need, disturbs, log, **kwargs):
        super().__init__(net, **kwargs)
        self.tag, self.need, self.disturbs, self.log = tag, need, list(disturbs), log

    def initialize_control(self, net):
        self.log.append(("init", self.tag))

    def finalize_control(self, net):
        self.log.append(("final", self.tag))

    def is_converged(self, net):
        return self.need == 0

    def control_step(self, net):
        self.log.append(("step", self.tag))
        self.need -= 1
        for j in self.disturbs:
            o = net.controller.object.at[j]
            if o.need == 0:
                o.need = 1


_SNET = []


def _scripted_net():
    """one empty network per process, controller table reset per execution (create_empty_network costs 85 ms)"""
    if not _SNET:
        _SNET.append(pp.create_empty_network())
        _SNET.append(_SNET[0].controller.iloc[0:0].copy())
    net = _SNET[0]
    net["controller"] = _SNET[1].copy()
    net["converged"] = False
    return net


def scripted_case(case):
    """case: {"ctrls": [[level, order, need, in_service], ...], "D": [[i, j], ...], "max_iter": n, "check_each_level": bool, "fail_at": k|None}"""
    net = _scripted_net()
    log = []
    k = len(case["ctrls"])
    for i, (lvl, order, need, ins) in enumerate(case["ctrls"]):
        Scripted(net, i, need, [j for (a, j) in case["D"] if a == i], log, level=lvl, order=order, in_service=ins, initial_run=True)
    calls = {"n": 0}

    def run(net, **kwargs):
        i = calls["n"]
        calls["n"] += 1
        log.append(("run", i))
        if case.get("fail_at") is not None and i == case["fail_at"]:
            net["converged"] = False
            raise LoadflowNotConverged("scripted")
        net["converged"] = True
    try:
        kw = {} if case["check_each_level"] == "default" else {"check_each_level": case["check_each_level"]}
        run_control(net, run=run, max_iter=case["max_iter"], **kw)
        oc = "returned"
    except Exception as e:
        oc = type(e).__name__
    vs = []
    toks = ["part=scripted", "k=%d" % k, "max_iter=%d" % case["max_iter"], "check_each_level=%s" % case["check_each_level"],
            "fail_at=%s" % case.get("fail_at")]
    ctr = [net.controller.object.at[i] for i in range(k)]
    lvls = [c[0] if isinstance(c[0], list) else [c[0]] for c in case["ctrls"]]
    if oc == "returned":
        unconv = [i for i, c in enumerate(ctr) if case["ctrls"][i][3] and c.need != 0]
        if unconv and case["check_each_level"] is False:
            # explicit, documented opt-out of the per-level convergence check: counted, not judged
            unconv = []
            toks.append("opted_out")
        if unconv:
            t = list(toks)
            # recorded defect: levels are processed once in ascending order and never revisited
            expl = all(any(a != i and j == i and max(lvls[a]) > min(lvls[i]) for (a, j) in case["D"]) for i in unconv)
            if expl and case.get("fail_at") is None:
                t.append("explained=lower_level_disturbed_by_higher_level")
            vs.append(core.violation("all_converged_at_return", {"unconverged": unconv, "log": log[-12:]}, tokens=t,
                                     klass="unconverged"))
        if case.get("fail_at") is not None and case["fail_at"] < calls["n"]:
            vs.append(core.violation("raises_when_run_fails", {"fail_at": case["fail_at"], "calls": calls["n"]}, tokens=toks, klass="swallowed_failure"))
    elif oc not in ("ControllerNotConverged", "NetCalculationNotConverged", "LoadflowNotConverged"):
        vs.append(core.violation("raises_only_not_converged", {"exception": oc}, tokens=toks + ["exc=" + oc], klass="exc:" + oc))
    # ordering: init before everything else, final after; steps between two runs in ascending (level, order)
    kinds = [e[0] for e in log]
    if "init" in kinds and any(k_ != "init" for k_ in kinds[:kinds.count("init")]):
        vs.append(core.violation("initialize_first", {"log": log[:8]}, tokens=toks, klass="init_order"))
    if oc == "returned" and (kinds.count("final") != sum(1 for c in case["ctrls"] if c[3]) * 1 and kinds.count("final") < 1):
        vs.append(core.violation("finalize_called", {"log": log[-8:]}, tokens=toks, klass="final_missing"))
    seg, last_level_seen = [], float("-inf")
    for e in log + [("run", -1)]:
        if e[0] == "step":
            seg.append(e[1])
        elif e[0] == "run":
            if seg:
                # all controllers of one segment belong to one level; orders ascending
                seg_lv = set.intersection(*[set(lvls[i]) for i in seg]) if seg else set()
                orders = [case["ctrls"][i][1] for i in seg]
                if not seg_lv or orders != sorted(orders):
                    vs.append(core.violation("ascending_level_order", {"segment": seg, "orders": orders}, tokens=toks, klass="order"))
                    break
                lv = min(x for x in seg_lv if x >= last_level_seen) if any(x >= last_level_seen for x in seg_lv) else None
                if lv is None:
                    vs.append(core.violation("ascending_level_order", {"segment": seg, "after_level": last_level_seen}, tokens=toks, klass="level_order"))
                    break
                last_level_seen = lv
            seg = []
    n_runs = calls["n"]
    n_levels = len({l for ls in lvls for l in ls}) or 1
    if n_runs > 1 + n_levels * (case["max_iter"] + 1):
        vs.append(core.violation("bounded_evaluations", {"runs": n_runs, "max_iter": case["max_iter"]}, tokens=toks, klass="too_many_runs"))
    return {"outcome": oc, "violations": vs, "n": 1, "runs": calls["n"],
            "sig": "S|%s|%s" % (core.dhash([case["ctrls"], case["D"], case["max_iter"], case["check_each_level"]]), case.get("fail_at")),
            "counts": {"transitions": calls["n"]}}


def scripted_family(case):
    """one configuration + all its <=1-failure answer sequences (choice-point exploration with deviation bound 1)"""
    base = dict(case)
    base["fail_at"] = None
    r0 = scripted_case(base)
    out = {"outcome": "S:" + r0["outcome"], "violations": list(r0["violations"]), "n": 1, "sig": [r0["sig"]],
           "counts": {"transitions": r0["runs"], "states": 1}}
    for v in out["violations"]:
        v["case"] = dict(base, part="scripted")
    for f in range(r0["runs"]):
        c = dict(case)
        c["fail_at"] = f
        r = scripted_case(c)
        out["n"] += 1
        out["sig"].append(r["sig"])
        out["counts"]["transitions"] += r["runs"]
        out["counts"]["states"] += 1
        for v in r["violations"]:
            v["case"] = dict(c, part="scripted")
            out["violations"].append(v)
    return out


def gen_scripted(tier):
    cases = []
    lv_opts = [0, 1]
    c_opts2 = [[lv, o, need, True] for lv in lv_opts + [[0, 1]] for o in (0, 1) for need in (0, 1, 2)]
    pairs2 = [(0, 1), (1, 0)]
    for c0, c1 in itertools.product(c_opts2, repeat=2):
        for r in range(len(pairs2) + 1):
            for D in itertools.combinations(pairs2, r):
                for mi in (1, 3):
                    for cel in (True, False, "default"):
                        cases.append({"part": "scripted", "ctrls": [c0, c1], "D": [list(d) for d in D], "max_iter": mi, "check_each_level": cel})
    c_opts3 = [[lv, o, need, True] for lv in lv_opts for o in (0, 1) for need in (0, 1)]
    pairs3 = [(i, j) for i in range(3) for j in range(3) if i != j]
    maxd = 1 if tier == "quick" else 3
    for cs in itertools.product(c_opts3, repeat=3):
        for r in range(maxd + 1):
            for D in itertools.combinations(pairs3, r):
                cases.append({"part": "scripted", "ctrls": list(cs), "D": [list(d) for d in D], "max_iter": 3, "check_each_level": True})
    # level values whose set-iteration order differs from their numeric order, and a controller that never converges within max_iter
    for la, lb in ((-1, 0), (0, -1), (1, 8), (8, 1), (0.5, 2), (10, 2), (3, 16)):
        for na_, nb in ((1, 1), (0, 1), (1, 0), (2, 1)):
            for D in ([], [[0, 1]], [[1, 0]]):
                for cel in (True, "default"):
                    cases.append({"part": "scripted", "ctrls": [[la, 0, na_, True], [lb, 0, nb, True]], "D": D, "max_iter": 3, "check_each_level": cel})
    for lv0, lv1 in ((0, 1), (1, 0), (0, 0)):
        for n0, n1 in ((9, 0), (0, 9), (9, 1), (1, 9)):
            for cel in (True, False, "default"):
                for mi in (1, 3):
                    cases.append({"part": "scripted", "ctrls": [[lv0, 0, n0, True], [lv1, 1, n1, True]], "D": [], "max_iter": mi, "check_each_level": cel})
    # out-of-service controller never steps and does not block convergence
    cases.append({"part": "scripted", "ctrls": [[0, 0, 2, False], [0, 1, 1, True]], "D": [], "max_iter": 3, "check_each_level": True})
    return cases


# ----------------------------------------------------------------------------------------------
# (b) real controllers
# ----------------------------------------------------------------------------------------------
def real_case(case):
    """case: {"part": "real", "net": "T3"|"W3", "tap": start tap, "load": factor, "ctrl": [...], "tap_side": .., ...}"""
    net = na.base(case["net"])
    el = "trafo" if case["net"] == "T3" else "trafo3w"
    net[el].at[0, "tap_pos"] = case["tap"]
    if case.get("tap_side"):
        net[el].at[0, "tap_side"] = case["tap_side"]
    net.load["p_mw"] *= case["load"]
    net.load["q_mvar"] *= case["load"]
    objs = []
    for c in case["ctrl"]:
        kind = c[0]
        if kind == "discrete":
            objs.append(DiscreteTapControl(net, 0, c[2], c[3], side=c[1], element=el, level=c[4], order=c[5]))
        elif kind == "continuous":
            objs.append(ContinuousTapControl(net, 0, c[2], tol=1e-4, side=c[1], element=el, level=c[4], order=c[5]))
        elif kind == "const_load":
            ConstControl(net, "load", "p_mw", element_index=[0], level=c[4], order=c[5])
    toks = ["part=real", "net=" + case["net"]] + ["ctrl=" + c[0] for c in case["ctrl"]]
    try:
        run_control(net, max_iter=30)
        oc = "returned"
    except Exception as e:
        oc = type(e).__name__
    vs = []
    tmin, tmax = net[el].at[0, "tap_min"], net[el].at[0, "tap_max"]
    tap = net[el].at[0, "tap_pos"]
    if not (tmin - 1e-9 <= tap <= tmax + 1e-9):
        vs.append(core.violation("tap_within_limits", {"tap_pos": tap, "min": tmin, "max": tmax, "outcome": oc}, tokens=toks, klass="tap_limits"))
    if oc == "returned":
        # results = fresh power flow of the final element state
        fresh = copy.deepcopy(net)
        fresh.controller = fresh.controller.iloc[0:0]
        try:
            pp.runpp(fresh)
            d = float(np.nanmax(np.abs(fresh.res_bus.vm_pu.values - net.res_bus.vm_pu.values)))
            if not d < 1e-7:
                vs.append(core.violation("results_fresh", {"max_dvm": d}, tokens=toks, klass="stale_results"))
        except Exception:
            pass
        def vm_at(t):
            n2 = copy.deepcopy(net)
            n2.controller = n2.controller.iloc[0:0]
            n2[el]["tap_pos"] = n2[el]["tap_pos"].astype(float)
            n2[el].at[0, "tap_pos"] = t
            pp.runpp(n2)
            return n2.res_bus.vm_pu
        for c, o in zip([c for c in case["ctrl"] if c[0] in ("discrete", "continuous")], objs):
            if not o.is_converged(net):
                vs.append(core.violation("all_converged_at_return", {"ctrl": c}, tokens=toks, klass="real_unconverged"))
            side_bus = {"hv": net[el].at[0, "hv_bus"], "mv": net[el].at[0, "mv_bus"] if el == "trafo3w" else None,
                        "lv": net[el].at[0, "lv_bus"]}[c[1]]
            vm = net.res_bus.vm_pu.at[side_bus]
            # "at the limit in the needed direction" is decided empirically: is there a feasible neighbouring tap position
            # whose fresh power flow brings the controlled voltage closer to the band / set-point?
            step = 1. if c[0] == "discrete" else 0.5
            if c[0] == "discrete":
                lo, hi = c[2], c[3]
                if lo < vm < hi:
                    continue
                dist = lambda v: (lo - v) if v <= lo else (v - hi)
            else:
                if abs(vm - c[2]) <= 1e-4 + 1e-9:
                    continue
                dist = lambda v: abs(v - c[2])
            better, effect = [], False
            for t in (tap - step, tap + step):
                if tmin - 1e-9 <= t <= tmax + 1e-9:
                    try:
                        v2 = float(vm_at(t).at[side_bus])
                    except Exception:
                        continue
                    if abs(v2 - vm) > 1e-9:
                        effect = True
                    if dist(v2) < dist(vm) - 1e-9:
                        better.append((t, v2))
            if better:
                t2 = list(toks)
                clause = "band_or_limit" if c[0] == "discrete" else "setpoint_or_limit"
                vs.append(core.violation(clause, {"vm": vm, "target": c[2:4], "tap": tap, "tap_side": net[el].at[0, "tap_side"],
                                                  "ctrl_side": c[1], "better_neighbour": better[0]}, tokens=t2, klass=clause))
            elif not effect and not (abs(tap - tmin) < 1e-9 or abs(tap - tmax) < 1e-9):
                # the tap has no influence on the controlled bus (e.g. controlling the slack bus): the controller reports
                # convergence without reaching band / set-point / limit
                vs.append(core.violation("band_or_limit" if c[0] == "discrete" else "setpoint_or_limit",
                                         {"vm": vm, "target": c[2:4], "tap": tap, "ctrl_side": c[1]},
                                         tokens=toks + ["explained=tap_has_no_effect_on_controlled_bus"], klass="no_effect"))
    elif oc not in ("ControllerNotConverged", "NetCalculationNotConverged", "LoadflowNotConverged"):
        vs.append(core.violation("raises_only_not_converged", {"exception": oc}, tokens=toks + ["exc=" + oc], klass="exc:" + oc))
    return {"outcome": "R:" + oc, "violations": vs, "n": 1, "sig": "R|" + core.dhash(case), "counts": {"states": 1, "transitions": 1}}


def gen_real(tier):
    cases = []
    bands = [(0.99, 1.01), (1.0, 1.03), (0.95, 0.97)]
    for tap in range(-9, 10):
        for load in (0.5, 1.0, 2.5):
            for tside in ("hv", "lv"):
                for side in ("lv", "hv"):
                    for lo, hi in bands:
                        cases.append({"part": "real", "net": "T3", "tap": tap, "load": load, "tap_side": tside,
                                      "ctrl": [["discrete", side, lo, hi, 0, 0]]})
                    for vs in (1.0, 1.02, 0.9):
                        cases.append({"part": "real", "net": "T3", "tap": tap, "load": load, "tap_side": tside,
                                      "ctrl": [["continuous", side, vs, None, 0, 0]]})
                cases.append({"part": "real", "net": "T3", "tap": tap, "load": load, "tap_side": tside,
                              "ctrl": [["const_load", None, None, None, 0, 0], ["discrete", "lv", 0.99, 1.01, 1, 0]]})
    for tap in range(-5, 6):
        for load in (0.5, 1.0, 2.0):
            for tside in ("hv", "mv", "lv"):
                for side in ("mv", "lv"):
                    for lo, hi in bands[:2]:
                        cases.append({"part": "real", "net": "W3", "tap": tap, "load": load, "tap_side": tside,
                                      "ctrl": [["discrete", side, lo, hi, 0, 0]]})
                    cases.append({"part": "real", "net": "W3", "tap": tap, "load": load, "tap_side": tside,
                                  "ctrl": [["continuous", side, 1.0, None, 0, 0]]})
    return cases


def run_case(case):
    if case["part"] == "scripted":
        return scripted_family(case)
    r = real_case(case)
    for v in r["violations"]:
        v["case"] = case
    return r


def explore(tier, seed):
    rep = core.Report(PROPERTY, LEVEL, tier, seed)
    core.warm(pf=True)
    cases = gen_scripted(tier) + gen_real(tier)
    rep.extra["scripted_configurations"] = sum(1 for c in cases if c["part"] == "scripted")
    rep.extra["real_configurations"] = sum(1 for c in cases if c["part"] == "real")
    rep.extra["deviation_bound_run_failures"] = 1
    core.run_cases(rep, run_case, cases)
    rep.extra["traces_validated_against_impl"] = rep.extra.get("states", 0)
    rep.rule = ("scripted: full product of (level in {0,1,[0,1]}, order, need in {0,1,2}) for 2 controllers x all disturbance relations x max_iter {1,3} x "
                "check_each_level, reduced product for 3 controllers with <=%d disturbance edges; each with every run-function answer sequence with <=1 failure; "
                "real: every start tap x load x band/set-point x side x tap side on T3/W3; distinct = (configuration, answer sequence)" % (1 if tier == "quick" else 3))
    rep.assumptions = ["scripted controllers model (need, disturbance) only", "tolerances: band strict, set-point tol 1e-4"]
    return rep


def replay(case):
    core.warm(pf=True)
    if case.get("part") == "scripted":
        r = scripted_case(case)
        return r["violations"]
    return real_case(case)["violations"]

"""C12 Time-series results equal a fresh power flow at every time step - E1 over controllers x outputs x profiles."""
import copy
import itertools

import numpy as np
import pandas as pd

import pandapower as pp
from pandapower.control import ConstControl
from pandapower.timeseries import DFData, OutputWriter, run_timeseries

from mc import core, netalpha as na

PROPERTY = "C12"
LEVEL = "exploration"
META = {
    "text": "Every supported ConstControl(element, variable) target (load/sgen/storage p,q,scaling; gen p,vm; ext_grid vm,va; trafo/trafo3w tap_pos; line length/r/in_service), singly and in all pairs, is driven through 3-step profiles on three networks, crossed with every single logged result variable of res_bus/res_line/res_trafo/res_trafo3w/res_load/res_sgen/res_gen/res_ext_grid (each selection forces a different combination of the recycle flags bus_pq/gen/trafo and of the batch_read/only_v_results shortcuts), fast pairs and the full variable set, recycle default/False, runpp/rundcpp; every logged value of every step is compared with a fresh power flow of the original network with that step's values written in.",
    "note": "Trusted: the reference (deep copy of the original net + profile values + plain runpp/rundcpp). Only ConstControl with DFData profiles of length 3 and the listed variable sets are covered; output column order is compared positionally.",
    "technique": "bounded exhaustive enumeration of controller/output/profile configurations with a differential oracle against fresh power flows",
    "design_ref": "DESIGN.md §4 C12",
}

TOL = 1e-6

# (element, variable) -> (net id, element index, profiles)
TARGETS = {
    ("load", "p_mw"): ("R3g", 0, [[1.0, 2.0, 1.0], [0.0, 1.5, 1.5]]),
    ("load", "q_mvar"): ("R3g", 0, [[0.3, -0.2, 0.5]]),
    ("load", "scaling"): ("R3g", 1, [[1.0, 0.5, 0.0]]),
    ("sgen", "p_mw"): ("R3g", 0, [[0.2, 0.9, 0.2]]),
    ("sgen", "q_mvar"): ("R3g", 0, [[0.0, 0.3, -0.3]]),
    ("sgen", "scaling"): ("R3g", 0, [[1.0, 2.0, 0.5]]),
    ("storage", "p_mw"): ("R3g", 0, [[0.3, -0.3, 0.0]]),
    ("storage", "q_mvar"): ("R3g", 0, [[0.1, 0.0, 0.2]]),
    ("storage", "scaling"): ("R3g", 0, [[1.0, 0.0, 2.0]]),
    ("gen", "p_mw"): ("R3g", 0, [[0.5, 1.0, 0.0]]),
    ("gen", "vm_pu"): ("R3g", 0, [[1.01, 1.03, 0.99]]),
    ("ext_grid", "vm_pu"): ("R3g", 0, [[1.02, 1.0, 1.04]]),
    ("ext_grid", "va_degree"): ("R3g", 0, [[0.0, 5.0, -3.0]]),
    ("line", "length_km"): ("R3g", 1, [[2.0, 6.0, 1.0]]),
    ("line", "r_ohm_per_km"): ("R3g", 0, [[0.2, 0.5, 0.05]]),
    ("line", "in_service"): ("R3g", 2, [[True, False, True]]),
    ("trafo", "tap_pos"): ("T3", 0, [[0, 3, -2], [1, 1, 2]]),
    ("trafo3w", "tap_pos"): ("W3", 0, [[0, 2, -3]]),
    # cross-net load targets so that tap profiles can be paired with bus_pq profiles
    ("load@T3", "p_mw"): ("T3", 0, [[4.0, 6.0, 2.0]]),
    ("load@W3", "p_mw"): ("W3", 0, [[6.0, 3.0, 8.0]]),
    ("load@T3", "q_mvar"): ("T3", 0, [[1.0, 0.2, 1.5]]),
}

LOGVARS = {
    "res_bus": ["vm_pu", "va_degree", "p_mw", "q_mvar"],
    "res_line": ["p_from_mw", "q_from_mvar", "p_to_mw", "q_to_mvar", "pl_mw", "ql_mvar", "i_from_ka", "i_to_ka", "i_ka",
                 "vm_from_pu", "va_to_degree", "loading_percent"],
    "res_trafo": ["p_hv_mw", "q_lv_mvar", "pl_mw", "i_hv_ka", "i_lv_ka", "vm_lv_pu", "va_lv_degree", "loading_percent"],
    "res_trafo3w": ["p_hv_mw", "p_mv_mw", "q_lv_mvar", "pl_mw", "i_hv_ka", "i_mv_ka", "i_lv_ka", "vm_mv_pu", "loading_percent"],
    "res_load": ["p_mw", "q_mvar"], "res_sgen": ["p_mw", "q_mvar"], "res_storage": ["p_mw"],
    "res_gen": ["p_mw", "q_mvar", "vm_pu", "va_degree"], "res_ext_grid": ["p_mw", "q_mvar"],
}
FAST_PAIRS = [[("res_bus", "vm_pu"), ("res_line", "loading_percent")], [("res_line", "i_ka"), ("res_line", "loading_percent")],
              [("res_bus", "vm_pu"), ("res_bus", "va_degree")], [("res_line", "i_from_ka"), ("res_line", "i_to_ka")],
              [("res_trafo", "loading_percent"), ("res_bus", "vm_pu")], [("res_trafo", "i_hv_ka"), ("res_trafo", "loading_percent")],
              [("res_trafo3w", "loading_percent"), ("res_line", "i_ka")], [("res_bus", "vm_pu"), ("res_load", "p_mw")]]

_NETS = {}


def make_net(name):
    if name not in _NETS:
        if name == "R3g":
            net = na.build({"base": "R3", "devs": [["gen", 2, 0.5, 1.01, "wide", False, True], ["load", 3, 0.8, 0.2, "P", 1., True],
                                                   ["sgen", 3, 0.2, 0.0, 1., True], ["storage", 2, 0.3, 0.1, 1., True],
                                                   ["line", 0, 2, 1, True]]})
            # one value per factor of the batch-read formulas: derating factor, parallel systems
            net.line.at[1, "df"] = 0.8
            net.line.at[2, "parallel"] = 2
        elif name == "T3":
            net = na.base("T3")
            pp.create_sgen(net, 3, 0.5, 0.1)
            net.trafo.at[0, "df"] = 0.9
            net.trafo.at[0, "parallel"] = 2
            net.line.at[0, "df"] = 0.7
        elif name == "W3":
            net = na.base("W3")
            pp.create_transformer_from_parameters(net, 0, 3, **dict(na.TR, parallel=1, df=0.8))   # 2W next to the 3W trafo
            net.line.at[0, "df"] = 0.9
        else:
            net = na.base(name)
        _NETS[name] = net
    return copy.deepcopy(_NETS[name])


def _tables(net):
    return [t for t in LOGVARS if len(net[t[4:]])]


def _apply(net, ctrls, step):
    for (el, var), idx, prof in ctrls:
        el = el.split("@")[0]
        v = prof[step]
        if net[el][var].dtype.kind in "iu" and isinstance(v, float):
            net[el][var] = net[el][var].astype(float)
        net[el].at[idx, var] = v


def run_case(case):
    ctrls = [((c[0], c[1]), c[2], c[3]) for c in case["ctrls"]]
    netname = case["net"]
    net = make_net(netname)
    logv = [tuple(x) for x in case["log"]]
    dc = case["run"] == "rundcpp"
    runf = pp.rundcpp if dc else pp.runpp
    for (el, var), idx, prof in ctrls:
        df = pd.DataFrame({"x": prof})
        ConstControl(net, el.split("@")[0], var, element_index=[idx], profile_name=["x"], data_source=DFData(df))
    ow = OutputWriter(net, [0, 1, 2], output_path=None, log_variables=list(logv))
    kw = {"run": runf}
    if case["recycle"] is False:
        kw["recycle"] = False
    if case.get("cod"):
        kw["continue_on_divergence"] = True
    toks = ["run=" + case["run"], "recycle=%s" % case["recycle"]] + ["ctrl=%s.%s" % c[0] for c in ctrls] + ["log=%s.%s" % l for l in logv]
    toks.append("nlog=%d" % len(logv))
    tabs = sorted({l[0] for l in logv})
    if len(logv) > 1 and len(tabs) < len(logv):
        toks.append("two_vars_same_table")
    if case.get("cod"):
        toks.append("cod")
        fast = {"res_bus": ("vm_pu", "va_degree"), "res_line": ("i_ka", "i_from_ka", "i_to_ka", "loading_percent"),
                "res_trafo": ("i_hv_ka", "i_lv_ka", "loading_percent"), "res_trafo3w": ("i_hv_ka", "i_mv_ka", "i_lv_ka", "loading_percent")}
        if all(v in fast.get(t, ()) for t, v in logv):
            toks.append("fast_outputs")
    try:
        run_timeseries(net, [0, 1, 2], verbose=False, **kw)
    except Exception as e:
        # reference: does the fresh calculation of every step work? then the time series must not fail
        ok = True
        for step in range(3):
            ref = make_net(netname)
            _apply(ref, ctrls, step)
            try:
                runf(ref)
            except Exception:
                ok = False
        if not ok and not case.get("cod"):
            return {"outcome": "ref_fails_too", "violations": [], "sig": None}
        return {"outcome": "ts_raised:" + type(e).__name__, "sig": None,
                "violations": [core.violation("records_every_variable", {"exception": type(e).__name__, "msg": str(e)[:200], "log": logv},
                                              tokens=toks + ["exc=" + type(e).__name__], klass="raise:%s" % type(e).__name__)]}
    vs = []
    prev_infeasible = False
    for step in range(3):
        ref = make_net(netname)
        _apply(ref, ctrls, step)
        try:
            runf(ref)
        except Exception:
            prev_infeasible = True
            continue
        if prev_infeasible and "prev_step_infeasible" not in toks:
            toks.append("prev_step_infeasible")
        for tab, var in logv:
            key = "%s.%s" % (tab, var)
            if key not in ow.output:
                vs.append(core.violation("records_every_variable", {"missing_output": key}, tokens=toks + ["missing"], klass="missing:" + key))
                continue
            got = np.asarray(ow.output[key].values[step], dtype=float)
            exp = np.asarray(ref[tab][var].values, dtype=float)
            if got.shape != exp.shape:
                vs.append(core.violation("equals_fresh_pf", {"var": key, "step": step, "got_shape": list(got.shape), "exp_shape": list(exp.shape)},
                                         tokens=toks + ["shape"], klass="shape:" + key))
                continue
            bad = ~((np.abs(got - exp) <= TOL + 1e-6 * np.abs(exp)) | (np.isnan(got) & np.isnan(exp)))
            if bad.any():
                i = int(np.flatnonzero(bad)[0])
                vs.append(core.violation("equals_fresh_pf", {"var": key, "step": step, "position": i, "logged": got[i], "fresh": exp[i]},
                                         tokens=toks + ["var=" + key], klass="stale:%s|%s" % (key, ",".join("%s.%s" % c[0] for c in ctrls))))
                break
        if vs:
            break
    return {"outcome": "ok", "violations": vs,
            "sig": "%s|%s|%s|%s" % (netname, case["run"], case["recycle"], core.dhash([case["ctrls"], case["log"]]))}


def gen_cases(tier):
    cases = []

    def ctrl_sets():
        items = []
        for (el, var), (netname, idx, profs) in TARGETS.items():
            for p in profs:
                items.append((netname, [el, var, idx, p]))
        singles = [(n, [c]) for n, c in items]
        pairs = []
        for (n1, c1), (n2, c2) in itertools.combinations(items, 2):
            if n1 == n2 and (c1[0], c1[1], c1[2]) != (c2[0], c2[1], c2[2]):
                pairs.append((n1, [c1, c2]))
        return singles, pairs
    singles, pairs = ctrl_sets()
    for netname, ctrls in singles:
        net = make_net(netname)
        tabs = _tables(net)
        allvars = [(t, v) for t in tabs for v in LOGVARS[t]]
        logsets = [[lv] for lv in allvars] + [p for p in FAST_PAIRS if all(t in tabs for t, _ in p)] + [allvars]
        for log in logsets:
            for rec in (None, False):
                if rec is False and len(log) == 1 and log[0][0] not in ("res_bus", "res_line", "res_trafo", "res_trafo3w"):
                    continue
                cases.append({"net": netname, "ctrls": ctrls, "log": [list(l) for l in log], "recycle": rec, "run": "runpp"})
        for log in ([["res_bus", "va_degree"]], [["res_line", "p_from_mw"]], [list(l) for l in allvars if l[1] in ("p_mw", "va_degree", "p_from_mw", "p_hv_mw")]):
            cases.append({"net": netname, "ctrls": ctrls, "log": log, "recycle": None, "run": "rundcpp"})
    # a diverging step in the middle of the profile, continue_on_divergence=True: the steps after it must again equal fresh power flows
    # (nets without a PV generator: there the overload has no power-flow solution at all, whatever the starting point)
    for netname, ctrl in (("T3", ["load@T3", "p_mw", 0, [4.0, 3000.0, 2.0]]), ("W3", ["load@W3", "p_mw", 0, [6.0, 5000.0, 3.0]]),
                          ("T3", ["load@T3", "q_mvar", 0, [1.0, 4000.0, 0.5]])):
        net = make_net(netname)
        tabs = _tables(net)
        allvars = [(t, v) for t in tabs for v in LOGVARS[t]]
        for log in ([("res_bus", "vm_pu")], [("res_line", "loading_percent")], [("res_bus", "vm_pu"), ("res_line", "loading_percent")], allvars):
            for rec in (None, False):
                cases.append({"net": netname, "ctrls": [ctrl], "log": [list(l) for l in log], "recycle": rec, "run": "runpp", "cod": True})
    for netname, ctrls in pairs:
        net = make_net(netname)
        tabs = _tables(net)
        allvars = [(t, v) for t in tabs for v in LOGVARS[t]]
        logsets = [allvars, [("res_bus", "vm_pu"), ("res_line", "loading_percent")]]
        if tier == "thorough":
            logsets += [[lv] for lv in allvars if lv[0] in ("res_bus", "res_line", "res_trafo", "res_trafo3w")]
        for log in logsets:
            cases.append({"net": netname, "ctrls": ctrls, "log": [list(l) for l in log], "recycle": None, "run": "runpp"})
    return cases


def explore(tier, seed):
    rep = core.Report(PROPERTY, LEVEL, tier, seed)
    core.warm(pf=True, dc=True)
    cases = gen_cases(tier)
    rep.rule = ("E1: every ConstControl target of the menu (%d (element,variable,profile) items) singly x {every single log variable, fast pairs, "
                "all variables} x recycle {default, False} x {runpp, rundcpp}, and every pair of targets on the same net x {all variables, default pair%s}; "
                "distinct/non-trivial = time series that ran to completion, keyed by (net, run, recycle, controllers, log set)" % (
                    sum(len(v[2]) for v in TARGETS.values()), ", every single fast-path variable" if tier == "thorough" else ""))
    rep.extra["time_series_runs"] = len(cases)
    core.run_cases(rep, run_case, cases)
    rep.assumptions = ["3-step profiles from fixed value alphabets", "comparison tolerance 1e-6"]
    return rep


def replay(case):
    return run_case(case)["violations"]

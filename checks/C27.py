"""C27 group operations behave as set operations on group membership - E2 BFS against a plain-Python set model."""
from mc import core
from mc import explore as bfsx
from mc import h_c27 as h

PROPERTY = "C27"
LEVEL = "model_checking"
META = {
    "text": "From a 6-bus net with an index-referenced and a name-referenced group, every sequence of up to 3 operations from a 27-op alphabet (thorough: 3 from the full 46-op alphabet and 4 from a 16-op core alphabet) of bound group operations (create_group, attach_to_group(s), detach_from_group(s), drop_group, set_group_reference_column, set_group_in/out_of_service), element drops (drop_elements / drop_buses / drop_lines of members and non-members, with cascades) and reindex_elements / reindex_buses is run on the real net and mirrored on a set model {group: {type: set(index)}}; after every operation group_element_index, count_group_elements, isin_group, the raw net.group rows, the in_service flags and group_res_p_mw / group_res_q_mvar are compared with the model for every group and element type {bus, line, load, trafo3w}; exhaustive within that bound.",
    "note": "Trusted: the set model in mc/h_c27.py (union / difference / image under the reindex lookup; elements that vanished are read from the element tables). Result functions are judged only on fresh results of a converged runpp (re-run after every structural operation). Operations that raise are outcomes, the state after them is neither judged nor expanded. Members/lookup values outside the bound alphabet are not covered.",
    "technique": "explicit-state breadth-first search over operation histories on the real net with a set-model refinement check after every transition",
    "design_ref": "DESIGN.md §3 E2, §4 C27",
}


class Model:
    def __init__(self, tier):
        self.tier = tier

    def init(self):
        return h.init()

    def ops(self, s):
        return h.ops(s, self.tier)

    def apply(self, s, op):
        return h.apply(s, op)

    def copy(self, s):
        return h.copy_state(s)

    def canon(self, s):
        return h.canon(s)

    def invariant(self, s, hist, op, outcome):
        return list(s["viol"])


BOUNDS = {"quick": [("quick", 3)], "thorough": [("thorough", 3), ("core", 4)]}


def explore(tier, seed):
    rep = core.Report(PROPERTY, LEVEL, tier, seed)
    core.warm(pf=True)
    h.base_net()
    s0 = h.init()
    v0 = h.judge(dict(s0, flip=None, created=None), ["init"])
    for v in v0:
        rep.violations.append(dict(v, case={"history": []}))
    rep.rule = ("E2 BFS: every sequence of <= depth bound operations (%d / %d bound ops in the initial state: create_group x3, "
                "attach_to_group(s), detach_from_group(s), drop_group, drop_elements/drop_buses/drop_lines, reindex_elements "
                "{line, load, trafo3w, bus, group}, reindex_buses, set_group_reference_column, set_group_in/out_of_service) from a "
                "6-bus net with one index group and one name-referenced group, <= 3 groups; states deduplicated by net.group + "
                "index/name/in_service/bus columns of the element tables + the model; distinct_nontrivial = distinct canonical states"
                % (len(h.ops(s0, "quick")), len(h.ops(s0, "thorough"))))
    rep.extra["bounds"] = []
    for alpha, depth in BOUNDS[tier]:
        m = Model(alpha)
        sub = core.Report(PROPERTY, LEVEL, tier, seed)
        bfsx.bfs(sub, m, depth)
        rep.evaluations += sub.evaluations
        rep.nontrivial.update(sub.nontrivial)
        for k, n in sub.outcomes.items():
            rep.outcome(k, n)
        rep.violations += [dict(v, case=dict(v["case"], alphabet=alpha)) for v in sub.violations]
        rep.samples += sub.samples
        rep.exhaustive = rep.exhaustive and sub.exhaustive
        rep.extra["bounds"].append({"alphabet": alpha, "n_ops_initial": len(m.ops(s0)), "depth": depth,
                                    "states": sub.extra["states"], "transitions": sub.extra["transitions"],
                                    "levels": sub.extra["levels"]})
        for k in ("states", "transitions", "traces_validated_against_impl"):
            rep.extra[k] = rep.extra.get(k, 0) + sub.extra[k]
        rep.extra["depth_completed"] = max(rep.extra.get("depth_completed", 0), sub.extra["depth_completed"])
    rep.extra["distinct_outcomes"] = len(rep.outcomes)
    rep.extra["raised_ops"] = sum(n for k, n in rep.outcomes.items() if k.startswith("raised"))
    rep.assumptions = ["judged: states after operations that returned; raised operations are counted and not expanded",
                       "result functions judged only with fresh converged power-flow results (tolerance 1e-9)",
                       "elements removed by a drop (incl. cascades) are read from the element tables, not from net.group"]
    return rep


def replay(case):
    return bfsx.replay_history(Model(case.get("alphabet", "thorough")), case["history"])

"""C05 power-flow results are invariant under equivalent re-representations - E1, metamorphic."""
import copy

import numpy as np

from mc import core, netalpha as na
from mc import b_tf as tf_, b_alpha as ba

PROPERTY = "C05"
LEVEL = "exploration"
META = {
    "text": "Every network reachable from 5 base nets by <=1 deviation is solved by the real runpp/rundcpp and then re-solved after every applicable equivalent re-representation at every target (per-unit base 1<->100, index relabelling with gaps / descending labels / labels 1..n of buses and of each element table including switch references, row permutation, load/sgen splitting, parallel=n as n lines, line from/to swap, added out-of-service and zero-power elements of every kind, every bus split into two buses fused by a closed z=0 switch with the subsets of its terminals moved, both switch directions); results read through the transformation's correspondence map must agree. The thorough tier adds every option set and, for all networks at 2 deviations, one composite transformation of each kind. Exhaustive within that bound, no sampling.",
    "note": "Trusted: the transformations and the correspondence maps in mc/b_tf.py (own code, not pandapower's toolbox). Only pairs where both runs report convergence are compared; a re-representation that makes a converging calculation raise is reported. Networks beyond 5 buses and values outside the finite alphabets are not covered. ZIP loads only appear with the load-splitting clause (recorded defect C01-zip).",
    "technique": "bounded exhaustive enumeration of (network, transformation, target) pairs on the real power flow with a metamorphic equality oracle",
    "design_ref": "DESIGN.md §3 E1, §4 C05",
}

OPTS_QUICK = ["ac", "ac_nonumba", "dc"]
OPTS_THOROUGH = ["ac", "ac_nonumba", "dc", "ac_qlim", "ac_pi"]


def _zip_mean(net, bus):
    ld = net.load[(net.load.bus == bus) & net.load.in_service]
    if not len(ld):
        return None
    return tuple(round(float(ld[c].mean()), 9) for c in ("const_z_p_percent", "const_i_p_percent",
                                                       "const_z_q_percent", "const_i_q_percent"))


BUS_ELEMENT_DEVS = ("load", "sgen", "gen", "ext_grid", "shunt", "ward", "xward", "storage", "motor")


def _chains(net, case, opt, tier):
    """Collision bus -> row of 4 (thorough: also 5) buses coupled by closed z=0 switches, EVERY orientation x creation
    order of the switches (the union-find of create_bus_lookup depends on both and on which bus is PV / active).
    quick: plain base nets at every collision bus under ac and ac_nonumba; nets whose single deviation puts a bus
    element on a collision bus at the first collision bus under ac (numba path)."""
    if case.get("zip") or case.get("composite") or opt not in ("ac", "ac_nonumba"):
        return []
    hot = na.HOT[case["base"]]
    devs = case["devs"]
    quick = tier == "quick"
    if not devs:
        T = []
        for b in hot:
            T += tf_.enum_chains(net, b, 4, places=("spread",) if quick else ("spread", "ends"),
                                 pos0s=(0,) if quick else (0, 1))
        if not quick:
            T += tf_.enum_chains(net, hot[0], 5)
        return T
    if len(devs) == 1 and devs[0][0] in BUS_ELEMENT_DEVS and devs[0][1] in hot and (opt == "ac" or not quick):
        if quick and not (devs[0][0] in ("gen", "ext_grid", "xward", "load", "shunt")
                          and devs[0] == _first_of_kind(case["base"], devs[0][0])):
            return []       # quick: one PV, one slack, one xward (aux bus), one PQ and one shunt neighbour per base
        return tf_.enum_chains(net, hot[0], 4)
    return []


def _first_of_kind(base, kind):
    for d in ba.menu(base):
        if d[0] == kind and d[1] in na.HOT[base]:
            return d
    return None


def run_case(case):
    net_in = ba.build(case)
    tf_.check_alphabet(net_in)
    out = {"violations": [], "n": 0, "counts": {}, "sig": []}
    base = {"base": case["base"], "devs": case["devs"]}
    if case.get("zip"):
        base["zip"] = True
    tier = case.get("tier", "quick")
    okany = False
    for opt in case["opts"]:
        opts = na.PF_OPTION_SETS[opt]
        net0 = copy.deepcopy(net_in)
        oc = na.run_pf(net0, opts)
        out["counts"]["orig_" + oc] = out["counts"].get("orig_" + oc, 0) + 1
        if oc != "ok":
            continue
        okany = True
        # the original is kept solved; transformations start from the unsolved input
        if case.get("tf") is not None:
            T = case["tf"]
        else:
            if case.get("composite"):
                T = tf_.enum_composite(net_in, na.HOT[case["base"]])
            else:
                T = [t for t, lvl in tf_.enum_transforms(net_in, tier, na.HOT[case["base"]])
                     if tf_.level_applies(lvl, opt, case["opts"], tier)]
            if case.get("zip"):
                T = [t for t in T if t[0] in ("split", "split_zip")]
            T = T + _chains(net_in, case, opt, tier)
        for t in T:
            oc2, vs = _pair(net_in, net0, opt, t, base)
            out["n"] += 1
            out["counts"]["tf_" + t[0]] = out["counts"].get("tf_" + t[0], 0) + 1
            if oc2 != "ok":
                out["counts"]["transformed_" + oc2] = out["counts"].get("transformed_" + oc2, 0) + 1
            else:
                out["sig"].append(core.dhash([case["base"], case["devs"], opt, t]))
            out["violations"] += vs
    out["outcome"] = "ok" if okany else "orig_not_converged"
    return out


def _pair(net_unsolved, net_solved, opt, t, base):
    """transformation is applied to the unsolved input; comparison is against the solved original"""
    opts = na.PF_OPTION_SETS[opt]
    dc = bool(opts.get("dc"))
    n2, M = tf_.apply_transform(net_unsolved, t)
    oc = na.run_pf(n2, opts)
    kind = t[0]
    clause = {"sn": "sn_mva", "relabel": "relabel", "rowperm": "row_permutation", "split": "split_pq",
              "split_zip": "split_zip_load", "unparallel": "parallel_lines", "swapline": "swap_from_to",
              "add": "added_inactive_element", "splitbus": "fused_bus_split", "chain": "fused_bus_chain",
              "relabel_all": "relabel",
              "rowperm_all": "row_permutation", "split_all": "split_pq", "swap_all": "swap_from_to"}[kind]
    if base.get("zip"):
        clause = "split_zip_load"
    vcase = dict(base)
    vcase["opts"] = [opt]
    vcase["tf"] = [t]
    toks = ["tf=" + kind, "opt=" + opt] + (["what=" + str(t[1])] if kind in ("add", "relabel", "rowperm") else [])
    zip_mean_changes = False
    if clause == "split_zip_load":
        tab = "load" if kind == "split_zip" else t[1]
        bus = int(net_unsolved[tab].at[t[-1], "bus"])
        zip_mean_changes = tab == "load" and _zip_mean(net_unsolved, bus) != _zip_mean(n2, bus)
    if oc != "ok":
        return oc, [core.violation(clause, {"what": "original converges, re-representation does not", "outcome": oc,
                                            "tf": t, "opt": opt}, case=vcase, tokens=toks + ["outcome=" + oc],
                                   klass=kind + "/outcome")]
    diffs = tf_.compare(net_solved, n2, M, dc=dc)
    if not diffs:
        return "ok", []
    d0 = diffs[0]
    if zip_mean_changes:
        # recorded defect C01-zip: the solver applies the UNWEIGHTED mean of the ZIP percentages of the loads of a bus
        # to the whole bus demand; splitting one of several different loads changes that mean.  Attributed only if the
        # same pair agrees once the ZIP model is switched off (i.e. nothing else differs).
        o2 = dict(opts, voltage_depend_loads=False)
        a, b = copy.deepcopy(net_unsolved), copy.deepcopy(n2)
        if na.run_pf(a, o2) == "ok" and na.run_pf(b, o2) == "ok" and not tf_.compare(a, b, M, dc=dc):
            toks.append("explained=zip_unweighted_mean_changes")
    return "ok", [core.violation(clause, {"tf": t, "opt": opt, "n_diffs": len(diffs), "first": diffs[:4]},
                                 case=vcase, tokens=toks + ["table=" + d0["table"], "col=" + d0["col"]],
                                 klass="%s/%s" % (kind if kind != "add" else "add_" + t[1], d0["table"]))]


def gen_cases(tier):
    cases = []
    k = 1 if tier == "quick" else 2
    opts = OPTS_QUICK if tier == "quick" else OPTS_THOROUGH
    for b in ba.BASES:
        for devs in na.subsets(ba.menu(b), k):
            c = {"base": b, "devs": [list(d) for d in devs], "opts": opts, "tier": tier}
            if len(devs) == 2:      # thorough only: the k=2 networks get the composite transformation set
                c.update({"opts": ["ac", "ac_nonumba"], "composite": True})
            cases.append(c)
        for devs in ba.zip_cases(b):
            cases.append({"base": b, "devs": devs, "opts": ["ac", "ac_nonumba"], "zip": True, "tier": tier})
    return cases


def explore(tier, seed):
    rep = core.Report(PROPERTY, LEVEL, tier, seed)
    core.warm(pf=True, dc=True)
    cases = gen_cases(tier)
    rep.rule = ("E1: every network = base in %s + every subset of <=%d compatible deviations of the C05 menu, under option "
                "sets %s, paired with EVERY applicable (transformation, target) enumerated by mc.b_tf.enum_transforms; a pair "
                "is distinct+non-trivial when both power flows converged, keyed by hash(base, deviations, option set, "
                "transformation descriptor)" % (ba.BASES, 1 if tier == "quick" else 2,
                                                OPTS_QUICK if tier == "quick" else OPTS_THOROUGH))
    rep.extra["bound_k"] = 1 if tier == "quick" else 2
    rep.extra["networks"] = len(cases)
    core.run_cases(rep, run_case, cases)
    rep.assumptions = ["complex bus voltages equal to 1e-7 p.u., powers to 1e-5 MVA + 1e-7 rel, currents 1e-6 kA + 1e-6 rel",
                       "only pairs where both calculations report convergence are compared; an equivalent representation "
                       "that fails while the original converges is a violation",
                       "rows added by a transformation (inactive / zero-power elements) are not judged",
                       "ZIP loads only in the split_zip_load clause"]
    return rep


def replay(case):
    return run_case(case)["violations"]

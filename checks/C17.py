"""C17 OPF minimises exactly the user's cost functions - E1 enumeration of cost kinds on every element type,
res_cost bookkeeping oracle + exact DC optimum by active-set enumeration (mc/e_qp.py)."""
import itertools

import numpy as np

from mc import core, e_opf as eo, e_qp

PROPERTY = "C17"
LEVEL = "exploration"
RTOL = 1e-4
RTOL_CCV = 1e-3     # >= 2 pwl segments: constrained cost variables, objective accurate to the interior-point tolerance only
META = {
    "text": "Every OPF problem built from a 2-bus and a 3-bus (fused 4th bus) net (thorough: also a meshed 4-bus net with binding line limits) by making 1-2 (thorough 1-3) of {gen, sgen, load, storage, dcline, second dcline} controllable and giving each of them and the ext_grid one cost entry from an alphabet of 18 kinds (poly c1 / c2,c1 / c2,c1,c0 / q-costs, pwl with 1 and 2 segments for p and q, coefficients from {-2,0,1,3}) is solved by the real runopp and rundcopp; on convergence res_cost is compared with the sum of the user's functions at each element's own reported power, and for convex DC problems with the exact optimum obtained by enumerating all active sets of the DC-OPF written down from the element tables.",
    "note": "Trusted: mc/e_qp.py (numpy KKT solves of every active set; DC model from the documented element equations, lines only) and the cost bookkeeping in checks/C17.py. Cost-function convention: element's own variable (load/storage consumption positive, dcline power at the from bus); pwl f = slope_1*p on the first segment. Documented refusals/limitations (pwl mixed with quadratic, >1 pwl segment for loads/storages/q) are outcomes, not violations. Relative tolerance 1e-4 (1e-3 with >= 2 pwl segments) of the gross cost.",
    "technique": "bounded exhaustive input enumeration on the real OPF with a bookkeeping oracle and an exact active-set-enumeration reference optimum",
    "design_ref": "DESIGN.md §3 E1, §4 C17, §2.4 qp",
}

# ----------------------------------------------------------------------------------------------
# alphabets
# ----------------------------------------------------------------------------------------------
# cost kinds: name -> ("poly", cp1, cp0, cp2, cq1, cq0, cq2) | ("pwl", ptype, [slopes])
KINDS = {
    "L1": ("poly", 1., 0., 0., 0., 0., 0.),
    "L-2": ("poly", -2., 0., 0., 0., 0., 0.),
    "L3c": ("poly", 3., 1., 0., 0., 0., 0.),
    "L0c": ("poly", 0., -2., 0., 0., 0., 0.),
    "Q1": ("poly", -2., 0., 1., 0., 0., 0.),
    "Q3": ("poly", 1., 0., 3., 0., 0., 0.),
    "Q1c": ("poly", -2., 3., 1., 0., 0., 0.),
    "Qn": ("poly", 1., 0., -2., 0., 0., 0.),
    "R0c": ("poly", 1., 0., 0., 0., 3., 0.),
    "R1": ("poly", 1., 0., 0., 1., 0., 0.),
    "R2": ("poly", 1., 0., 0., -2., 3., 1.),
    "R2q": ("poly", -2., 0., 1., 1., 0., 3.),
    "W1": ("pwl", "p", [3.]),
    "W1n": ("pwl", "p", [-2.]),
    "W2": ("pwl", "p", [1., 3.]),
    "W2n": ("pwl", "p", [3., 1.]),
    "V1": ("pwl", "q", [1.]),
    "V2": ("pwl", "q", [1., 3.]),
}
K_ALL = list(KINDS)
K_RED = ["L-2", "L3c", "Q1c", "Q3", "R2", "W1", "W2"]
K_RED4 = ["L-2", "L3c", "Q1c", "W1"]
K_EG = ["L3", "Q", "W"]
EG_KINDS = {"L3": ("poly", 3., 0., 0., 0., 0., 0.), "Q": ("poly", 1., 0., 1., 0., 0., 0.), "W": ("pwl", "p", [2.])}
Q_KINDS = {"R0c", "R1", "R2", "R2q", "V1", "V2"}


def elem_catalog(b):
    s = eo.SCALE[b]
    h = eo.HOT[b][0]
    h1 = eo.HOT[b][-1]
    return {
        "gen": ["gen", h, 1.0 * s, 1.0, "w", "w", True],
        "sgen": ["sgen", h1, 0.8 * s, 0.1 * s, "w", "w", True],
        "load": ["load", h, 1.5 * s, 0.5 * s, "w", "w", True],
        "storage": ["storage", h, 0.6 * s, 0.2 * s, "wn", "w", True],
        "dcline": ["dcline", 0, h1, 0.5 * s, 0., 0., 2. * s, "w"],
        # a second dc line (cost entries on a dc line that is not the first row of net.dcline)
        "dcline2": ["dcline", 0, h, 0.3 * s, 0., 0., 1.5 * s, "w"],
    }


def limits_of(dev, s):
    """(plo, phi, qlo, qhi) of an element deviation in its own convention"""
    k = dev[0]
    if k == "dcline":
        qlo, qhi = eo.qlim(dev[7], 0., s)
        return 0., dev[6], qlo, qhi
    if k == "eg":
        lo, hi = eo.plim(dev[1], 3. * s, s)
        qlo, qhi = eo.qlim(dev[2], 0., s)
        return lo, hi, qlo, qhi
    lo, hi = eo.plim(dev[4], dev[2], s)
    qlo, qhi = eo.qlim(dev[5], 0. if k == "gen" else dev[3], s)
    return lo, hi, qlo, qhi


def cost_dev(k, kind, lims, s):
    """cost deviation for element position k (or 'eg'); pwl points span the element's limits"""
    spec = KINDS.get(kind) or EG_KINDS[kind]
    if spec[0] == "poly":
        _, cp1, cp0, cp2, cq1, cq0, cq2 = spec
        # coefficients are per MW: scale quadratic terms so that costs stay O(1) on the 110 kV net
        return ["poly", k, cp1, cp0 * s, cp2 / s, cq1, cq0 * s, cq2 / s]
    _, ptype, slopes = spec
    lo, hi = (lims[0], lims[1]) if ptype == "p" else (lims[2], lims[3])
    if len(slopes) == 1:
        pts = [[lo, hi, slopes[0]]]
    else:
        mid = round(lo + 0.4 * (hi - lo), 9)
        pts = [[lo, mid, slopes[0]], [mid, hi, slopes[1]]]
    return ["pwl", k, ptype, pts]


EG_DEV = ["eg", "wn", "w", "nocol"]


def mk_case(b, types, kinds, egkind, mode, blim="none", extra=()):
    s = eo.SCALE[b]
    cat = elem_catalog(b)
    elems = [cat[t] for t in types] + [EG_DEV] + [list(e) for e in extra]
    costs = [cost_dev(k, kind, limits_of(elems[k], s), s) for k, kind in enumerate(kinds) if kind is not None]
    costs.append(cost_dev("eg", egkind, limits_of(EG_DEV, s), s))
    return {"base": b, "elems": elems, "vlim": "wide", "blim": blim, "costs": costs, "mode": mode,
            "kinds": list(kinds) + [egkind]}


def gen_cases(tier):
    cases = []
    types = ["gen", "sgen", "load", "storage", "dcline"]
    types2 = types + ["dcline2"]          # pairs also with a second dc line
    modes = ["ac", "dc"]

    def add(b, ts, ks, eg, blim="none", extra=()):
        for mode in modes:
            if mode == "dc" and any(k in Q_KINDS for k in ks if k):
                continue        # the DC problem has no reactive power: q-cost entries have no meaning there
            cases.append(mk_case(b, ts, ks, eg, mode, blim, extra))
    # k = 1: every element type x every cost kind x ext_grid cost kind
    for b in (["D2", "R3"] if tier == "quick" else ["D2", "R3", "M4"]):
        for t in types:
            for k in K_ALL:
                for eg in K_EG:
                    add(b, [t], [k], eg)
    # k = 2: every pair of types x reduced (thorough: full) kind alphabet
    for b, k2 in ((("D2", K_RED), ("R3", K_RED4)) if tier == "quick" else (("D2", K_ALL), ("R3", K_RED))):
        for ta, tb in itertools.combinations(types2 if b == "D2" else types, 2):
            for ka in k2:
                for kb in k2:
                    for eg in (["L3", "Q"] if tier == "quick" else K_EG):
                        add(b, [ta, tb], [ka, kb], eg)
    # collisions: cost entries on elements that are not optimisation variables; scaling; branch limits
    for b in ("D2", "R3"):
        s = eo.SCALE[b]
        h = eo.HOT[b][0]
        for t in ("sgen", "load", "storage"):
            fixed = [t, h, 0.7 * s, 0.1 * s, "x", "x", False]
            for k in ("L1", "L3c", "Q1", "W1"):
                for gk, eg in (("L1", "L3"), ("L1", "Q"), ("W1", "W"), ("L-2", "W")):
                    for mode in modes:
                        # a controllable gen with a cost + a FIXED element with a cost entry that comes FIRST in the
                        # cost table (poly and pwl): rows without an OPF generator must not shift the others
                        c = mk_case(b, ["gen"], [gk], eg, mode)
                        c["elems"].append(fixed)
                        c["costs"].insert(0, cost_dev(len(c["elems"]) - 1, k, limits_of(fixed, s), s))
                        c["kinds"].append("fixed:" + k)
                        cases.append(c)
        for t in ("gen", "sgen", "load"):
            for k in ("L1", "Q1"):
                for mode in modes:
                    # out-of-service element with a cost entry (no constant term: contributes nothing under any reading)
                    c = mk_case(b, [t, "sgen" if t != "sgen" else "gen"], [k, "L1"], "L3", mode, extra=[["oos", 0]])
                    c["kinds"].append("oos")
                    cases.append(c)
                    c = mk_case(b, [t, "sgen" if t != "sgen" else "gen"], ["L1", k], "L3", mode, extra=[["oos", 1]])
                    c["kinds"].append("oos")
                    cases.append(c)
        for t in ("sgen", "load", "storage"):
            for k in ("L-2", "Q1c", "W1"):
                for mode in modes:
                    c = mk_case(b, [t], [k], "L3", mode, extra=[["scal", 0, 0.5]])
                    c["kinds"].append("scaling")
                    cases.append(c)
    for b in (["D2"] if tier == "quick" else ["D2", "R3", "M4"]):
        for ta, tb in itertools.combinations(types, 2):
            for ka, kb in (("L-2", "Q1c"), ("Q1", "L3c"), ("W2", "L1")):
                for blim in ("bind",):
                    cases.append(mk_case(b, [ta, tb], [ka, kb], "L3", "dc", blim))
    if tier == "thorough":
        k3 = ["L-2", "Q1c", "W1", "L3c"]
        for ts in itertools.combinations(types, 3):
            for ks in itertools.product(k3, repeat=3):
                for eg in ("L3", "Q"):
                    add("D2", list(ts), list(ks), eg)
    return cases


# ----------------------------------------------------------------------------------------------
# oracle
# ----------------------------------------------------------------------------------------------
def entries(net):
    """every cost entry as (tab, idx, 'p'|'q', pieces-maker) in the user's own variable"""
    out = []
    for _, r in net.poly_cost.iterrows():
        out.append((r["et"], int(r["element"]), "p", ("poly", r["cp2_eur_per_mw2"], r["cp1_eur_per_mw"], r["cp0_eur"])))
        if r["cq2_eur_per_mvar2"] or r["cq1_eur_per_mvar"] or r["cq0_eur"]:
            out.append((r["et"], int(r["element"]), "q", ("poly", r["cq2_eur_per_mvar2"], r["cq1_eur_per_mvar"], r["cq0_eur"])))
    for _, r in net.pwl_cost.iterrows():
        out.append((r["et"], int(r["element"]), r["power_type"], ("pwl", [list(x) for x in r["points"]])))
    return out


def own_limits(net, tab, i, which):
    if tab == "dcline":
        if which == "p":
            return 0., float(net.dcline.max_p_mw.at[i])
        return float(net.dcline.min_q_from_mvar.at[i]), float(net.dcline.max_q_from_mvar.at[i])
    a, b = ("min_p_mw", "max_p_mw") if which == "p" else ("min_q_mvar", "max_q_mvar")
    return float(net[tab][a].at[i]), float(net[tab][b].at[i])


def pieces_of(spec, lo, hi):
    if spec[0] == "poly":
        return [(-e_qp.INF, e_qp.INF, float(spec[1]), float(spec[2]), float(spec[3]))]
    return e_qp.pwl_pieces(spec[1], lo, hi)


# order = preference of `explain` among equally small explanations: models of recorded OPEN defects first, the model of the
# repaired defect (even_order_sign_flip, fixed in 0eea9884b) last - in a mixed pwl+poly problem "cp0 of a storage entry dropped"
# and "cp0 of a storage entry negated" can give the same number, and only the former exists in the code now; a return of the sign
# defect is still reported by every unmixed case, where no other model reproduces it
DEFECTS = ("mixed_pwl_poly_drops_c0_and_q", "cost_on_fixed_element_dropped",
           "nonconvex_pwl_max_of_segments", "dcline_pwl_q_opposite_sign", "cq0_only_dropped", "even_order_sign_flip")


def is_variable(net, tab, i):
    """is the element an optimisation variable of the OPF (in service and controllable)?"""
    if not bool(net[tab].in_service.at[i]):
        return False
    return eo.is_controllable(net, tab, i)


def entry_pieces(net, tab, i, which, spec, models=()):
    """pieces of one cost entry in the user's own variable; `models` = recorded defect models to apply, each
    recomputing exactly what that defect does to the entry (None = the entry does not count at all)"""
    lo, hi = own_limits(net, tab, i, which)
    pcs = pieces_of(spec, lo, hi)
    mixed = len(net.pwl_cost) > 0 and len(net.poly_cost) > 0
    if "cost_on_fixed_element_dropped" in models and not is_variable(net, tab, i):
        # make_objective._get_gen_index finds no gen row for the element: the entry is skipped silently
        return None
    if "mixed_pwl_poly_drops_c0_and_q" in models and mixed and spec[0] == "poly":
        # _add_linear_costs_as_pwl_cost keeps cp1 only
        if which == "q":
            return None
        pcs = [(a0, a1, a, b, 0.) for (a0, a1, a, b, c) in pcs]
    elif "even_order_sign_flip" in models and spec[0] == "poly" and \
            (tab in ("load", "storage") or (tab == "dcline" and which == "p")):
        # _fill_gencost_poly multiplies c2, c1, c0 by -1 in the generator variable x = -p
        pcs = [(a0, a1, -a, b, -c) for (a0, a1, a, b, c) in pcs]
    if "dcline_pwl_q_opposite_sign" in models and spec[0] == "pwl" and tab == "dcline" and which == "q":
        # _map_costs_to_gen gives dc lines sign -1 for pwl q-costs while _fill_gencost_poly gives +1 for poly q-costs:
        # the same "1 EUR/Mvar" means opposite things; the pwl one is evaluated at +res_dcline.q_from_mvar
        pcs = [(-a1, -a0, a, -b, c) for (a0, a1, a, b, c) in reversed(pcs)]
    if "cq0_only_dropped" in models and spec[0] == "poly" and which == "q" and len(net.pwl_cost) == 0 and \
            not net.poly_cost[["cq1_eur_per_mvar", "cq2_eur_per_mvar2"]].values.any():
        # _init_gencost allocates reactive cost rows only if some cq1/cq2 is non-zero: a lone cq0 is lost
        return None
    if "nonconvex_pwl_max_of_segments" in models and spec[0] == "pwl" and len(pcs) > 1:
        # constrained-cost-variable formulation: y >= every segment line, so y = max over the lines
        pcs = [("max", pcs)]
    return pcs


def pval(pcs, x):
    if pcs and pcs[0][0] == "max":
        return max(b * x + c for (_, _, a, b, c) in pcs[0][1])
    return e_qp.fval(pcs, x)


def user_cost(net, dc, models=()):
    """sum of the user's functions at the element's own reported power (models=(): the property's right-hand side)"""
    tot = 0.
    parts = []
    for tab, i, which, spec in entries(net):
        if dc and which == "q":
            continue
        pcs = entry_pieces(net, tab, i, which, spec, models)
        if pcs is None:
            continue
        x = eo.own_power(net, tab, i, which)
        v = pval(pcs, x)
        parts.append([tab, i, which, x, v])
        tot += v
    return tot, parts


def convex(net):
    for tab, i, which, spec in entries(net):
        if which == "q":
            continue
        if spec[0] == "poly" and spec[1] < 0:
            return False
        if spec[0] == "pwl":
            sl = [p[2] for p in spec[1]]
            if any(sl[k + 1] < sl[k] for k in range(len(sl) - 1)):
                return False
    return True


def documented_limitation(net):
    """doc/opf/formulation.rst note: pwl for q with >= 2 segments does not work; loads (and storages / dc lines, which
    share the sign handling of make_objective.costs_from_areas) can only have 2 data points (1 segment) in their p-pwl."""
    for _, r in net.pwl_cost.iterrows():
        if len(r["points"]) > 1 and (r["power_type"] == "q" or r["et"] in ("load", "storage", "dcline")):
            return True
    return False


def has_ccv(net):
    """pwl entries with >= 2 segments are solved through constrained cost variables (looser objective accuracy)"""
    return any(len(r["points"]) > 1 for _, r in net.pwl_cost.iterrows())


def reference_problem(net, models=()):
    def cost_of(tab, i, lo, hi):
        for t, j, which, spec in entries(net):
            if t == tab and j == i and which == "p":
                return entry_pieces(net, tab, i, "p", spec, models)
        return None
    variables, A, b, A_in, b_in, names, nc = e_qp.dc_problem(net, cost_of)
    # cost entries on elements that are not variables are constants of the same problem
    const = 0.
    vn = set(names[:nc])
    for tab, i, which, spec in entries(net):
        if which == "p" and (tab, i) not in vn:
            pcs = entry_pieces(net, tab, i, "p", spec, models)
            if pcs is not None:
                const += pval(pcs, eo.own_power(net, tab, i, "p"))
    return variables, A, b, A_in, b_in, names, nc, const


def _close(a, b, rtol=RTOL, scale=1.):
    """scale: gross cost (sum of |entry values|) - the solver's accuracy is relative to the individual terms,
    not to a total in which generation costs and feed-in revenues cancel"""
    return abs(a - b) <= rtol * max(1., scale, abs(a), abs(b))


def explain(net, dc, rc, uc, rtol, scale=1.):
    """smallest set of recorded defect models whose exact recomputation reproduces the reported res_cost"""
    for r in range(1, len(DEFECTS) + 1):
        for ms in itertools.combinations(DEFECTS, r):
            pc, _ = user_cost(net, dc, ms)
            # (rc is not close to uc here, so a model set that reproduces rc necessarily changes the value; demanding that the
            # change alone exceeds the tolerance would reject a recorded defect whose effect is just below it while effect + solver
            # inaccuracy is just above)
            if _close(rc, pc, rtol, scale) and pc != uc:
                # every model in the set must matter
                if all(user_cost(net, dc, tuple(m for m in ms if m != d))[0] != pc for d in ms):
                    return ms
    return ()


def judge(net, where, case):
    dc = case["mode"] == "dc"
    vs = []
    info = {}
    toks0 = ["mode=" + case["mode"]] + ["kind=" + k for k in sorted(set(case.get("kinds", ())))]
    ets = sorted(set(e[0] for e in entries(net)))
    toks0 += ["et=" + t for t in ets]
    rc = float(net.res_cost)
    uc, parts = user_cost(net, dc)
    rtol = RTOL_CCV if has_ccv(net) else RTOL
    scale = sum(abs(p[4]) for p in parts)
    if documented_limitation(net):
        info["documented_limitation"] = 1
        return vs, info
    ms = ()
    if not _close(rc, uc, rtol, scale):
        ms = explain(net, dc, rc, uc, rtol, scale)
        toks = list(toks0) + ["explained=" + m for m in ms]
        vs.append(core.violation("res_cost_equals_user_cost", {"res_cost": rc, "user_cost": uc, "parts": parts,
                                                                 "defect_models": list(ms)},
                                 tokens=toks, klass="res_cost/" + "+".join(ets)))
    if dc and convex(net):
        try:
            variables, A, b, A_in, b_in, names, nc, const = reference_problem(net)
        except NotImplementedError:
            variables = None
        res = e_qp.solve(variables, A, b, A_in, b_in) if variables is not None else None
        if res is not None and res["cost"] is not None:
            opt = res["cost"] + const
            info["qp_systems"] = res["systems"]
            info["qp"] = 1
            if len(b_in):
                info["qp_with_line_limits"] = 1
            if not _close(rc, opt, rtol, scale):
                toks = list(toks0)
                subopt = uc > opt + rtol * max(1., scale, abs(opt))
                toks.append("dispatch_suboptimal" if subopt else "dispatch_optimal")
                if ms:
                    ok = not subopt
                    if subopt:
                        # is the reported dispatch a first-order point of the objective the defect models build?
                        v2, A2, b2, Ai2, bi2, names2, nc2, _ = reference_problem(net, ms)
                        xr = np.array([eo.own_power(net, t, i, "p") for (t, i) in names2[:nc2]])
                        th = np.deg2rad(np.array([net.res_bus.va_degree.at[bb] for (_, bb) in names2[nc2:]]))
                        ok = e_qp.is_kkt_point(v2, A2, b2, Ai2, bi2, np.concatenate([xr, th]))
                    if ok:
                        toks += ["explained=" + m for m in ms]
                vs.append(core.violation("dc_optimum", {"res_cost": rc, "reference_optimum": opt, "user_cost_at_dispatch": uc,
                                                        "reference_x": [[list(nm), float(v)] for nm, v in zip(names[:nc], res["x"][:nc])],
                                                        "parts": parts, "defect_models": list(ms)},
                                         tokens=toks, klass="dc_optimum/" + "+".join(ets)))
    return vs, info


def run_case(case):
    net, where = eo.build(case)
    oc = eo.run_opf(net, case["mode"])
    out = {"violations": [], "n": 1, "counts": {"outcome_%s_%s" % (case["mode"], oc): 1}, "outcome": oc, "sig": None}
    if oc != "ok":
        return out
    vs, info = judge(net, where, case)
    out["violations"] = vs
    for k, v in info.items():
        out["counts"][k] = v
    out["sig"] = "%s|%s|%s|%s" % (case["base"], case["mode"], "+".join(case.get("kinds", ())), core.dhash(case))
    return out


def explore(tier, seed):
    rep = core.Report(PROPERTY, LEVEL, tier, seed)
    core.warm(pf=True, dc=True, opf=True)
    cases = gen_cases(tier)
    rep.rule = ("E1: 1-2 (thorough 1-3) controllable elements out of {gen, sgen, load, storage, dcline} + ext_grid, each with one "
                "cost entry from the kind alphabet %s (ext_grid: %s), on bases D2/R3 (thorough + M4), AC and DC OPF; plus cost "
                "entries on fixed / out-of-service / scaled elements and DC problems with binding line limits; a case is "
                "distinct+non-trivial when the OPF converged, keyed by (base, mode, cost kinds, case hash)" % (K_ALL, K_EG))
    rep.extra["cases"] = len(cases)
    rep.extra["bound_k"] = 2 if tier == "quick" else 3
    core.run_cases(rep, run_case, cases)
    rep.assumptions = ["tolerance 1e-4 (1e-3 when constrained cost variables are used: pwl with >= 2 segments) relative to max(1, sum of |cost entry values|); only converged OPFs are judged",
                       "DC optimum clause only for convex user costs (c2 >= 0, pwl slopes non-decreasing) on line-only nets",
                       "documented limitations (pwl q / load pwl with >1 segment) are counted, not judged",
                       "values outside the finite alphabets are not covered"]
    return rep


def replay(case):
    return run_case(case)["violations"]

"""C19 State estimation reproduces the true state from exact measurements - E1 over measurement sets and orders."""
import copy
import itertools

import numpy as np

import pandapower as pp
from pandapower.estimation import estimate, chi2_analysis, remove_bad_data

from mc import core, netalpha as na

PROPERTY = "C19"
LEVEL = "exploration"
META = {
    "text": "For three solved networks (radial with fused buses, meshed ring, transformer feeder) noise-free measurements are taken from the power-flow results: three observable core sets (V at slack + P,Q injections everywhere; V at one bus + P,Q flows on a spanning tree, either branch side; mixed) united with every subset of <=2 redundant extras (line current, second voltage, duplicate measurement, opposite-side flow, transformer flow), in every order for <=5 measurements and all rotations + reversal beyond, for algorithms wls and wls_with_zero_constraint and init flat/slack; estimate must succeed, reproduce bus voltages and line/trafo flows within 1e-5 and flag no bad data (chi2_analysis False, remove_bad_data removes nothing).",
    "note": "Only exact measurements with uniform standard deviations (weighting errors are unobservable with exact data, stated in DESIGN.md); networks of 4 buses; observability of each core set is by construction.",
    "technique": "bounded exhaustive enumeration of measurement sets and orders with a differential oracle against the power-flow solution",
    "design_ref": "DESIGN.md §4 C19",
}

TOL_V = 1e-5
TOL_S = 1e-4

_SOLVED = {}


def solved(name):
    if name not in _SOLVED:
        if name == "W3":       # three-winding transformer net with a second, out-of-service trafo3w BEFORE the active one in the table
            net = na.base("W3")
            t = net.trafo3w.loc[[0]].copy()
            t.index = [1]
            net.trafo3w = __import__("pandas").concat([net.trafo3w, t])
            net.trafo3w.at[0, "in_service"] = False
        elif name == "Z4":       # R3 + bus 4 behind the fused buses 2=3, which carry no injection (zero-injection node)
            net = na.build({"base": "R3", "devs": [["bus", 2, True], ["load", 4, 0.8, 0.2, "P", 1., True]]})
        elif name != "W3":
            net = na.base(name)
        if name == "R3":
            pp.create_load(net, 3, 0.8, 0.2)
        pp.runpp(net, calculate_voltage_angles=True)
        _SOLVED[name] = net
    return copy.deepcopy(_SOLVED[name])


def _branches(net):
    out = [("line", int(i)) for i in net.line.index if net.line.in_service.at[i]]
    out += [("trafo", int(i)) for i in net.trafo.index]
    return out


def meas_value(net, m):
    t, et, el, side = m
    if et == "bus":
        col = {"v": "vm_pu", "p": "p_mw", "q": "q_mvar", "va": "va_degree"}[t]
        return float(net.res_bus.at[el, col])
    if et == "line":
        col = {"p": "p_%s_mw", "q": "q_%s_mvar", "i": "i_%s_ka"}[t] % side
        return float(net.res_line.at[el, col])
    if et == "trafo":
        col = {"p": "p_%s_mw", "q": "q_%s_mvar", "i": "i_%s_ka"}[t] % side
        return float(net.res_trafo.at[el, col])
    if et == "trafo3w":
        col = {"p": "p_%s_mw", "q": "q_%s_mvar", "i": "i_%s_ka"}[t] % side
        return float(net.res_trafo3w.at[el, col])
    raise ValueError(m)


def core_sets(name, net):
    buses = [int(b) for b in net.bus.index]
    slack = int(net.ext_grid.bus.iloc[0])
    A = [["v", "bus", slack, None]] + [[t, "bus", b, None] for b in buses for t in ("p", "q")]
    # spanning tree flows: radial nets use all branches; M4 uses lines 0,1,2 (ring without closing line and chord)
    if name == "W3":
        A = [["v", "bus", slack, None]] + [[t, "bus", b, None] for b in buses for t in ("p", "q")]
        F = [["v", "bus", slack, None]] + [[t, "trafo3w", 1, sd] for sd in ("mv", "lv") for t in ("p", "q")] + \
            [["p", "line", 0, "from"], ["q", "line", 0, "from"]]
        G = [["v", "bus", 1, None]] + [[t, "trafo3w", 1, sd] for sd in ("hv", "lv") for t in ("p", "q")] + \
            [["p", "line", 0, "to"], ["q", "line", 0, "to"], ["p", "bus", 1, None], ["q", "bus", 1, None]]
        return {"A": A, "F": F, "G": G}
    if name == "Z4":
        inj = [[t, "bus", b, None] for b in (0, 1, 4) for t in ("p", "q")]
        A = [["v", "bus", slack, None]] + inj
        C = [["v", "bus", 4, None]] + inj[2:] + [["p", "line", 0, "from"], ["q", "line", 0, "from"]]
        return {"A": A, "C": C}
    tree = {"R3": [("line", 0), ("line", 1)], "T3": [("trafo", 0), ("line", 0)], "M4": [("line", 0), ("line", 1), ("line", 2)]}[name]
    far = {"R3": 2, "T3": 2, "M4": 2}[name]
    sides = {"line": ("from", "to"), "trafo": ("hv", "lv")}
    B1 = [["v", "bus", far, None]] + [[t, et, el, sides[et][0]] for et, el in tree for t in ("p", "q")]
    B2 = [["v", "bus", slack, None]] + [[t, et, el, sides[et][1]] for et, el in tree for t in ("p", "q")]
    # B sets leave the non-tree buses' injections open: add injections so that every bus is observable in meshed nets
    if name == "M4":
        for S in (B1, B2):
            S += [[t, "bus", b, None] for b in (1, 3) for t in ("p", "q")]
    if name == "R3":
        for S in (B1, B2):
            S += [[t, "bus", 3, None] for t in ("p", "q")]
    # T3: bus 3 is fused with bus 2 (closed bus-bus switch); an injection measurement at only one bus of a fused
    # node is interpreted as the node's measurement (fuse_buses_with_bb_switch="all", documented) - not used here
    C = [["v", "bus", slack, None]] + [[t, "bus", b, None] for b in buses[1:] for t in ("p", "q")] + \
        [[t, tree[0][0], tree[0][1], sides[tree[0][0]][0]] for t in ("p", "q")]
    # D: like A, but the Q injection of the last tree branch's far bus is replaced by the Q flow arriving there
    et, el = tree[-1]
    farbus = int(net[et].at[el, {"line": "to_bus", "trafo": "lv_bus"}[et]])
    from mc import balance
    node = balance.fused_nodes(net)
    fused = {b for b in buses if node[b] == node[farbus]}      # never a partial injection measurement on a fused node
    D = [m for m in A if not (m[0] == "q" and m[1] == "bus" and m[2] in fused)] + [["q", et, el, sides[et][1]]]
    return {"A": A, "B1": B1, "B2": B2, "C": C, "D": D}


def extras(name, net):
    br = _branches(net)
    et, el = br[0]
    sides = {"line": ("from", "to"), "trafo": ("hv", "lv")}
    ex = [["i", "line", int(net.line.index[0]), "from"], ["v", "bus", 1, None], ["p", "bus", 1, None],
          ["p", et, el, sides[et][1]], ["q", et, el, sides[et][0]], ["i", "line", int(net.line.index[-1]), "to"]]
    if len(net.trafo):
        ex.append(["q", "trafo", 0, "lv"])
        ex.append(["i", "trafo", 0, "hv"])
        ex.append(["i", "trafo", 0, "lv"])
    if len(net.trafo3w):
        ex = [["i", "line", 0, "from"], ["v", "bus", 2, None], ["p", "trafo3w", 1, "hv"], ["q", "trafo3w", 1, "mv"],
              ["i", "trafo3w", 1, "lv"], ["i", "trafo3w", 1, "mv"]]
    return ex


def orders(ms):
    n = len(ms)
    if n <= 5:
        return [list(p) for p in itertools.permutations(range(n))]
    rots = [list(range(k, n)) + list(range(k)) for k in range(0, n, max(1, n // 6))]
    return rots + [list(reversed(range(n)))]


def run_case(case):
    net = solved(case["net"])
    ms = case["meas"]
    for t, et, el, side in ms:
        val = meas_value(net, (t, et, el, side))
        sd = 0.001 if t in ("v", "va") else 0.01
        pp.create_measurement(net, t, et, val, sd, el, side=side)
    toks = ["net=" + case["net"], "alg=" + case["alg"], "init=" + case["init"], "core=" + case["core"]] + \
           ["extra=%s.%s" % (m[0], m[1]) for m in case.get("extra", [])]
    try:
        ok = estimate(net, algorithm=case["alg"], init=case["init"], tolerance=1e-8, maximum_iterations=50,
                      zero_injection="no_inj_bus" if case["net"] == "Z4" else "aux_bus")
    except Exception as e:
        if isinstance(e, UserWarning) and "no bus with zero injections" in str(e):
            return {"outcome": "documented_refusal", "sig": None, "violations": []}
        return {"outcome": "raise:" + type(e).__name__, "sig": None,
                "violations": [core.violation("estimate_succeeds", {"exception": type(e).__name__, "msg": str(e)[:200]},
                                              tokens=toks + ["exc=" + type(e).__name__], klass="raise:" + type(e).__name__)]}
    vs = []
    if not ok:
        vs.append(core.violation("estimate_succeeds", {"returned": bool(ok)}, tokens=toks, klass="returned_false"))
        return {"outcome": "false", "sig": None, "violations": vs}
    V = net.res_bus.vm_pu.values * np.exp(1j * np.deg2rad(net.res_bus.va_degree.values))
    Ve = net.res_bus_est.vm_pu.values * np.exp(1j * np.deg2rad(net.res_bus_est.va_degree.values))
    d = np.abs(V - Ve)
    if not np.nanmax(d) <= TOL_V:
        i = int(np.nanargmax(d))
        vs.append(core.violation("voltages_equal_pf", {"bus": int(net.bus.index[i]), "pf": [net.res_bus.vm_pu.iloc[i], net.res_bus.va_degree.iloc[i]],
                                                       "est": [net.res_bus_est.vm_pu.iloc[i], net.res_bus_est.va_degree.iloc[i]]},
                                 tokens=toks, klass="voltage"))
    for tab, cols in (("line", ["p_from_mw", "q_from_mvar", "p_to_mw", "q_to_mvar"]), ("trafo", ["p_hv_mw", "q_hv_mvar", "p_lv_mw", "q_lv_mvar"]),
                      ("trafo3w", ["p_hv_mw", "q_hv_mvar", "p_mv_mw", "q_mv_mvar", "p_lv_mw", "q_lv_mvar"])):
        if not len(net[tab]) or vs:
            continue
        a, b = net["res_" + tab][cols].values, net["res_%s_est" % tab][cols].values
        dd = np.abs(a - b)
        if not np.nanmax(dd) <= TOL_S:
            i, j = np.unravel_index(int(np.nanargmax(dd)), dd.shape)
            vs.append(core.violation("flows_equal_pf", {"table": tab, "row": int(i), "col": cols[j], "pf": a[i, j], "est": b[i, j]},
                                     tokens=toks, klass="flow:" + tab))
    if not vs and case.get("bad_data"):
        from mc import balance
        n_states = 2 * len(set(balance.fused_nodes(net).values())) - 1
        redundancy = len(ms) - n_states
        rt = toks + ["redundancy=%d" % redundancy if redundancy < 3 else "redundancy>=3"]
        try:
            flagged = chi2_analysis(net, init=case["init"], tolerance=1e-8, maximum_iterations=50)
            if flagged:
                t = list(rt)
                if redundancy == 0:
                    t.append("explained=chi2_zero_degrees_of_freedom")
                vs.append(core.violation("no_bad_data", {"chi2_analysis": bool(flagged), "redundancy": redundancy}, tokens=t, klass="chi2"))
            before = net.measurement.copy()
            try:
                remove_bad_data(net, init=case["init"], tolerance=1e-8, maximum_iterations=50)
                removed = [i for i in before.index if i not in net.measurement.index]
                exc = None
            except Exception as e:
                removed = [i for i in before.index if i not in net.measurement.index]
                exc = "%s: %s" % (type(e).__name__, str(e)[:120])
            if removed or exc:
                # was every removed measurement a critical one (the state is not observable without it)? then the
                # normalised residual 0/0 of an exact critical measurement was flagged: recorded defect
                critical = True
                for ridx in removed:
                    n2 = solved(case["net"])
                    for j, (t_, et, el, side) in enumerate(ms):
                        if before.index[j] == ridx:
                            continue
                        pp.create_measurement(n2, t_, et, meas_value(n2, (t_, et, el, side)), 0.001 if t_ in ("v", "va") else 0.01, el, side=side)
                    try:
                        ok2 = estimate(n2, algorithm="wls", init=case["init"], tolerance=1e-8)
                        V2 = n2.res_bus_est.vm_pu.values * np.exp(1j * np.deg2rad(n2.res_bus_est.va_degree.values)) if ok2 else None
                        if ok2 and np.nanmax(np.abs(V2 - V)) <= 1e-4:
                            critical = False
                    except Exception:
                        pass
                t = list(rt)
                if critical and removed:
                    t.append("explained=critical_measurement_flagged")
                vs.append(core.violation("no_bad_data", {"removed": [int(r) for r in removed], "exception": exc, "redundancy": redundancy},
                                         tokens=t, klass="rn_max"))
        except Exception as e:
            vs.append(core.violation("no_bad_data", {"exception": type(e).__name__, "msg": str(e)[:200]}, tokens=rt, klass="bad_data_raise"))
    return {"outcome": "ok", "violations": vs, "sig": "%s|%s|%s|%s" % (case["net"], case["alg"], case["init"], core.dhash(ms))}


def gen_cases(tier):
    cases = []
    for name in ("R3", "M4", "T3", "Z4", "W3"):
        net = solved(name)
        cs = core_sets(name, net)
        ex = extras(name, net)
        for cname, cms in cs.items():
            kmax = 2
            for r in range(kmax + 1):
                for combo in itertools.combinations(range(len(ex)), r):
                    ms = cms + [ex[i] for i in combo]
                    base = {"net": name, "core": cname, "extra": [ex[i] for i in combo]}
                    ords = orders(ms) if (r <= 1 or tier == "thorough") else [list(range(len(ms)))]
                    if r == 0 or tier == "thorough":
                        pass
                    elif r == 1:
                        ords = ords[:3]
                    for oi, o in enumerate(ords):
                        for alg in ("wls", "wls_with_zero_constraint"):
                            for init in (("flat", "slack") if oi == 0 else ("flat",)):
                                c = dict(base)
                                c.update(meas=[ms[i] for i in o], alg=alg, init=init, bad_data=(oi == 0 and alg == "wls" and init == "flat"))
                                cases.append(c)
    return cases


def explore(tier, seed):
    rep = core.Report(PROPERTY, LEVEL, tier, seed)
    core.warm(pf=True)
    cases = gen_cases(tier)
    rep.rule = ("E1: nets {R3, M4, T3, Z4 (with a zero-injection node)} x 2-4 observable core measurement sets x every subset of <=2 of 6-8 redundant extras x measurement orders "
                "(rotations + reversal; all orders in the thorough tier for small sets) x {wls, wls_with_zero_constraint} x init {flat, slack}; "
                "distinct/non-trivial = estimate that returned True, keyed by (net, algorithm, init, ordered measurement list)")
    rep.extra["estimates"] = len(cases)
    core.run_cases(rep, run_case, cases)
    rep.assumptions = ["exact measurements, std_dev 0.001 p.u. / 0.01 MW", "tolerances 1e-5 p.u. complex voltage, 1e-4 MVA flows"]
    return rep


def replay(case):
    return run_case(case)["violations"]

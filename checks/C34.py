"""C34 Explicit runpp arguments take precedence over stored user options - full configuration product, differential oracle."""
import itertools

from mc import core
from mc import l_pfopts as lp

PROPERTY = "C34"
LEVEL = "exploration"
META = {
    "text": "For every runpp option (the 15 named parameters and 12 documented keyword arguments) the real set_user_pf_options/runpp pair is driven through the full product stored in {absent, default value, non-default} x passed in {absent, default, non-default, positional default, positional non-default}, through the control-loop branch (run_control=True with an in-service controller) for every option stored x passed, through runpp call sequences of different call shapes in one process, through all ordered pairs (o1 stored, o2 passed) and (o1, o2 stored, o1 passed) with default/non-default values, and through every sequence of <=2 (thorough <=3) set_user_pf_options calls with overwrite True/False; net._options after the call must equal net._options of the same network with nothing stored and the model's effective value (passed over stored) of every option passed explicitly.",
    "note": "Trusted: the three-line precedence model (dict update) and the reference call with everything explicit. Derivations (init -> init_vm_pu/init_va_degree, max_iteration auto, voltage_depend_loads auto-off, numba/lightsim2grid availability) are taken from the reference run, not re-implemented. For an option that is stored and not passed the raw stored value is accepted in _options as well as the derived one (the statement does not fix the representation). recycle dicts and values outside the two-point alphabets are not covered.",
    "technique": "full configuration product on the real runpp with a differential precedence oracle (passed > stored > default)",
    "design_ref": "DESIGN.md §3 E1, §4 C34",
}


def _resolve(case):
    calls = [(bool(ow), {o: lp.value(o, w) for o, w in kw}) for ow, kw in case["store"]]
    passed = [(o, lp.value(o, w)) for o, w in case["pass"]]
    return calls, passed


def run_case(case):
    out = {"violations": [], "n": 2, "counts": {}, "sig": None}
    calls, passed = _resolve(case)
    n = lp.net(case["net"])
    import pandapower as pp
    for ow, kw in calls:
        pp.set_user_pf_options(n, overwrite=ow, **kw)
    stored = lp.model_store(calls)
    for pre in case.get("pre", []):
        # earlier runpp calls of other call shapes in the same process (on a scratch net): must not matter
        lp.do_call(lp.net(case["net"]), [(o, lp.value(o, w)) for o, w in pre["pass"]], pre.get("positional", 0))
    oc, opts = lp.do_call(n, passed, case.get("positional", 0))
    pdict = dict(passed)
    merged = dict(stored)
    merged.update(pdict)
    roc, ropts = lp.reference(case["net"], merged)
    out["outcome"] = "real:%s/ref:%s" % (oc, roc) if (oc, roc) != ("ok", "ok") else "ok"
    conflict = [o for o in pdict if o in stored and core.jsonable(stored[o]) != core.jsonable(pdict[o])]
    eq_default = [o for o in conflict if o in lp.NAMED and core.jsonable(pdict[o]) == core.jsonable(lp.default_of(o))]
    toks = ["net=" + case["net"], "family=" + case["family"]]
    if eq_default:
        toks += ["passed_equals_default"] + ["opt=" + o for o in eq_default]
    if case.get("positional"):
        toks.append("positional")
    bad = None
    if oc != roc:
        bad = [("<outcome>", oc, roc)]
    elif opts is not None and ropts is not None:
        bad = lp.judge(opts, ropts, stored, merged)
        if stored and pdict:
            out["sig"] = core.dhash(case)
        out["counts"]["conflicting_pairs_judged"] = len(conflict)
    else:
        out["counts"]["both_raise_same_class"] = 1
        if stored and pdict:
            out["sig"] = core.dhash(case)
    if bad:
        # does the recorded defect (a named argument whose passed value equals the signature default is treated as
        # not passed) reproduce exactly these options?
        if eq_default:
            p_eff = {o: v for o, v in pdict.items()
                     if not (o in lp.NAMED and core.jsonable(v) == core.jsonable(lp.default_of(o)))}
            m2 = dict(stored)
            m2.update(p_eff)
            doc, dopts = lp.reference(case["net"], m2)
            out["n"] += 1
            if doc == oc and ((opts is None and dopts is None) or (
                    opts is not None and dopts is not None and not lp.judge(opts, dopts, stored, m2))):
                toks.append("explained=passed_equals_default")
        if conflict:
            clause = "passed_overrides_stored"
        elif pdict and any(k in pdict for k, _, _ in bad):
            clause = "passed_value_effective"
        else:
            # no precedence question involved: a stored (and not contradicted) value is not applied the way the same
            # value is applied when passed
            clause = "stored_value_applies"
            toks.append("no_conflict")
            toks += ["stored_opt=" + o for o in sorted(stored)]
            if oc != roc:
                toks.append("outcome=%s/%s" % (oc, roc))
        out["violations"].append(core.violation(
            clause, {"stored": stored, "passed": pdict, "positional": case.get("positional", 0),
                     "differences(key, real, expected)": bad[:8]},
            tokens=toks, klass="/".join(sorted({k for k, _, _ in bad}))[:80]))
    return out


def _c(net, family, store, pass_, positional=0, pre=None):
    c = {"net": net, "family": family, "store": store, "pass": pass_, "positional": positional}
    if pre is not None:
        c["pre"] = pre
    return c


def gen_cases(tier):
    th = tier == "thorough"
    cases = []
    nondef = ["n", "n2"] if th else ["n"]

    def vals(o):
        return ["d"] + [w for w in nondef if w == "n" or o in lp.NAMED_OTHER2]
    # A: single option product
    for net in ("P", "Z"):
        for o in lp.OPTIONS:
            for sv in [None] + vals(o):
                store = [] if sv is None else [[False, [[o, sv]]]]
                cases.append(_c(net, "single", store, []))
                for pv in vals(o):
                    cases.append(_c(net, "single", store, [[o, pv]]))
                    if o in lp.NAMED:
                        k = lp.NAMED.index(o)
                        pos = [[q, "d"] for q in lp.NAMED[:k]] + [[o, pv]]
                        cases.append(_c(net, "single_positional", store, pos, positional=len(pos)))
    # B: all ordered pairs (o1 stored, o2 passed) and (o1, o2 stored; o1 passed)
    for net in (("P", "Z") if th else ("P",)):
        for o1, o2 in itertools.permutations(lp.OPTIONS, 2):
            for s1 in vals(o1):
                for p2 in vals(o2):
                    cases.append(_c(net, "pair", [[False, [[o1, s1]]]], [[o2, p2]]))
            for p1 in ("d", "n"):
                s1 = "n" if p1 == "d" else "d"
                cases.append(_c(net, "pair_both_stored", [[False, [[o1, s1], [o2, "n"]]]], [[o1, p1]]))
    # D: control-loop branch: run_control=True with an in-service controller; every other option stored x passed
    for o in lp.OPTIONS:
        if o == "run_control":
            continue
        for sv in [None] + vals(o):
            store = [] if sv is None else [[False, [[o, sv]]]]
            for pv in [None] + vals(o):
                ps = [["run_control", "n"]] + ([] if pv is None else [[o, pv]])
                cases.append(_c("C", "run_control", store, ps))
    for o1, o2 in itertools.permutations(["tolerance_mva", "trafo3w_losses", "numba", "check_connectivity"], 2):
        cases.append(_c("C", "run_control", [[False, [[o1, "n"], [o2, "n"]]]], [["run_control", "n"], [o1, "d"]]))
    # E: sequences of runpp CALLS of different shapes before the judged call (same process)
    def positional_upto(o, w):
        k = lp.NAMED.index(o)
        return [[q, "d"] for q in lp.NAMED[:k]] + [[o, w]]
    for o in lp.NAMED:
        pres = {"plain": {"pass": [], "positional": 0},
                "keyword": {"pass": [[o, "n"]], "positional": 0},
                "positional": {"pass": positional_upto(o, "n"), "positional": lp.NAMED.index(o) + 1},
                "other_keyword": {"pass": [["numba", "d"]], "positional": 0}}
        for pname in sorted(pres):
            store = [[False, [[o, "n"]]]]
            pos = positional_upto(o, "d")
            cases.append(_c("P", "call_sequence", store, pos, positional=len(pos), pre=[pres[pname]]))
            cases.append(_c("P", "call_sequence", store, [[o, "d"]], pre=[pres[pname]]))
            cases.append(_c("P", "call_sequence", store, [], pre=[pres[pname]]))
            cases.append(_c("P", "call_sequence", store, pos, positional=len(pos), pre=[pres["plain"], pres[pname]]))
    # C: sequences of set_user_pf_options calls
    sub = ["tolerance_mva", "check_connectivity", "init", "numba"]
    ops = [[True, []]] + [[ow, [[o, w]]] for ow in (False, True) for o in sub for w in ("d", "n")]
    depth = 3 if th else 2
    passes = [[], [["check_connectivity", "d"]], [["tolerance_mva", "n"], ["numba", "d"]]]
    for L in range(1, depth + 1):
        for seq in itertools.product(ops, repeat=L):
            for ps in passes:
                cases.append(_c("P", "sequence", [list(x) for x in seq], ps))
    return cases


def explore(tier, seed):
    rep = core.Report(PROPERTY, LEVEL, tier, seed)
    core.warm(pf=True)
    import pandapower as pp
    for nn in ("P", "Z", "C"):
        n = lp.net(nn)
        pp.runpp(n)
        pp.runpp(n, numba=False, enforce_q_lims=True, algorithm="iwamoto_nr")
    cases = gen_cases(tier)
    rep.rule = ("full product per option (stored absent/default/non-default x passed absent/default/non-default/"
                "positional) on 2 nets; all ordered option pairs (stored o1, passed o2) x default/non-default and "
                "(stored o1,o2; passed o1); the control-loop branch (run_control=True, in-service controller) x every option "
                "stored x passed; runpp call sequences (plain / keyword / positional call before the judged call, same "
                "process); all set_user_pf_options call sequences up to the depth bound x 3 passed sets; distinct+non-trivial = a case with something stored AND something passed whose real and "
                "reference calls reached the same outcome class")
    rep.extra["options"] = len(lp.OPTIONS)
    rep.extra["named_parameters"] = len(lp.NAMED)
    rep.extra["sequence_depth"] = 3 if tier == "thorough" else 2
    rep.extra["cases"] = len(cases)
    core.run_cases(rep, run_case, cases)
    rep.assumptions = ["net._options compared key by key after core.jsonable; exception class compared when a call raises",
                       "for stored-and-not-passed options the raw stored value is accepted in net._options",
                       "two-point value alphabets per option (thorough: a second non-default for algorithm, "
                       "calculate_voltage_angles, init, max_iteration)"]
    return rep


def replay(case):
    return run_case(case)["violations"]

"""C07 unsupplied <=> NaN, equals topology.unsupplied_buses, zero power at dead / out-of-service elements -
E1 (k<=3/4 switching+status deviations) x dressings x check_connectivity, plain-Python reachability oracle."""
import copy

import numpy as np
import pandapower as pp
import pandapower.topology as top

from mc import core, netalpha as na
from mc import c_nets, c_topo

PROPERTY = "C07"
LEVEL = "exploration"
META = {
    "text": "Every network reachable from 5 base nets (radial, ring+chord, 2-winding and 3-winding transformer, two islands) by <=3 (thorough <=4) switching / status deviations - every position of existing and new bus-bus, line, trafo and trafo3w switches, in_service of buses, lines, trafos, trafo3w, impedances, ext_grids and slack gens - is dressed with one of every bus-element kind at every bus (bare / PQ kit / PQ+ZIP+PV+xward kit), solved by the real runpp with check_connectivity on and off, and compared with a reachability oracle written with plain sets + BFS: NaN voltage <=> in-service bus not reachable from an in-service slack, the same set from topology.unsupplied_buses, zero (not NaN) power for every element at a dead or out-of-service bus and for every out-of-service element, finite results everywhere else.",
    "note": "Trusted: the 60-line reachability oracle in mc/c_topo.py (semantics in its docstring). dclines and FACTS are kept out (the graph module and the power flow legitimately model them differently). With check_connectivity=False and a dead bus pandapower is documented not to handle the island: such runs are counted, not judged.",
    "technique": "bounded exhaustive input enumeration (deviation-bounded, k<=3/4) of switching states on the real power flow and the real topology module, against an independent set-based reachability model",
    "design_ref": "DESIGN.md §3 E1, §4 C07",
}

BASES = ["R3", "M4", "T3", "W3", "I2"]
ZERO = 1e-12


def judge(net, an, tag):
    """all C07 clauses on a converged net; an = c_topo.analyse(net) computed BEFORE the power flow"""
    vs = []
    dead, oos, alive = an["dead"], an["oos"], an["supplied"]
    rb = net.res_bus
    nan_buses = {int(b) for b in net.bus.index if b in an["in_service"] and
                 (np.isnan(rb.at[b, "vm_pu"]) or np.isnan(rb.at[b, "va_degree"]))}
    base_toks = [tag, "n_dead=%d" % len(dead) if len(dead) < 2 else "n_dead>=2"]
    if nan_buses != dead:
        vs.append(core.violation("nan_iff_unsupplied", {
            "nan_in_service_buses": sorted(nan_buses), "oracle_unsupplied": sorted(dead), "slack_buses": sorted(an["slack_buses"]),
            "oracle_edges": an["edges"], "run": tag},
            tokens=base_toks + ["nan_but_supplied" if nan_buses - dead else "finite_but_unsupplied"], klass="nan_pattern"))
    try:
        tu = {int(b) for b in top.unsupplied_buses(net)}
        terr = None
    except Exception as e:  # the topology module must answer for every net the power flow accepts
        tu, terr = None, "%s: %s" % (type(e).__name__, str(e)[:150])
    if tu is None or tu != dead:
        vs.append(core.violation("topology_agrees", {
            "topology_unsupplied": sorted(tu) if tu is not None else terr, "oracle_unsupplied": sorted(dead),
            "nan_in_service_buses": sorted(nan_buses), "oracle_edges": an["edges"], "run": tag},
            tokens=base_toks + (["topology_raises"] if tu is None else
                                ["topology_extra" if tu - dead else "topology_missing"]), klass="topology"))
    for b in sorted(alive):
        bad = [c for c in ("vm_pu", "va_degree", "p_mw", "q_mvar") if not np.isfinite(rb.at[b, c])]
        if bad and b not in nan_buses:
            vs.append(core.violation("supplied_finite", {"bus": b, "columns": bad, "run": tag},
                                     tokens=base_toks + ["col=" + bad[0]], klass="res_bus"))
    gone = dead | oos
    for tab in c_topo.BUS_ELEMENT_TABLES:
        t = net[tab]
        if not len(t):
            continue
        r = net["res_" + tab]
        for idx in t.index:
            b = int(t.at[idx, "bus"])
            ins = bool(t.at[idx, "in_service"])
            if ins and b not in gone:
                continue
            why = "element_oos" if not ins else ("bus_oos" if b in oos else "bus_unsupplied")
            if idx not in r.index:
                vs.append(core.violation("zero_power", {"table": tab, "index": int(idx), "bus": b, "why": why,
                                                        "reported": "no result row", "run": tag},
                                         tokens=base_toks + ["tab=" + tab, why, "missing_row"], klass=tab))
                continue
            p, q = float(r.at[idx, "p_mw"]), float(r.at[idx, "q_mvar"])
            if not (abs(p) <= ZERO and abs(q) <= ZERO):   # NaN fails this too
                ex = []
                if tab == "ext_grid" and np.isnan(p) and np.isnan(q) and not net.ext_grid.in_service.any():
                    # recorded defect: results_gen._get_gen_results skips the whole ext_grid result table when no
                    # ext_grid is in service (slack provided by a gen), leaving the initial NaN
                    ex = ["explained=no_ext_grid_in_service"]
                vs.append(core.violation("zero_power", {"table": tab, "index": int(idx), "bus": b, "why": why,
                                                        "reported": [p, q], "run": tag},
                                         tokens=base_toks + ["tab=" + tab, why, "nan" if (np.isnan(p) or np.isnan(q)) else "nonzero"] + ex,
                                         klass=tab))
    for tab, (bcols, pcols) in c_topo.BRANCH_TABLES.items():
        t = net[tab]
        if not len(t):
            continue
        r = net["res_" + tab]
        for idx in t.index:
            ins = bool(t.at[idx, "in_service"])
            ends = [int(t.at[idx, c]) for c in bcols]
            if ins and not all(e in gone for e in ends):
                continue
            why = "element_oos" if not ins else "all_buses_dead"
            vals = [float(r.at[idx, c]) for c in pcols] if idx in r.index else [float("nan")]
            if not all(abs(v) <= ZERO for v in vals):
                vs.append(core.violation("zero_power", {"table": tab, "index": int(idx), "buses": ends, "why": why,
                                                        "reported": dict(zip(pcols, vals)), "run": tag},
                                         tokens=base_toks + ["tab=" + tab, why, "nan" if any(np.isnan(v) for v in vals) else "nonzero"],
                                         klass=tab))
    return vs


def run_case(case):
    out = {"violations": [], "n": 0, "counts": {}, "sig": []}

    def count(k):
        out["counts"][k] = out["counts"].get(k, 0) + 1
    ok = 0
    for dr in case["dressings"]:
        net0 = c_nets.dressed_base(case["base"], dr)
        for d in case["devs"]:
            c_nets.apply_dev(net0, d)
        an = c_topo.analyse(net0)
        for cc in case["cc"]:
            net = copy.deepcopy(net0)
            tag = "%s|cc=%s" % (dr, cc)
            try:
                pp.runpp(net, check_connectivity=cc)
                oc = "ok" if net.converged else "not_converged"
            except Exception as e:
                oc = type(e).__name__
            out["n"] += 1
            if not cc and an["dead"]:
                # documented: without the connectivity check isolated parts are not handled - count, do not judge
                count("cc_false_with_dead_" + oc)
                continue
            count("outcome_" + oc)
            if oc != "ok":
                continue
            ok += 1
            vs = judge(net, an, tag)
            for v in vs:
                v["tokens"] = list(v.get("tokens", [])) + ["dress=" + dr, "cc=%s" % cc]
            out["violations"] += vs
            out["sig"].append("%s|%s|%s|dead=%s|oos=%s" % (case["base"], core.dhash(case["devs"]), tag,
                                                          sorted(an["dead"]), sorted(an["oos"])))
    out["outcome"] = "ok" if ok else "none_converged"
    return out


def gen_cases(tier):
    """quick: k<=2 with every dressing, the k=3 layer with the richest dressing D2 (a superset of D1's elements);
    thorough: k<=3 with every dressing, the k=4 layer with D2.  check_connectivity {True, False} everywhere."""
    kfull, ktop = (2, 3) if tier == "quick" else (3, 4)
    cases = []
    for b in BASES:
        for devs in na.subsets(c_nets.switching_menu(b), ktop):
            dr = c_nets.DRESSINGS if len(devs) <= kfull else ["D2"]
            cases.append({"base": b, "devs": [list(d) for d in devs], "dressings": dr, "cc": [True, False]})
    return cases


def explore(tier, seed):
    rep = core.Report(PROPERTY, LEVEL, tier, seed)
    core.warm(pf=True)
    for b in BASES:          # build + solve every dressed base once in the parent (cache + numba kernels)
        for dr in c_nets.DRESSINGS:
            n = c_nets.dressed_base(b, dr)
            pp.runpp(n)
            pp.runpp(n, check_connectivity=False)
    cases = gen_cases(tier)
    k = 3 if tier == "quick" else 4
    rep.rule = ("E1: every subset of <=%d pairwise-compatible deviations from the switching/status menus of %s; subsets of size <%d with "
                "each dressing of %s, the size-%d layer with dressing D2; check_connectivity {True, False} everywhere; distinct+non-trivial "
                "= converged and judged runs keyed by (base, deviation hash, dressing, check_connectivity, oracle dead set, "
                "out-of-service set)" % (k, BASES, k, c_nets.DRESSINGS, k))
    rep.extra["bound_k"] = k
    rep.extra["bound_k_all_dressings"] = k - 1
    rep.extra["deviation_sets"] = len(cases)
    rep.extra["menu_sizes"] = {b: len(c_nets.switching_menu(b)) for b in BASES}
    core.run_cases(rep, run_case, cases)
    rep.assumptions = ["only converged power flows are judged; check_connectivity=False runs with an oracle-dead bus are counted only",
                       "branch elements are required to report zero only when out of service or when ALL their buses are dead/out of service",
                       "zero means |p|,|q| <= 1e-12; NaN is a violation of the zero clause",
                       "dclines and FACTS excluded"]
    return rep


def replay(case):
    return run_case(case)["violations"]

import pandapower as pp
from pandapower.pf.runpp_3ph import runpp_3ph
net=pp.create_empty_network()
b0=pp.create_bus(net,20.); b1=pp.create_bus(net,20.)
pp.create_ext_grid(net,b0,s_sc_max_mva=1000.,rx_max=0.1,x0x_max=1.,r0x0_max=0.1)
pp.create_line_from_parameters(net,b0,b1,2.,0.2,0.3,200.,0.4,r0_ohm_per_km=0.4,x0_ohm_per_km=1.,c0_nf_per_km=100.)
pp.create_load(net,b1,1.,0.3); pp.create_load(net,b0,1.5,0.5)      # second load sits on the ext_grid bus
pp.runpp(net); runpp_3ph(net)
print(net.res_ext_grid.p_mw.values/3, net.res_ext_grid_3ph[["p_a_mw","p_b_mw","p_c_mw"]].values)
print(net.res_bus.p_mw.values/3, net.res_bus_3ph[["p_a_mw"]].values.T)

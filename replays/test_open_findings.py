"""Plain pytest replays (no explorer) of recorded OPEN findings of the lead's checks.

Each test asserts the behaviour the property demands and is marked xfail(strict=True): it fails (= xfails) while the recorded defect
exists and turns into an XPASS error as soon as the defect disappears - then the finding in known_findings.json must be closed.
Run:  /venv/bin/python -m pytest -q -p no:cacheprovider /verif/replays/test_open_findings.py
"""
import numpy as np
import pandapower as pp
import pytest


def _r3():
    net = pp.create_empty_network(sn_mva=1.)
    for _ in range(3):
        pp.create_bus(net, 20.)
    pp.create_ext_grid(net, 0, vm_pu=1.02)
    pp.create_line_from_parameters(net, 0, 1, 2., .2, .3, 200., .4)
    pp.create_line_from_parameters(net, 1, 2, 2., .2, .3, 200., .4)
    pp.create_load(net, 1, 1.0, 0.3)
    return net


@pytest.mark.xfail(strict=True, reason="C01-zip: per-bus ZIP fractions are unweighted means applied to the whole bus demand")
def test_C01_zip_load_sharing_a_bus_balances():
    net = _r3()
    pp.create_load(net, 2, 1.0, 0.4, const_z_p_percent=100., const_z_q_percent=100.)
    pp.create_load(net, 2, 2.0, 0.5)
    pp.runpp(net)
    elements = net.res_load.p_mw[net.load.bus == 2].sum()
    assert abs(elements + net.res_line.p_to_mw.at[1]) < 1e-5


@pytest.mark.xfail(strict=True, reason="C01-dcline-resbus: res_bus.p_mw omits dcline terminals")
def test_C01_res_bus_includes_dcline_terminal():
    net = _r3()
    pp.create_dcline(net, 1, 2, 0.5, 1.0, 0.01, 1.01, 1.0)
    pp.runpp(net)
    assert abs(net.res_bus.p_mw.at[1] - (1.0 + net.res_dcline.p_from_mw.at[0])) < 1e-5


@pytest.mark.xfail(strict=True, reason="C01-dc-shunt: DC power flow reports shunts at voltage controlled buses with v_set^2")
def test_C01_dc_shunt_at_gen_bus_balances():
    net = _r3()
    pp.create_shunt(net, 2, -0.5, 0.1)
    pp.create_gen(net, 2, 0.6, vm_pu=1.02)
    pp.rundcpp(net)
    consumption = net.res_shunt.p_mw.at[0] - net.res_gen.p_mw.at[0]
    assert abs(consumption + net.res_line.p_to_mw.at[1]) < 1e-5


@pytest.mark.xfail(strict=True, reason="C08-shunt-vn-fill: a power flow writes the bus voltage into a NaN net.shunt.vn_kv")
def test_C08_runpp_leaves_nan_shunt_vn_untouched():
    net = _r3()
    pp.create_shunt(net, 2, -0.2, 0.01)
    net.shunt["vn_kv"] = net.shunt["vn_kv"].astype(float)
    net.shunt.at[0, "vn_kv"] = np.nan
    pp.runpp(net)
    assert np.isnan(net.shunt.vn_kv.at[0])


@pytest.mark.xfail(strict=True, reason="C13-levels-not-revisited: run_control returns with an unconverged lower-level controller")
def test_C13_lower_level_controller_converged_at_return():
    from pandapower.control.basic_controller import Controller
    from pandapower.control import run_control

    class Scripted(Controller):
        def __init__(self, net, need, disturbs=None, **kw):
            super().__init__(net, **kw)
            self.need, self.disturbs = need, disturbs

        def is_converged(self, net):
            return self.need == 0

        def control_step(self, net):
            self.need -= 1
            if self.disturbs is not None:
                net.controller.object.at[self.disturbs].need = 1

    net = pp.create_empty_network()
    a = Scripted(net, 0, level=0)
    Scripted(net, 1, disturbs=a.index, level=1)

    def run(net, **kwargs):
        net["converged"] = True
    run_control(net, run=run)
    assert a.is_converged(net)

import pandapower as pp, pandapower.shortcircuit as sc
for sn in (1., 100.):
    net = pp.create_empty_network(sn_mva=sn); b0 = pp.create_bus(net, 110.); b1 = pp.create_bus(net, 20.)
    pp.create_ext_grid(net, b0, s_sc_max_mva=1000., rx_max=0.1, x0x_max=1., r0x0_max=0.1)
    pp.create_transformer_from_parameters(net, b0, b1, 25., 110., 20., 0.41, 12., 14., 0.07, vector_group="Yzn", vk0_percent=12.,
        vkr0_percent=0.41, mag0_percent=100., mag0_rx=0., si0_hv_partial=0.9)
    sc.calc_sc(net, fault="1ph", case="max"); print(sn, net.res_bus_sc.ikss_ka.values)    # LV-bus ikss 0.22 kA vs 6.06 kA

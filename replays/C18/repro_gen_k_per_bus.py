import pandapower as pp, pandapower.shortcircuit as sc
def mk(order):
    net = pp.create_empty_network(); b0 = pp.create_bus(net, 20.); b1 = pp.create_bus(net, 20.)
    pp.create_ext_grid(net, b0, s_sc_max_mva=1000., rx_max=0.1)
    pp.create_line_from_parameters(net, b0, b1, 4., 0.2, 0.3, 200., 0.4)
    g = [dict(p_mw=5., sn_mva=10., vn_kv=20., xdss_pu=0.2, rdss_ohm=0.05, cos_phi=0.85),
         dict(p_mw=3., sn_mva=6., vn_kv=21., xdss_pu=0.2, rdss_ohm=0.05, cos_phi=0.85, pg_percent=5.)]
    for i in order: pp.create_gen(net, b1, **g[i])
    sc.calc_sc(net, case="max"); return net.res_bus_sc[["rk_ohm", "xk_ohm"]].values[1]
print(mk([0, 1]), mk([1, 0]))      # same physical net, different gen row order -> different Thevenin impedance

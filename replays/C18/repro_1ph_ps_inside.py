import pandapower as pp, pandapower.shortcircuit as sc
net = pp.create_empty_network(); b0 = pp.create_bus(net, 110.); b1 = pp.create_bus(net, 20.)
pp.create_ext_grid(net, b0, s_sc_max_mva=1000., rx_max=0.1, x0x_max=1., r0x0_max=0.1)
t = pp.create_transformer_from_parameters(net, b0, b1, 25., 110., 20., 0.41, 12., 14., 0.07, vector_group="Dyn", vk0_percent=12.,
        vkr0_percent=0.41, mag0_percent=100., mag0_rx=0., si0_hv_partial=0.9, power_station_unit=True, oltc=True)
pp.create_gen(net, b1, 10., sn_mva=25., vn_kv=20., xdss_pu=0.18, rdss_ohm=0.02, cos_phi=0.8, power_station_trafo=t)
for f in ("3ph", "1ph"):
    sc.calc_sc(net, fault=f, case="max"); print(f, net.res_bus_sc[["rk_ohm", "xk_ohm"]].values[1])   # positive-sequence Zk of bus 1 differs

import pandapower as pp, pandapower.shortcircuit as sc, numpy as np
net = pp.create_empty_network()
b0 = pp.create_bus(net, 110.); b1 = pp.create_bus(net, 20.); b2 = pp.create_bus(net, 20.)
pp.create_ext_grid(net, b0, s_sc_max_mva=1000., rx_max=0.1)
t = pp.create_transformer_from_parameters(net, b0, b1, 25., 110., 20., 0.41, 12., 14., 0.07, power_station_unit=True)
pp.create_line_from_parameters(net, b1, b2, 2., 0.2, 0.3, 200., 0.4)
pp.create_gen(net, b1, 10., sn_mva=25., vn_kv=21., xdss_pu=0.18, rdss_ohm=0.02, cos_phi=0.8, power_station_trafo=t)
pp.create_sgen(net, b2, 3., sn_mva=4., k=1.2)
sc.calc_sc(net, case="max")
r = net.res_bus_sc
print(r.skss_mw.values, np.sqrt(3) * net.bus.vn_kv.values * r.ikss_ka.values)   # differ at bus 1

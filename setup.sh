#!/bin/bash
# Nothing to build: the framework is pure Python run by /venv/bin/python against the editable install of /repo.
cd "$(dirname "$0")" && mkdir -p evidence replays && /venv/bin/python -c "import pandapower, numpy, pandas; print('setup ok', pandapower.__version__)" 2>&1 | grep -v conda

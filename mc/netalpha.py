"""Base networks and deviation menus (the alphabets of the E1/E2 explorers).

A case descriptor is {"base": id, "devs": [dev, ...], "opts": {...}}; a deviation is a JSON-able
list whose first item names the edit.  build(case) deep-copies the prebuilt base network and
applies the deviations in the given (canonical) order.
"""
import copy
import itertools

import numpy as np
import pandas as pd

import pandapower as pp

_BASES = {}

LINE = dict(length_km=2.0, r_ohm_per_km=0.2, x_ohm_per_km=0.3, c_nf_per_km=200., max_i_ka=0.4)
LINE110 = dict(length_km=20.0, r_ohm_per_km=0.06, x_ohm_per_km=0.3, c_nf_per_km=10., max_i_ka=0.6)
SC_LINE = dict(r0_ohm_per_km=0.4, x0_ohm_per_km=1.0, c0_nf_per_km=100., endtemp_degree=80.)
EG = dict(s_sc_max_mva=1000., rx_max=0.1, s_sc_min_mva=800., rx_min=0.1, x0x_max=1.0, r0x0_max=0.1)
TR = dict(sn_mva=25., vn_hv_kv=110., vn_lv_kv=20., vkr_percent=0.41, vk_percent=12., pfe_kw=14.,
          i0_percent=0.07, shift_degree=0., tap_side="hv", tap_neutral=0, tap_max=9, tap_min=-9,
          tap_step_percent=1.5, tap_step_degree=0., tap_pos=0, tap_changer_type="Ratio",
          vector_group="Dyn", vk0_percent=12., vkr0_percent=0.41, mag0_percent=100., mag0_rx=0.,
          si0_hv_partial=0.9)
TR3 = dict(vn_hv_kv=110., vn_mv_kv=20., vn_lv_kv=10., sn_hv_mva=40., sn_mv_mva=25., sn_lv_mva=15.,
           vk_hv_percent=10., vk_mv_percent=11., vk_lv_percent=12., vkr_hv_percent=0.3,
           vkr_mv_percent=0.31, vkr_lv_percent=0.32, pfe_kw=30., i0_percent=0.1, shift_mv_degree=0.,
           shift_lv_degree=0., tap_side="hv", tap_step_percent=1.2, tap_step_degree=0., tap_pos=0,
           tap_neutral=0, tap_max=5, tap_min=-5, tap_changer_type="Ratio")


def _mk_R3():
    """ext_grid@0 -l0- 1 -l1- 2 =bb(z0)= 3 ; 20 kV. bus 2 / bus 3 are the collision buses."""
    net = pp.create_empty_network(sn_mva=1.)
    for i in range(4):
        pp.create_bus(net, 20., name="b%d" % i)
    pp.create_ext_grid(net, 0, vm_pu=1.02, **EG)
    pp.create_line_from_parameters(net, 0, 1, **LINE, **SC_LINE)
    pp.create_line_from_parameters(net, 1, 2, **LINE, **SC_LINE)
    pp.create_load(net, 1, 1.0, 0.3)
    pp.create_switch(net, 2, 3, "b", closed=True)            # sw0: bus-bus 2=3
    pp.create_switch(net, 1, 1, "l", closed=True)            # sw1: line1 at bus 1
    return net


def _mk_M4():
    """4-bus 110 kV ring 0-1-2-3-0 + chord 0-2; loads on 1,2,3."""
    net = pp.create_empty_network(sn_mva=1.)
    for i in range(4):
        pp.create_bus(net, 110., name="b%d" % i)
    pp.create_ext_grid(net, 0, vm_pu=1.01, **EG)
    for k, (f, t) in enumerate([(0, 1), (1, 2), (2, 3), (3, 0), (0, 2)]):
        d = dict(LINE110)
        d["length_km"] = 20. + 5 * k
        pp.create_line_from_parameters(net, f, t, **d, **SC_LINE)
    pp.create_load(net, 1, 30., 8.)
    pp.create_load(net, 2, 40., 10.)
    pp.create_load(net, 3, 20., 5.)
    pp.create_switch(net, 1, 1, "l", closed=True)            # sw0: line1 at bus1
    return net


def _mk_T3():
    """110 kV ext_grid@0 -trafo(110/20)- 1 -line- 2 =bb= 3; load@2."""
    net = pp.create_empty_network(sn_mva=1.)
    pp.create_bus(net, 110., name="b0")
    for i in (1, 2, 3):
        pp.create_bus(net, 20., name="b%d" % i)
    pp.create_ext_grid(net, 0, vm_pu=1.02, **EG)
    pp.create_transformer_from_parameters(net, 0, 1, **TR)
    pp.create_line_from_parameters(net, 1, 2, **LINE, **SC_LINE)
    pp.create_load(net, 2, 4.0, 1.0)
    pp.create_switch(net, 2, 3, "b", closed=True)            # sw0
    pp.create_switch(net, 0, 0, "t", closed=True)            # sw1: trafo at hv
    return net


def _mk_W3():
    """110/20/10 kV three-winding transformer, load on mv and lv, line from mv to bus 3."""
    net = pp.create_empty_network(sn_mva=1.)
    pp.create_bus(net, 110., name="b0")
    pp.create_bus(net, 20., name="b1")
    pp.create_bus(net, 10., name="b2")
    pp.create_bus(net, 20., name="b3")
    pp.create_ext_grid(net, 0, vm_pu=1.02, **EG)
    pp.create_transformer3w_from_parameters(net, 0, 1, 2, **TR3)
    pp.create_line_from_parameters(net, 1, 3, **LINE, **SC_LINE)
    pp.create_load(net, 1, 6.0, 1.5)
    pp.create_load(net, 2, 3.0, 1.0)
    pp.create_load(net, 3, 2.0, 0.5)
    pp.create_switch(net, 1, 0, "t3", closed=True)           # sw0: trafo3w at mv
    return net


def _mk_I2():
    """two radial pieces with own slack (0-1, 2-3) + line 1-3 with an open switch."""
    net = pp.create_empty_network(sn_mva=1.)
    for i in range(4):
        pp.create_bus(net, 20., name="b%d" % i)
    pp.create_ext_grid(net, 0, vm_pu=1.02, **EG)
    pp.create_ext_grid(net, 2, vm_pu=1.0, **EG)
    pp.create_line_from_parameters(net, 0, 1, **LINE, **SC_LINE)
    pp.create_line_from_parameters(net, 2, 3, **LINE, **SC_LINE)
    pp.create_line_from_parameters(net, 1, 3, **LINE, **SC_LINE)
    pp.create_load(net, 1, 1.0, 0.3)
    pp.create_load(net, 3, 1.5, 0.4)
    pp.create_switch(net, 1, 2, "l", closed=False)           # sw0: line2 at bus1 (open)
    return net


_MAKERS = {"R3": _mk_R3, "M4": _mk_M4, "T3": _mk_T3, "W3": _mk_W3, "I2": _mk_I2}

# collision buses per base: where bus elements are piled up
HOT = {"R3": (2, 3), "M4": (2,), "T3": (2, 3), "W3": (1, 2), "I2": (1, 3)}


def base(name):
    if name not in _BASES:
        _BASES[name] = _MAKERS[name]()
    return copy.deepcopy(_BASES[name])


ZIP = {  # kind -> (z_p, i_p, z_q, i_q)
    "P": (0., 0., 0., 0.), "Z": (100., 0., 100., 0.), "I": (0., 100., 0., 100.),
    "M": (30., 30., 30., 30.), "M2": (30., 30., 50., 10.),
}


def _vn(net, b):
    return float(net.bus.at[b, "vn_kv"])


def apply_dev(net, d):
    k = d[0]
    if k == "load":
        _, bus, p, q, zk, sc, ins = d
        z = ZIP[zk]
        pp.create_load(net, bus, p, q, const_z_p_percent=z[0], const_i_p_percent=z[1],
                       const_z_q_percent=z[2], const_i_q_percent=z[3], scaling=sc, in_service=ins)
    elif k == "sgen":
        _, bus, p, q, sc, ins = d
        pp.create_sgen(net, bus, p, q, scaling=sc, in_service=ins, sn_mva=max(1., abs(p) * 1.2), k=1.2)
    elif k == "storage":
        _, bus, p, q, sc, ins = d
        pp.create_storage(net, bus, p, 10., q_mvar=q, scaling=sc, in_service=ins)
    elif k == "motor":
        _, bus, pm, ins = d
        pp.create_motor(net, bus, pm, 0.9, efficiency_percent=95., loading_percent=80., scaling=1.,
                        in_service=ins, vn_kv=_vn(net, bus), lrc_pu=5., rx=0.4, efficiency_n_percent=95., cos_phi_n=0.9)
    elif k == "shunt":
        _, bus, p, q, step, vnr, ins = d
        pp.create_shunt(net, bus, q, p, vn_kv=_vn(net, bus) * vnr, step=step, max_step=3, in_service=ins)
    elif k == "ward":
        _, bus, ins = d
        pp.create_ward(net, bus, 0.4, 0.1, 0.3, -0.2, in_service=ins)
    elif k == "xward":
        _, bus, ins = d
        pp.create_xward(net, bus, 0.4, 0.1, 0.3, -0.2, 0.5, 2.0, 1.01, in_service=ins)
    elif k == "gen":
        _, bus, p, vm, ql, slack, ins = d
        lim = {"wide": (-50., 50.), "tight": (-0.05, 0.05), "up": (-50., 0.01), "lo": (0.5, 50.), "none": (np.nan, np.nan)}[ql]
        pp.create_gen(net, bus, p, vm_pu=vm, min_q_mvar=lim[0], max_q_mvar=lim[1], slack=slack, in_service=ins,
                      vn_kv=_vn(net, bus), xdss_pu=0.2, rdss_ohm=0.05, cos_phi=0.9, sn_mva=max(2., abs(p) * 1.5),
                      slack_weight=1.0 if slack else 0.0)
    elif k == "ext_grid":
        _, bus, vm, va, ins = d
        pp.create_ext_grid(net, bus, vm_pu=vm, va_degree=va, in_service=ins, **EG)
    elif k == "asym_load":
        _, bus = d
        pp.create_asymmetric_load(net, bus, 0.3, 0.2, 0.1, 0.05, 0.04, 0.03)
    elif k == "asym_sgen":
        _, bus = d
        pp.create_asymmetric_sgen(net, bus, 0.1, 0.2, 0.3, 0.01, 0.02, 0.03)
    elif k == "dcline":
        _, fb, tb, p = d
        pp.create_dcline(net, fb, tb, p, 1.0, 0.01, 1.01, 1.0, max_p_mw=5., min_q_from_mvar=-5., min_q_to_mvar=-5.,
                         max_q_from_mvar=5., max_q_to_mvar=5.)
    elif k == "line":
        _, fb, tb, par, ins = d
        prm = LINE110 if _vn(net, fb) > 50 else LINE
        pp.create_line_from_parameters(net, fb, tb, parallel=par, in_service=ins, **prm, **SC_LINE)
    elif k == "impedance":
        _, fb, tb, asym = d
        if asym:
            pp.create_impedance(net, fb, tb, 0.02, 0.05, 10., rtf_pu=0.03, xtf_pu=0.04, gf_pu=0.01, bf_pu=0.02,
                                gt_pu=0.015, bt_pu=-0.01)
        else:
            pp.create_impedance(net, fb, tb, 0.02, 0.05, 10.)
    elif k == "trafo":
        _, hb, lb = d[:3]
        prm = dict(TR)
        prm.update(d[3] if len(d) > 3 else {})
        pp.create_transformer_from_parameters(net, hb, lb, **prm)
    elif k == "bus":      # new bus hanging on `bus` through a line; gets index len(net.bus)
        _, at, ins = d
        nb = pp.create_bus(net, _vn(net, at), in_service=ins)
        prm = LINE110 if _vn(net, at) > 50 else LINE
        pp.create_line_from_parameters(net, at, nb, **prm, **SC_LINE)
    elif k == "switch":   # new switch
        _, bus, el, et, closed, z = d
        pp.create_switch(net, bus, el, et, closed=closed, z_ohm=z)
    elif k == "set":      # generic cell edit
        _, tab, idx, col, val = d
        if val == "nan":
            val = np.nan
        if col not in net[tab].columns:
            net[tab][col] = np.nan if not isinstance(val, (bool, str)) else (False if isinstance(val, bool) else None)
        if isinstance(val, float) and net[tab][col].dtype.kind in "iu":
            net[tab][col] = net[tab][col].astype(float)
        net[tab].at[idx, col] = val
    elif k == "sn":
        net.sn_mva = d[1]
    elif k == "swapline":
        _, idx = d
        f, t = net.line.at[idx, "from_bus"], net.line.at[idx, "to_bus"]
        net.line.at[idx, "from_bus"], net.line.at[idx, "to_bus"] = t, f
    else:
        raise ValueError("unknown deviation %r" % (d,))


def build(case):
    net = base(case["base"])
    for d in case.get("devs", ()):
        apply_dev(net, d)
    return net


def field_of(d):
    """Two deviations are incompatible if they set the same field."""
    if d[0] == "set":
        return ("set", d[1], d[2], d[3])
    if d[0] in ("sn", "swapline"):
        return tuple(d[:2])
    return None


def subsets(menu, k, compatible=None):
    """Every subset of <= k pairwise-compatible deviations, in order of increasing size.
    Order inside a subset is the menu order (canonical)."""
    menu = list(menu)
    yield ()
    for r in range(1, k + 1):
        for combo in itertools.combinations(range(len(menu)), r):
            devs = [menu[i] for i in combo]
            fields = [field_of(d) for d in devs]
            fs = [f for f in fields if f is not None]
            if len(fs) != len(set(fs)):
                continue
            if compatible is not None and not compatible(devs):
                continue
            yield tuple(devs)


# ----------------------------------------------------------------------------------------------
# deviation menus
# ----------------------------------------------------------------------------------------------
def bus_element_menu(basename, rich=True):
    """Bus elements piled onto the collision buses of the base net."""
    hot = HOT[basename]
    big = basename in ("M4",)
    s = 20. if big else 1.
    m = []
    b0 = hot[0]
    for b in hot:
        m += [["load", b, 1.5 * s, 0.5 * s, "P", 1., True],
              ["load", b, 1.0 * s, 0.4 * s, "Z", 1., True],
              ["sgen", b, 0.8 * s, -0.2 * s, 1., True],
              ["gen", b, 1.0 * s, 1.01, "wide", False, True]]
    m += [["load", b0, 1.2 * s, 0.3 * s, "I", 1., True],
          ["load", b0, 1.0 * s, 0.5 * s, "M2", 0.5, True],
          ["load", b0, 0., 0.5 * s, "M", 1., True],
          ["load", b0, 1.0 * s, 0.2 * s, "P", 1., False],
          ["sgen", b0, 0.5 * s, 0.1 * s, 0.5, True],
          ["storage", b0, 0.6 * s, 0.2 * s, 1., True],
          ["storage", b0, -0.5 * s, 0.1 * s, 0.5, True],
          ["motor", b0, 0.5 * s, True],
          ["shunt", b0, 0.1 * s, -0.5 * s, 1, 1.0, True],
          ["shunt", b0, 0.05 * s, 0.3 * s, 2, 0.9, True],
          ["ward", b0, True],
          ["xward", b0, True],
          ["gen", b0, 0.7 * s, 1.0, "tight", False, True],
          ["gen", b0, 0.5 * s, 1.03, "none", False, True],
          ["ext_grid", b0, 1.0, 0., True],
          ["asym_load", b0],
          ["asym_sgen", b0]]
    # a pair of shunts whose ratings cancel in total (sum(BS) == sum(GS) == 0 although shunts are present)
    other = 1 if b0 != 1 else 0
    m += [["shunt", b0, 0., -0.5 * s, 1, 1.0, True], ["shunt", other, 0., 0.5 * s, 1, 1.0, True]]
    if rich:
        m += [["gen", b0, 0.6 * s, 1.02, "wide", True, True],
              ["ext_grid", b0, 1.01, 1.0, False],
              ["xward", b0, False],
              ["shunt", b0, 0.1 * s, 0.2 * s, 1, 1.0, False]]
    return m


def structure_menu(basename):
    """Switching / status / representation deviations available on each base net."""
    m = []
    if basename == "R3":
        m += [["set", "switch", 0, "closed", False], ["set", "switch", 0, "z_ohm", 0.5],
              ["set", "switch", 1, "closed", False], ["set", "switch", 1, "z_ohm", 0.3],
              ["switch", 2, 1, "l", False, 0.],
              ["set", "line", 1, "in_service", False], ["set", "line", 1, "parallel", 2],
              ["set", "bus", 3, "in_service", False], ["set", "bus", 2, "in_service", False],
              ["line", 0, 2, 1, True], ["impedance", 1, 2, False], ["impedance", 0, 3, True],
              ["dcline", 1, 3, 0.5], ["dcline", 0, 2, 0.4],
              ["sn", 100.], ["swapline", 1], ["bus", 2, True], ["bus", 1, False]]
    elif basename == "M4":
        m += [["set", "switch", 0, "closed", False], ["set", "switch", 0, "z_ohm", 2.0],
              ["set", "line", 0, "in_service", False], ["set", "line", 4, "in_service", False],
              ["set", "line", 2, "parallel", 2], ["set", "bus", 3, "in_service", False],
              ["line", 0, 2, 1, True], ["impedance", 1, 3, False], ["impedance", 1, 3, True],
              ["dcline", 1, 3, 5.], ["sn", 100.], ["swapline", 1], ["bus", 2, True]]
    elif basename == "T3":
        m += [["set", "switch", 0, "closed", False], ["set", "switch", 0, "z_ohm", 0.5],
              ["set", "switch", 1, "closed", False], ["switch", 1, 0, "t", False, 0.],
              ["set", "trafo", 0, "tap_pos", 2], ["set", "trafo", 0, "tap_pos", -3],
              ["set", "trafo", 0, "tap_side", "lv"], ["set", "trafo", 0, "shift_degree", 150.],
              ["set", "trafo", 0, "tap_changer_type", "Ideal"], ["set", "trafo", 0, "tap_changer_type", "Symmetrical"],
              ["set", "trafo", 0, "tap_step_degree", 30.],
              ["set", "trafo", 0, "parallel", 2], ["set", "trafo", 0, "in_service", False],
              ["trafo", 0, 1], ["sn", 100.], ["impedance", 1, 2, True], ["bus", 2, True]]
    elif basename == "W3":
        m += [["set", "switch", 0, "closed", False], ["switch", 0, 0, "t3", False, 0.], ["switch", 2, 0, "t3", False, 0.],
              ["set", "trafo3w", 0, "tap_pos", 2], ["set", "trafo3w", 0, "tap_pos", -3],
              ["set", "trafo3w", 0, "tap_side", "mv"], ["set", "trafo3w", 0, "tap_side", "lv"],
              ["set", "trafo3w", 0, "tap_at_star_point", True],
              ["set", "trafo3w", 0, "shift_mv_degree", 30.], ["set", "trafo3w", 0, "shift_lv_degree", 150.],
              ["set", "trafo3w", 0, "in_service", False], ["set", "bus", 2, "in_service", False],
              ["sn", 100.], ["set", "line", 0, "in_service", False]]
    elif basename == "I2":
        m += [["set", "switch", 0, "closed", True], ["set", "ext_grid", 1, "in_service", False],
              ["set", "ext_grid", 0, "in_service", False], ["set", "line", 0, "in_service", False],
              ["set", "line", 2, "in_service", False], ["set", "bus", 1, "in_service", False],
              ["switch", 3, 2, "l", False, 0.], ["sn", 100.], ["set", "ext_grid", 1, "va_degree", 2.0]]
    return m


PF_OPTION_SETS = {
    "ac": {},
    "ac_novdl": {"voltage_depend_loads": False},
    "ac_nonumba": {"numba": False},
    "ac_qlim": {"enforce_q_lims": True},
    "ac_pi": {"trafo_model": "pi"},
    "ac_noangles": {"calculate_voltage_angles": False},
    "ac_power": {"trafo_loading": "power"},
    "dc": {"dc": True},
}


def run_pf(net, opts):
    """Run the power flow described by opts. Returns outcome string ('ok' or exception class)."""
    o = dict(opts)
    dc = o.pop("dc", False)
    try:
        if dc:
            pp.rundcpp(net, **o)
        else:
            pp.runpp(net, **o)
    except Exception as e:  # natural failures are outcomes, not verdicts
        return type(e).__name__
    if not net.converged:
        return "not_converged"
    return "ok"

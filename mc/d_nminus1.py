"""agentD: brute-force N-1 reference (`refmodel.nminus1` of DESIGN.md), emulators of what today's aggregation
code computes (for 'explained=' tokens) and the judges used by checks/C14.py and checks/C15.py.

Reference semantics (exactly the statement of C14):
  cases        = the listed (etype, index) whose element is in service, in list order
  converged    = cases whose power flow (same pf options, element switched off on a deep copy) reports convergence
  max/min[x]   = NaN-ignoring max/min over converged cases of the result of x, leaving out x's own outage
  cause[x]     = any converged case (not x itself) whose result for x equals the reported maximum
  causes_overloading[c] <=> c converged and some branch result in case c exceeds its limit
"""
import copy

import numpy as np
import pandas as pd

import pandapower as pp

from mc import d_nets as dn

BR = dn.BRANCH_TYPES
VAR = {"bus": "vm_pu", "line": "loading_percent", "trafo": "loading_percent", "trafo3w": "loading_percent"}
TOL = {"vm_pu": 1e-6, "loading_percent": 1e-4}        # abs; + 1e-7 rel. defects are >= 1e-2
MARGIN = 1e-3                                         # limit comparisons closer than this are not judged

_BRUTE = {}


def elements(net):
    return [t for t in ("bus",) + BR if len(net[t])]


def snapshot_res(net):
    return {t: net["res_" + t][VAR[t]].values.astype(float).copy() for t in elements(net)}


def in_service_state(net):
    out = {}
    for t in list(net.keys()):
        v = net[t]
        if isinstance(v, pd.DataFrame) and not t.startswith("res_") and not t.startswith("_") and "in_service" in v.columns:
            out[t] = (list(v.index), [bool(x) for x in v["in_service"].values])
    return out


def brute(desc, ir=False):
    """per network variant: N-0 result and the result of every single outage of an in-service branch element,
    each on its own deep copy.  ir=True: same but every copy carries the plain N-0 results and is solved with
    init='results' (the pf options of the init-results clauses)."""
    key = (desc["net"], desc.get("load", "normal"), bool(ir))
    if key in _BRUTE:
        return _BRUTE[key]
    net = dn.build({"net": desc["net"], "load": desc.get("load", "normal")})
    opts = {"init": "results"} if ir else {}
    out = {"n0": None, "cases": {}, "insvc": {t: net[t]["in_service"].values.astype(bool).copy() for t in elements(net)},
           "index": {t: net[t].index.values.copy() for t in elements(net)}}
    base = copy.deepcopy(net)
    try:
        pp.runpp(base)
    except Exception:
        base = None
    if base is not None:
        n0 = copy.deepcopy(base)
        try:
            pp.runpp(n0, **opts)
            out["n0"] = snapshot_res(n0)
        except Exception:
            pass
    for t in BR:
        for i in net[t].index:
            if not net[t].at[i, "in_service"]:
                continue
            m = copy.deepcopy(base if (ir and base is not None) else net)
            m[t].at[i, "in_service"] = False
            try:
                pp.runpp(m, **opts)
                out["cases"][(t, int(i))] = snapshot_res(m) if m.converged else None
            except Exception as e:
                out["cases"][(t, int(i))] = None
    _BRUTE[key] = out
    return out


def live_cases(ref, cases):
    """listed cases whose element is in service, in evaluation order"""
    out = []
    for t, i in dn.flat(cases):
        pos = int(np.where(ref["index"][t] == i)[0][0])
        if ref["insvc"][t][pos]:
            out.append((t, int(i)))
    return out


def pos_of(ref, t, i):
    return int(np.where(ref["index"][t] == i)[0][0])


def spec_extremes(ref, conv):
    """max/min per element over the converged cases `conv` (list of (t, i)), own outage left out"""
    out = {}
    for t in ref["index"]:
        rows = []
        for c in conv:
            v = ref["cases"][c][t].copy()
            if c[0] == t:
                v[pos_of(ref, t, c[1])] = np.nan
            rows.append(v)
        if not rows:
            out[t] = None
            continue
        a = np.vstack(rows)
        allnan = np.all(np.isnan(a), axis=0)
        mx = np.where(allnan, np.nan, np.nanmax(np.where(np.isnan(a), -np.inf, a), axis=0))
        mn = np.where(allnan, np.nan, np.nanmin(np.where(np.isnan(a), np.inf, a), axis=0))
        out[t] = (mx, mn)
    return out


def close(a, b, var):
    """NaN-aware closeness of two float arrays -> bool array"""
    a, b = np.asarray(a, dtype=float), np.asarray(b, dtype=float)
    tol = TOL[var] + 1e-7 * np.maximum(np.abs(np.nan_to_num(a)), np.abs(np.nan_to_num(b)))
    both_nan = np.isnan(a) & np.isnan(b)
    with np.errstate(invalid="ignore"):
        return both_nan | (np.abs(a - b) <= tol)


# ----------------------------------------------------------------------------------------------------------------
# emulation of the aggregation as it is written today (only used to label violations "explained=...")
# ----------------------------------------------------------------------------------------------------------------
def fold_today(ref, conv, variant):
    """Replays _update_contingency_results over the converged cases in evaluation order on the reference values.
    variant 'seq': where = in_service (outaged element off) & ~isnan(val)      [contingency.py, parallel n_procs=1]
            'par': where = ~isnan(val)  (own outage and out-of-service rows count)   [parallel aggregation]
    cause update in both: max_mask = val > running_max (False while the running maximum is NaN), first case
    compares against -1.  Returns {t: {"max","min","cause": [(et, idx) or None]}}"""
    out = {}
    for t in ref["index"]:
        n = len(ref["index"][t])
        mx, mn, cause = None, None, [None] * n
        for c in conv:
            val = ref["cases"][c][t]
            ins = ref["insvc"][t].copy()
            if c[0] == t:
                ins[pos_of(ref, t, c[1])] = False
            if t != "bus":
                run = mx if mx is not None else np.full(n, -1.)
                with np.errstate(invalid="ignore"):
                    mask = val > run
                for j in np.where(mask)[0]:
                    cause[j] = c
            if mx is None:
                mx, mn = np.full(n, np.nan), np.full(n, np.nan)
            where = ~np.isnan(val) if variant == "par" else (ins & ~np.isnan(val))
            np.fmax(val, mx, out=mx, where=where)
            np.fmin(val, mn, out=mn, where=where)
        out[t] = {"max": mx, "min": mn, "cause": cause}
    return out


# ----------------------------------------------------------------------------------------------------------------
# judges
# ----------------------------------------------------------------------------------------------------------------
def _v(clause, detail, tokens, klass):
    from mc import core
    return core.violation(clause, detail, tokens=tokens, klass=klass)


def limits_of(net, t):
    s = "max_loading_percent_nminus1" if "max_loading_percent_nminus1" in net[t].columns else "max_loading_percent"
    return net[t][s].values.astype(float)


def judge_c14(res, net_after, net_before, ref, cases, conv, n0_ref, toks, prev_tables=None):
    """all clauses of C14 for one run_contingency call.
    res: returned dict; conv: converged live cases (from the reference or from the recorder);
    n0_ref: plain power flow result; prev_tables: res_* tables before the call (for the stale-column label)"""
    vs = []
    live = live_cases(ref, cases)
    spec = spec_extremes(ref, conv)
    today = None
    counts = {"chk_extreme_values": 0, "chk_causes": 0, "chk_overload_true": 0, "chk_overload_false": 0,
              "chk_n0_values": 0, "chk_table_cells": 0}
    els = [t for t in ref["index"]]
    if sorted(res.keys()) != sorted(els):
        vs.append(_v("result_keys", {"got": sorted(res.keys()), "want": sorted(els)}, toks, "keys"))
        return vs, counts
    for t in els:
        var = VAR[t]
        ins = ref["insvc"][t]
        r = res[t]
        if not np.array_equal(np.asarray(r.get("index")), ref["index"][t]):
            vs.append(_v("result_keys", {"element": t, "index": r.get("index")}, toks, "index"))
            continue
        # ---- extremes
        for which, k in (("max", 0), ("min", 1)):
            key = "%s_%s" % (which, var)
            want = spec[t][k] if spec[t] is not None else np.full(len(ins), np.nan)
            got = r.get(key)
            if got is None:
                bad = ins & ~np.isnan(want)
                got_arr = np.full(len(ins), np.nan)
            else:
                got_arr = np.asarray(got, dtype=float)
                bad = ins & ~close(got_arr, want, var)
            counts["chk_extreme_values"] += int(ins.sum())
            if bad.any():
                j = int(np.where(bad)[0][0])
                own = [(t, int(ref["index"][t][x])) in conv for x in np.where(bad)[0]]
                tk = list(toks) + ["key=" + key]
                vs.append(_v("extremes", {"element": t, "key": key, "index": int(ref["index"][t][j]),
                                          "reported": got_arr, "brute_force": want, "n_bad": int(bad.sum()),
                                          "bad_is_outaged_element": own, "converged_cases": conv}, tk, t + "." + key))
        # ---- N-0
        if n0_ref is not None:
            got = np.asarray(r.get(var), dtype=float) if r.get(var) is not None else np.full(len(ins), np.nan)
            bad = ~close(got, n0_ref[t], var)
            counts["chk_n0_values"] += len(ins)
            if bad.any():
                tk = list(toks)
                vs.append(_v("n0_equals_pf", {"element": t, "reported": got, "plain_pf": n0_ref[t]}, tk, t + ".n0"))
        if t == "bus":
            continue
        # ---- cause attribution
        mx = r.get("max_" + var)
        if mx is not None:
            mx = np.asarray(mx, dtype=float)
            ce, ci = r.get("cause_element"), r.get("cause_index")
            for j in range(len(ins)):
                if not ins[j] or np.isnan(mx[j]):
                    continue
                counts["chk_causes"] += 1
                me = (t, int(ref["index"][t][j]))
                named = (ce[j], int(ci[j])) if isinstance(ce[j], str) else (ce[j], None)
                ok = named in conv and named != me and bool(close(ref["cases"][named][t][j], mx[j], var))
                if not ok:
                    if today is None:
                        today = fold_today(ref, conv, "seq")
                    tk = list(toks)
                    emu = today[t]["cause"][j]
                    if emu == named or (emu is None and ce[j] is None):
                        tk.append("explained=cause_compared_with_nan_running_max")
                    maximisers = [c for c in conv if c != me and bool(close(ref["cases"][c][t][j], mx[j], var))]
                    vs.append(_v("cause", {"element": t, "index": me[1], "reported_max": mx[j], "reported_cause": named,
                                           "loading_when_named_cause_is_out": (
                                               ref["cases"][named][t][j] if named in ref["cases"] and ref["cases"][named] else None),
                                           "true_maximisers": maximisers, "evaluation_order": conv}, tk, t + ".cause"))
        # ---- causes_overloading
        co = np.asarray(r.get("causes_overloading"))
        for j in range(len(ins)):
            me = (t, int(ref["index"][t][j]))
            if me in live and me not in conv:
                continue                      # outage without a converged result: no evidence either way
            want, borderline = False, False
            if me in conv:
                for t2 in BR:
                    if t2 not in ref["index"]:
                        continue
                    val, lim = ref["cases"][me][t2], limits_of(net_before, t2)
                    with np.errstate(invalid="ignore"):
                        if np.any(val > lim + MARGIN):
                            want = True
                        elif np.any(np.abs(val - lim) <= MARGIN):
                            borderline = True
            if borderline and not want:
                continue
            counts["chk_overload_true" if want else "chk_overload_false"] += 1
            if bool(co[j]) != want:
                vs.append(_v("causes_overloading", {"element": t, "index": me[1], "reported": bool(co[j]), "brute_force": want,
                                                    "is_case": me in live}, list(toks), t + ".causes_overloading"))
    # ---- in_service restored
    a, b = in_service_state(net_after), in_service_state(net_before)
    if a != b:
        diff = [t for t in b if a.get(t) != b[t]]
        vs.append(_v("in_service_restored", {"tables": diff, "before": {t: b[t] for t in diff},
                                             "after": {t: a.get(t) for t in diff}}, list(toks), "in_service"))
    # ---- written tables = returned dict
    for t in els:
        var = VAR[t]
        tab = net_after["res_" + t]
        keys = ["max_" + var, "min_" + var] + ([] if t == "bus" else ["causes_overloading", "cause_element", "cause_index"])
        mxr = res[t].get("max_" + var)
        for key in keys:
            if key not in res[t]:
                continue
            counts["chk_table_cells"] += len(ref["index"][t])
            if key not in tab.columns:
                vs.append(_v("tables_match_dict", {"element": t, "key": key, "problem": "column missing"}, list(toks), t + ".table"))
                continue
            col = tab.loc[ref["index"][t], key].values
            got = res[t][key]
            if key.startswith("cause_"):
                sel = ref["insvc"][t] & ~np.isnan(np.asarray(mxr, dtype=float)) if mxr is not None else np.zeros(len(col), bool)
                same = np.array([(not s) or (str(x) == str(y)) or (_num_eq(x, y)) for s, x, y in zip(sel, col, got)])
            elif key == "causes_overloading":
                same = np.array([bool(x) == bool(y) if not _isnan(x) else False for x, y in zip(col, got)])
            else:
                same = close(np.asarray(col, dtype=float), np.asarray(got, dtype=float), var)
            if not same.all():
                tk = list(toks) + ["key=" + key]
                if prev_tables is not None and key in prev_tables.get(t, {}):
                    pv = prev_tables[t][key]
                    if all(str(x) == str(y) or _num_eq(x, y) or (_isnan(x) and _isnan(y)) for x, y in zip(col, pv)):
                        tk.append("explained=stale_column_kept_from_previous_call")
                vs.append(_v("tables_match_dict", {"element": t, "key": key, "table": list(col), "returned": list(got)},
                             tk, t + ".table"))
    return vs, counts


def _isnan(x):
    try:
        return bool(np.isnan(x))
    except Exception:
        return x is None


def _num_eq(x, y):
    try:
        return float(x) == float(y)
    except Exception:
        return False


def table_snapshot(net, ref):
    out = {}
    for t in ref["index"]:
        tab = net.get("res_" + t)
        if tab is None or not len(tab):
            continue
        out[t] = {c: list(tab[c].values) for c in tab.columns
                  if c.startswith("max_") or c.startswith("min_") or c.startswith("cause")}
    return out


# ----------------------------------------------------------------------------------------------------------------
# recorder: a contingency_evaluation_function (public parameter) that logs what each call saw and how it ended
# ----------------------------------------------------------------------------------------------------------------
RECORD = []


def recording_runpp(net, **kwargs):
    oos = [(t, int(i)) for t in BR if len(net[t]) for i in net[t].index[~net[t]["in_service"].values.astype(bool)]]
    try:
        pp.runpp(net, **kwargs)
    except Exception as e:
        RECORD.append({"oos": oos, "outcome": type(e).__name__})
        raise
    RECORD.append({"oos": oos, "outcome": "ok" if net.converged else "not_converged",
                   "iterations": net._ppc.get("iterations") if net.get("_ppc") else None})


# ----------------------------------------------------------------------------------------------------------------
# C15: NaN-aware comparison of two result dicts, all keys and all values
# ----------------------------------------------------------------------------------------------------------------
def diff_results(a, b, exact=True):
    """list of (element, key, positions) where the dicts differ; cause_* entries are compared only where the
    maximum they refer to exists in both (entries without a maximum are uninitialised memory, np.empty)"""
    out = []
    if sorted(a.keys()) != sorted(b.keys()):
        return [("*", "element_keys", [sorted(a.keys()), sorted(b.keys())])]
    for t in a:
        if sorted(a[t].keys()) != sorted(b[t].keys()):
            out.append((t, "keys", [sorted(set(a[t]) ^ set(b[t]))]))
        for key in a[t]:
            if key not in b[t]:
                continue
            x, y = np.asarray(a[t][key]), np.asarray(b[t][key])
            if x.shape != y.shape:
                out.append((t, key, ["shape"]))
                continue
            if key.startswith("cause_"):
                mk = "max_" + VAR[t]
                if mk in a[t] and mk in b[t]:
                    sel = ~np.isnan(np.asarray(a[t][mk], dtype=float)) & ~np.isnan(np.asarray(b[t][mk], dtype=float))
                else:
                    sel = np.zeros(len(x), bool)
                if key == "cause_index" and "cause_element" in a[t] and "cause_element" in b[t]:
                    # never assigned in both (cause_element still None): cause_index is uninitialised memory
                    sel = sel & ~np.array([p is None and q is None for p, q in zip(a[t]["cause_element"], b[t]["cause_element"])])
                bad = [int(j) for j in np.where(sel)[0] if not (x[j] == y[j])]
            elif x.dtype.kind == "f" or y.dtype.kind == "f":
                xf, yf = x.astype(float), y.astype(float)
                if exact:
                    same = (xf == yf) | (np.isnan(xf) & np.isnan(yf))
                else:
                    same = close(xf, yf, "vm_pu" if key.endswith("vm_pu") else "loading_percent")
                bad = [int(j) for j in np.where(~same)[0]]
            else:
                bad = [int(j) for j in np.where(~(x == y))[0]]
            if bad:
                out.append((t, key, bad))
    return out

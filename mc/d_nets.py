"""agentD: meshed networks, N-1 menus, limit alphabets and ordered case-list enumeration for C14/C15.

A contingency case descriptor is
    {"net": id, "load": "normal"|"heavy", "limits": id, "cases": [[etype, [idx, ...]], ...], ...}
`cases` is the ORDERED form of the nminus1_cases dict ({etype: {"index": [...]}} - the implementation folds left over
dict order and over each index list), so every expressible evaluation order has its own descriptor.
"""
import copy
import itertools

import numpy as np

import pandapower as pp

from mc import netalpha as na

BRANCH_TYPES = ("line", "trafo", "trafo3w")

TR2010 = dict(sn_mva=10., vn_hv_kv=20., vn_lv_kv=10., vkr_percent=0.5, vk_percent=6., pfe_kw=5.,
              i0_percent=0.1, shift_degree=0., tap_side="hv", tap_neutral=0, tap_max=2, tap_min=-2,
              tap_step_percent=2.5, tap_step_degree=0., tap_pos=0, tap_changer_type="Ratio")


def _mk_M4L():
    """M4 ring+chord (lines 0..4) + line 5 = out-of-service parallel of line 2 + bridge line 6 (2-4, load on 4)
    + second-level bridge line 7 (4-5, load on 5: its loading is NaN whenever line 6 is out)."""
    net = na.base("M4")
    pp.create_line_from_parameters(net, 2, 3, in_service=False, **na.LINE110)           # line 5 (oos)
    b4 = pp.create_bus(net, 110., name="b4")
    pp.create_line_from_parameters(net, 2, b4, **na.LINE110)                            # line 6 (bridge)
    pp.create_load(net, b4, 10., 2.)
    b5 = pp.create_bus(net, 110., name="b5")
    pp.create_line_from_parameters(net, b4, b5, **na.LINE110)                           # line 7 (bridge behind bridge)
    pp.create_load(net, b5, 5., 1.)
    return net


def _mk_M4T():
    """M4 + 20 kV part: trafos 0,1 in parallel 2->4, trafo 2 3->5, trafo 3 = out-of-service parallel of trafo 2,
    20 kV line 5 (4-5) closing a loop across voltage levels, bridge line 6 (5-6, load on 6)."""
    net = na.base("M4")
    b4 = pp.create_bus(net, 20., name="b4")
    b5 = pp.create_bus(net, 20., name="b5")
    b6 = pp.create_bus(net, 20., name="b6")
    pp.create_transformer_from_parameters(net, 2, b4, **na.TR)                           # trafo 0
    pp.create_transformer_from_parameters(net, 2, b4, **na.TR)                           # trafo 1
    pp.create_transformer_from_parameters(net, 3, b5, **na.TR)                           # trafo 2
    pp.create_transformer_from_parameters(net, 3, b5, in_service=False, **na.TR)         # trafo 3 (oos)
    pp.create_line_from_parameters(net, b4, b5, **na.LINE)                               # line 5
    pp.create_line_from_parameters(net, b5, b6, **na.LINE)                               # line 6 (bridge)
    pp.create_load(net, b4, 12., 3.)
    pp.create_load(net, b5, 6., 1.5)
    pp.create_load(net, b6, 1.5, 0.4)
    return net


def _mk_W3M():
    """W3 (trafo3w 0: 0 -> 1 (20 kV), 2 (10 kV)) meshed: trafo 0 110/20 0->1, trafo 1 20/10 1->2, second line 1-3,
    trafo3w 1 = out-of-service twin, bridge line 2 (3-4, load on 4)."""
    net = na.base("W3")
    pp.create_transformer_from_parameters(net, 0, 1, **na.TR)                            # trafo 0
    pp.create_transformer_from_parameters(net, 1, 2, **TR2010)                           # trafo 1
    pp.create_transformer3w_from_parameters(net, 0, 1, 2, in_service=False, **na.TR3)    # trafo3w 1 (oos)
    pp.create_line_from_parameters(net, 1, 3, **na.LINE)                                 # line 1
    b4 = pp.create_bus(net, 20., name="b4")
    pp.create_line_from_parameters(net, 3, b4, **na.LINE)                                # line 2 (bridge)
    pp.create_load(net, b4, 1.0, 0.2)
    return net


_MAKERS = {"M4L": _mk_M4L, "M4T": _mk_M4T, "W3M": _mk_W3M}
_CACHE = {}

# N-1 menus: [etype, index]; roles noted for the evidence
MENU = {
    "M4L": {"quick": [["line", 0], ["line", 1], ["line", 3], ["line", 4], ["line", 5], ["line", 6]],
            "thorough": [["line", 0], ["line", 1], ["line", 2], ["line", 3], ["line", 4], ["line", 5], ["line", 6],
                         ["line", 7]]},
    "M4T": {"quick": [["line", 0], ["line", 5], ["line", 6], ["trafo", 0], ["trafo", 2], ["trafo", 3]],
            "thorough": [["line", 0], ["line", 4], ["line", 5], ["line", 6], ["trafo", 0], ["trafo", 1], ["trafo", 2],
                         ["trafo", 3]]},
    "W3M": {"quick": [["line", 0], ["line", 2], ["trafo", 0], ["trafo", 1], ["trafo3w", 0], ["trafo3w", 1]],
            "thorough": [["line", 0], ["line", 1], ["line", 2], ["trafo", 0], ["trafo", 1], ["trafo3w", 0],
                         ["trafo3w", 1]]},
}
ROLES = {"M4L": {"oos": [["line", 5]], "bridge": [["line", 6], ["line", 7]]},
         "M4T": {"oos": [["trafo", 3]], "bridge": [["line", 6]]},
         "W3M": {"oos": [["trafo3w", 1]], "bridge": [["line", 2]]}}

HEAVY_FACTOR = {"M4L": 6.0}       # outage of line 0 does not converge, everything else does (measured)

# limit alphabets: how max_loading_percent (/ _nminus1) are set.  Values are chosen away (>= 0.5 %) from every
# loading that occurs, see d_nminus1.brute (borderline comparisons are never judged anyway).
LIMITS = ("some", "none", "all", "nm1col", "nanlim", "nm1one")


def apply_limits(net, name, limits):
    base = {"M4L": 45., "M4T": 50., "W3M": 32.}[name]
    for et in BRANCH_TYPES:
        if not len(net[et]):
            continue
        n = len(net[et])
        if limits == "some":
            net[et]["max_loading_percent"] = base
        elif limits == "none":
            net[et]["max_loading_percent"] = 1e4
        elif limits == "all":
            net[et]["max_loading_percent"] = 0.01
        elif limits == "nm1col":      # the N-1 column must win over the plain one
            net[et]["max_loading_percent"] = 0.01
            net[et]["max_loading_percent_nminus1"] = base + 3. * np.arange(n)
        elif limits == "nm1one":      # the N-1 column exists in the line table ONLY; other branch tables use the plain one
            if et == "line":
                net[et]["max_loading_percent"] = 0.01
                net[et]["max_loading_percent_nminus1"] = base + 3. * np.arange(n)
            else:
                net[et]["max_loading_percent"] = base
        elif limits == "nanlim":      # NaN limit on the first element: never counts as overloaded
            v = np.full(n, base - 5.)
            v[0] = np.nan
            net[et]["max_loading_percent"] = v
        else:
            raise ValueError(limits)


def build(desc):
    name, load, limits = desc["net"], desc.get("load", "normal"), desc.get("limits", "some")
    key = (name, load, limits)
    if key not in _CACHE:
        net = _MAKERS[name]()
        if load == "heavy":
            f = HEAVY_FACTOR[name]
            net.load["p_mw"] *= f
            net.load["q_mvar"] *= f
        apply_limits(net, name, limits)
        _CACHE[key] = net
    return copy.deepcopy(_CACHE[key])


def to_dict(cases):
    """ordered descriptor -> the nminus1_cases dict of the public API (insertion order = evaluation order)"""
    return {et: {"index": list(idx)} for et, idx in cases}


def flat(cases):
    return [(et, i) for et, idx in cases for i in idx]


def ordered_lists(menu, kmax, kmin=0):
    """Every subset of kmin..kmax menu elements in every evaluation order the dict API can express:
    all permutations inside an element type x all orders of the element types."""
    out = []
    for k in range(kmin, kmax + 1):
        for combo in itertools.combinations(range(len(menu)), k):
            sel = [menu[i] for i in combo]
            types = [t for t in BRANCH_TYPES if any(e[0] == t for e in sel)]
            per_type = {t: [e[1] for e in sel if e[0] == t] for t in types}
            for torder in itertools.permutations(types):
                for perms in itertools.product(*[itertools.permutations(per_type[t]) for t in torder]):
                    out.append([[t, list(p)] for t, p in zip(torder, perms)])
    return out


def subsets_two_orders(menu, k):
    """every k-subset in canonical and in fully reversed order (a cheaper slice of ordered_lists)"""
    out = []
    for combo in itertools.combinations(range(len(menu)), k):
        sel = [menu[i] for i in combo]
        for rev in (False, True):
            s = sel[::-1] if rev else sel
            types = []
            for e in s:
                if e[0] not in types:
                    types.append(e[0])
            out.append([[t, [e[1] for e in s if e[0] == t]] for t in types])
    return out

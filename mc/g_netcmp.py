"""C20 oracle: structural comparison of two pandapower nets (original vs loaded copy).

Everything is compared by walking the objects - no reliance on pandapower.toolbox.nets_equal (which skips
dtypes, index order and non-table content).  A difference is a dict {"clause", "where", "a", "b"}.

Leniency that the statement grants and the comparison therefore applies:
* float cells: NaN == NaN, +0.0 == -0.0 (sign of zero is not demanded), |a-b| <= ftol*max(1,|a|) where ftol is
  0 for pickle and 1e-14 for text formats ("JSON floats within 1e-14"; the pure relative deviation for |x| < 1 is
  counted separately, not judged);
* missing values in object columns: None and NaN (and pd.NA) are the same "missing";
* list vs tuple are the same sequence.
"""
import math
import numbers

import numpy as np
import pandas as pd

MISSING = "<missing>"


def _is_missing(x):
    if x is None or x is pd.NA:
        return True
    if isinstance(x, (float, np.floating)):
        return bool(np.isnan(x))
    return False


def _short(x, n=80):
    s = repr(x)
    return s if len(s) <= n else s[:n - 3] + "..."


class Cmp:
    def __init__(self, ftol=0.0, max_diffs=40):
        self.ftol = ftol
        self.diffs = []
        self.max_diffs = max_diffs
        self.rel_only = 0          # float cells inside ftol*max(1,|a|) but outside ftol*|a|
        self.cells = 0

    def add(self, clause, where, a=None, b=None, raw=None):
        if len(self.diffs) < self.max_diffs:
            ra, rb = raw if raw is not None else (a, b)
            self.diffs.append({"clause": clause, "where": where, "a": _short(a), "b": _short(b), "_a": ra, "_b": rb})

    # ---------------------------------------------------------------- scalars
    def scalar(self, a, b, where, clause="value"):
        """compare two python / numpy scalars (or nested containers)"""
        self.cells += 1
        if _is_missing(a) and _is_missing(b):
            return True
        if _is_missing(a) != _is_missing(b):
            self.add(clause, where, a, b)
            return False
        if isinstance(a, (bool, np.bool_)) or isinstance(b, (bool, np.bool_)):
            if not (isinstance(a, (bool, np.bool_)) and isinstance(b, (bool, np.bool_))):
                self.add("cell_type", where, "%s:%r" % (type(a).__name__, a), "%s:%r" % (type(b).__name__, b), raw=(a, b))
                return False
            if bool(a) != bool(b):
                self.add(clause, where, a, b)
                return False
            return True
        if isinstance(a, str) or isinstance(b, str):
            if not (isinstance(a, str) and isinstance(b, str)):
                self.add("cell_type", where, "%s:%r" % (type(a).__name__, a), "%s:%r" % (type(b).__name__, b), raw=(a, b))
                return False
            if a != b:
                self.add(clause, where, a, b)
                return False
            return True
        a_int = isinstance(a, (int, np.integer))
        b_int = isinstance(b, (int, np.integer))
        if a_int and b_int:
            if int(a) != int(b):
                self.add(clause, where, a, b)
                return False
            return True
        if isinstance(a, numbers.Real) and isinstance(b, numbers.Real):
            if a_int != b_int:
                # int vs float of the same value: a type change of the cell
                if float(a) == float(b) and (not a_int or abs(int(a)) < 2 ** 53) and (not b_int or abs(int(b)) < 2 ** 53):
                    self.add("cell_type", where, "%s:%r" % (type(a).__name__, a), "%s:%r" % (type(b).__name__, b), raw=(a, b))
                else:
                    self.add(clause, where, a, b)
                return False
            return self._float(float(a), float(b), where, clause)
        if isinstance(a, complex) and isinstance(b, complex):
            return self._float(a.real, b.real, where, clause) and self._float(a.imag, b.imag, where, clause)
        if isinstance(a, (list, tuple)) and isinstance(b, (list, tuple)):
            if len(a) != len(b):
                self.add(clause, where + ".len", len(a), len(b))
                return False
            ok = True
            for i, (x, y) in enumerate(zip(a, b)):
                ok = self.scalar(x, y, "%s[%d]" % (where, i), clause) and ok
            return ok
        if isinstance(a, np.ndarray) and isinstance(b, np.ndarray):
            if a.shape != b.shape:
                self.add(clause, where + ".shape", a.shape, b.shape)
                return False
            if a.dtype != b.dtype:
                self.add("dtype", where + ".dtype", a.dtype, b.dtype)
            return self.scalar(a.tolist(), b.tolist(), where, clause)
        if isinstance(a, (set, frozenset)) and isinstance(b, (set, frozenset)):
            if a != b:
                self.add(clause, where, a, b)
                return False
            return True
        if isinstance(a, dict) and isinstance(b, dict):
            return self.mapping(a, b, where, clause)
        if isinstance(a, pd.DataFrame) and isinstance(b, pd.DataFrame):
            return self.frame(a, b, where)
        if isinstance(a, pd.Series) and isinstance(b, pd.Series):
            return self.frame(a.to_frame("s"), b.to_frame("s"), where)
        if isinstance(a, pd.Index) and isinstance(b, pd.Index):
            return self.index(a, b, where)
        if hasattr(a, "__dict__") and hasattr(b, "__dict__") and not callable(a):
            return self.obj(a, b, where, clause)
        if callable(a) and callable(b):
            na_, nb_ = getattr(a, "__qualname__", repr(a)), getattr(b, "__qualname__", repr(b))
            if na_ != nb_:
                self.add(clause, where, na_, nb_)
                return False
            return True
        if type(a) is not type(b):
            self.add("cell_type", where, "%s:%r" % (type(a).__name__, a), "%s:%r" % (type(b).__name__, b), raw=(a, b))
            return False
        try:
            same = bool(a == b)
        except Exception:
            same = repr(a) == repr(b)
        if not same:
            self.add(clause, where, a, b)
        return same

    def _float(self, a, b, where, clause):
        if math.isnan(a) and math.isnan(b):
            return True
        if a == b:
            return True
        if math.isnan(a) or math.isnan(b) or math.isinf(a) or math.isinf(b):
            self.add(clause, where, a, b)
            return False
        if abs(a - b) <= self.ftol * max(1., abs(a)):
            if abs(a - b) > self.ftol * abs(a):
                self.rel_only += 1
            return True
        self.add(clause, where, a, b)
        return False

    def mapping(self, a, b, where, clause="value", skip=()):
        ok = True
        ka, kb = [k for k in a.keys() if k not in skip], [k for k in b.keys() if k not in skip]
        if set(map(repr, ka)) != set(map(repr, kb)):
            self.add(clause, where + ".keys", sorted(set(map(repr, ka)) - set(map(repr, kb))),
                     sorted(set(map(repr, kb)) - set(map(repr, ka))))
            ok = False
        for k in ka:
            if k in b:
                ok = self.scalar(a[k], b[k], "%s[%r]" % (where, k), clause) and ok
        return ok

    def obj(self, a, b, where, clause="value"):
        if type(a).__name__ != type(b).__name__:
            self.add(clause, where + ".class", type(a).__name__, type(b).__name__)
            return False
        return self.mapping(vars(a), vars(b), where, clause)

    # ---------------------------------------------------------------- pandas
    def index(self, a, b, where, order=True, name=True):
        ok = True
        if isinstance(a, pd.MultiIndex) != isinstance(b, pd.MultiIndex):
            self.add("index", where + ".index.class", type(a).__name__, type(b).__name__)
            return False
        # RangeIndex vs Index[int64] with the same labels is the same index (class is not demanded)
        if isinstance(a, pd.MultiIndex):
            if list(a.names) != list(b.names):
                self.add("index", where + ".index.names", list(a.names), list(b.names))
                ok = False
            if a.tolist() != b.tolist():
                self.add("index", where + ".index.values", a.tolist()[:6], b.tolist()[:6])
                ok = False
            return ok
        if str(a.dtype) != str(b.dtype):
            self.add("index_dtype", where + ".index.dtype", a.dtype, b.dtype)
            ok = False
        if name and a.name != b.name:
            self.add("index_name", where + ".index.name", a.name, b.name)
            ok = False
        la, lb = a.tolist(), b.tolist()
        if la != lb:
            if sorted(map(repr, la)) == sorted(map(repr, lb)):
                if order:
                    self.add("index_order", where + ".index", la[:8], lb[:8])
                    ok = False
            else:
                self.add("index", where + ".index", la[:8], lb[:8])
                ok = False
        return ok

    def frame(self, a, b, where, only_columns=None, cell_filter=None, dtypes=True, index_name=True):
        """a: original, b: loaded.  cell_filter(col, value) -> False to skip a cell (not representable)."""
        ok = self.index(a.index, b.index, where, name=index_name)
        ca, cb = list(a.columns), list(b.columns)
        if only_columns is not None:
            ca = [c for c in ca if c in only_columns]
            cb = [c for c in cb if c in only_columns]
        if ca != cb:
            if sorted(map(str, ca)) == sorted(map(str, cb)):
                self.add("column_order", where + ".columns", ca, cb)
            else:
                self.add("columns", where + ".columns", [c for c in ca if c not in cb], [c for c in cb if c not in ca])
            ok = False
        if isinstance(a.columns, pd.MultiIndex) != isinstance(b.columns, pd.MultiIndex):
            self.add("columns", where + ".columns.class", type(a.columns).__name__, type(b.columns).__name__)
            return False
        same_rows = a.index.tolist() == b.index.tolist()
        if not same_rows:
            if sorted(map(repr, a.index.tolist())) == sorted(map(repr, b.index.tolist())) and a.index.is_unique \
                    and [type(x) for x in a.index.tolist()] == [type(x) for x in b.index.tolist()]:
                b = b.loc[a.index]
            elif len(a) == len(b) and not ok:
                pass      # index labels already reported: compare the cells row by row (by position)
            else:
                return False
        for c in ca:
            if c not in cb:
                continue
            sa, sb = a[c], b[c]
            if isinstance(sa, pd.DataFrame) or isinstance(sb, pd.DataFrame):
                continue  # duplicate column labels: not part of the alphabet
            if dtypes and str(sa.dtype) != str(sb.dtype):
                self.add("dtype", "%s.%s.dtype" % (where, c), sa.dtype, sb.dtype)
                ok = False
            # fast path: numeric / bool numpy columns that are elementwise identical (NaN == NaN)
            if cell_filter is None and sa.dtype == sb.dtype and sa.dtype.kind in "fiub" and not isinstance(sa.dtype, pd.api.extensions.ExtensionDtype):
                xa, xb = sa.values, sb.values
                same = (xa == xb)
                if sa.dtype.kind == "f":
                    same = same | (np.isnan(xa) & np.isnan(xb))
                if bool(same.all()):
                    self.cells += len(xa)
                    continue
            va, vb = sa.tolist(), sb.tolist()
            for i, (x, y) in enumerate(zip(va, vb)):
                if cell_filter is not None and not cell_filter(c, x):
                    continue
                ok = self.scalar(x, y, "%s.%s[%r]" % (where, c, a.index[i])) and ok
        return ok

"""agentC: plain-Python reachability oracle for C07 (sets + BFS, no pandapower / networkx / scipy code).

Semantics (the statement of C07 + DESIGN §4 C07): two in-service buses are connected by
  * an in-service line / trafo / impedance whose terminal buses are both in service and that has NO open
    switch (et 'l' / 't') attached to it (an open switch at either end takes the whole branch out of the path),
  * an in-service trafo3w between every pair of its sides whose bus is in service and whose own switch (et 't3',
    bus == that side's bus) is not open (one open side leaves the other two connected),
  * a closed bus-bus switch (any z_ohm).
A bus is supplied iff it is in service and reachable from a bus that carries an in-service ext_grid or an
in-service gen with slack=True.  dclines / FACTS are not modelled (kept out of the alphabet).
"""

BUS_ELEMENT_TABLES = ["load", "sgen", "storage", "motor", "shunt", "ward", "xward", "gen", "ext_grid",
                      "asymmetric_load", "asymmetric_sgen"]
BRANCH_TABLES = {
    "line": (["from_bus", "to_bus"], ["p_from_mw", "q_from_mvar", "p_to_mw", "q_to_mvar", "pl_mw", "ql_mvar"]),
    "trafo": (["hv_bus", "lv_bus"], ["p_hv_mw", "q_hv_mvar", "p_lv_mw", "q_lv_mvar", "pl_mw", "ql_mvar"]),
    "trafo3w": (["hv_bus", "mv_bus", "lv_bus"], ["p_hv_mw", "q_hv_mvar", "p_mv_mw", "q_mv_mvar", "p_lv_mw",
                                                 "q_lv_mvar", "pl_mw", "ql_mvar"]),
    "impedance": (["from_bus", "to_bus"], ["p_from_mw", "q_from_mvar", "p_to_mw", "q_to_mvar", "pl_mw", "ql_mvar"]),
}


def _rows(tab):
    cols = list(tab.columns)
    for idx, vals in zip(tab.index, tab.values.tolist()):
        yield int(idx), dict(zip(cols, vals))


def analyse(net):
    """returns dict(in_service=set, oos=set, slack_buses=set, supplied=set, dead=set, edges=[(a, b, what)])"""
    bus_is = set()
    bus_all = set()
    for b, r in _rows(net.bus):
        bus_all.add(b)
        if bool(r["in_service"]):
            bus_is.add(b)
    open_sw = set()       # (et, element, bus)
    closed_bb = []
    for _, r in _rows(net.switch):
        if r["et"] == "b":
            if bool(r["closed"]):
                closed_bb.append((int(r["bus"]), int(r["element"])))
        elif not bool(r["closed"]):
            open_sw.add((r["et"], int(r["element"]), int(r["bus"])))
    open_branch = {(et, el) for et, el, _ in open_sw}
    adj = {b: set() for b in bus_is}
    edges = []

    def connect(a, b, what):
        if a in bus_is and b in bus_is:
            adj[a].add(b)
            adj[b].add(a)
            edges.append((a, b, what))
    for idx, r in _rows(net.line):
        if bool(r["in_service"]) and ("l", idx) not in open_branch:
            connect(int(r["from_bus"]), int(r["to_bus"]), "line%d" % idx)
    for idx, r in _rows(net.trafo):
        if bool(r["in_service"]) and ("t", idx) not in open_branch:
            connect(int(r["hv_bus"]), int(r["lv_bus"]), "trafo%d" % idx)
    for idx, r in _rows(net.impedance):
        if bool(r["in_service"]):
            connect(int(r["from_bus"]), int(r["to_bus"]), "impedance%d" % idx)
    for idx, r in _rows(net.trafo3w):
        if not bool(r["in_service"]):
            continue
        sides = [int(r[s]) for s in ("hv_bus", "mv_bus", "lv_bus")]
        alive = [b for b in sides if ("t3", idx, b) not in open_sw]
        for i in range(len(alive)):
            for j in range(i + 1, len(alive)):
                connect(alive[i], alive[j], "trafo3w%d" % idx)
    for a, b in closed_bb:
        connect(a, b, "switch")
    slack = set()
    for _, r in _rows(net.ext_grid):
        if bool(r["in_service"]) and int(r["bus"]) in bus_is:
            slack.add(int(r["bus"]))
    for _, r in _rows(net.gen):
        if bool(r["in_service"]) and bool(r["slack"]) and int(r["bus"]) in bus_is:
            slack.add(int(r["bus"]))
    seen = set(slack)
    frontier = list(slack)
    while frontier:
        nxt = []
        for a in frontier:
            for b in adj[a]:
                if b not in seen:
                    seen.add(b)
                    nxt.append(b)
        frontier = nxt
    return {"in_service": bus_is, "oos": bus_all - bus_is, "slack_buses": slack, "supplied": seen,
            "dead": bus_is - seen, "edges": edges}

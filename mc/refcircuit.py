"""Reference element models written from doc/elements/*.rst (independent of build_branch.py).

The model is only ever EVALUATED AT REPORTED VOLTAGES (certificate check, no second solver): given the
complex bus voltages from res_bus it returns terminal powers, currents and loadings of every branch element
and the powers of shunt-type bus elements.  Everything in p.u. on net.sn_mva and the bus rated voltages.
See DESIGN.md Appendix A for the equations and their validation.
"""
import cmath
import math

import numpy as np

SQ3 = math.sqrt(3.)


def bus_voltages(net):
    vm = net.res_bus["vm_pu"].values
    va = np.deg2rad(net.res_bus["va_degree"].values)
    v = vm * np.exp(1j * va)
    return dict(zip((int(b) for b in net.res_bus.index), v))


def _i_ka(s_mva, v_pu, vn_kv):
    vk = abs(v_pu) * vn_kv
    if not vk > 0:
        return 0.
    return abs(s_mva) / (SQ3 * vk)


def _open_sides(net, et, idx, busnames):
    """which terminals of branch element (et, idx) are interrupted by an open switch"""
    sw = net.switch
    if not len(sw):
        return set()
    m = (sw["et"].values == et) & (sw["element"].values == idx) & (~sw["closed"].values.astype(bool))
    if not m.any():
        return set()
    return {int(b) for b in sw["bus"].values[m]} & set(busnames)


def two_port_flows(Y, v1, v2, open1=False, open2=False):
    """Y: 2x2 complex admittance matrix (p.u.), terminal voltages; an open side carries no current (the
    floating terminal voltage follows from I=0). Returns complex powers (p.u.) into the element."""
    if open1 and open2:
        return 0j, 0j
    if open1:
        i2 = (Y[1, 1] - Y[1, 0] * Y[0, 1] / Y[0, 0]) * v2 if Y[0, 0] != 0 else Y[1, 1] * v2
        return 0j, v2 * np.conj(i2)
    if open2:
        i1 = (Y[0, 0] - Y[0, 1] * Y[1, 0] / Y[1, 1]) * v1 if Y[1, 1] != 0 else Y[0, 0] * v1
        return v1 * np.conj(i1), 0j
    i1 = Y[0, 0] * v1 + Y[0, 1] * v2
    i2 = Y[1, 0] * v1 + Y[1, 1] * v2
    return v1 * np.conj(i1), v2 * np.conj(i2)


# ----------------------------------------------------------------------------------------------
# line
# ----------------------------------------------------------------------------------------------
def line_Y(net, idx):
    L = net.line.loc[idx]
    vn = float(net.bus.at[L.from_bus, "vn_kv"])
    zn = vn ** 2 / net.sn_mva
    par = float(L.parallel)
    z = complex(L.r_ohm_per_km, L.x_ohm_per_km) * L.length_km / par / zn
    g = float(L.get("g_us_per_km", 0.) or 0.)
    y = complex(g * 1e-6, 2 * math.pi * net.f_hz * L.c_nf_per_km * 1e-9) * L.length_km * par * zn
    return np.array([[1 / z + y / 2, -1 / z], [-1 / z, 1 / z + y / 2]])


def line_results(net, V, dc=False):
    out = {}
    for idx in net.line.index:
        L = net.line.loc[idx]
        if not L.in_service or not (net.bus.at[L.from_bus, "in_service"] and net.bus.at[L.to_bus, "in_service"]):
            out[idx] = None
            continue
        op = _open_sides(net, "l", idx, (int(L.from_bus), int(L.to_bus)))
        vf, vt = V[int(L.from_bus)], V[int(L.to_bus)]
        of, ot = int(L.from_bus) in op, int(L.to_bus) in op
        if (np.isnan(vf) and not of) or (np.isnan(vt) and not ot):
            out[idx] = None
            continue
        if of and ot:
            out[idx] = None      # de-energised on both sides: the documented model defines no currents
            continue
        Y = line_Y(net, idx)
        sf, st = two_port_flows(Y, 0 if of else vf, 0 if ot else vt, of, ot)
        sf, st = sf * net.sn_mva, st * net.sn_mva
        vn = float(net.bus.at[L.from_bus, "vn_kv"])
        i_f = 0. if of else _i_ka(sf, vf, vn)
        i_t = 0. if ot else _i_ka(st, vt, vn)
        load = max(i_f, i_t) / (L.max_i_ka * L.df * L.parallel) * 100.
        out[idx] = {"p_from_mw": sf.real, "q_from_mvar": sf.imag, "p_to_mw": st.real, "q_to_mvar": st.imag,
                    "i_from_ka": i_f, "i_to_ka": i_t, "loading_percent": load,
                    "pl_mw": sf.real + st.real, "ql_mvar": sf.imag + st.imag}
    return out


# ----------------------------------------------------------------------------------------------
# two-winding transformer
# ----------------------------------------------------------------------------------------------
IDEAL_PERCENT_FORMULA = "doc"      # "doc": 2*asin(st/200)*d (doc/elements/trafo.rst) ; "chord": 2*asin(d*st/200)


def _tap(changer, d, step_percent, step_degree):
    """-> (ratio factor on the tapped side's rated voltage, angle shift in degree to add on the tapped side)"""
    sp = 0. if (step_percent is None or np.isnan(step_percent)) else float(step_percent)
    sd = 0. if (step_degree is None or np.isnan(step_degree)) else float(step_degree)
    if d == 0 or np.isnan(d) or changer in (None, "None", "nan") or (isinstance(changer, float) and np.isnan(changer)):
        return 1., 0.
    if changer in ("Ratio", "Symmetrical"):
        n = 1. + d * sp / 100. * cmath.exp(1j * math.radians(sd))
        return abs(n), math.degrees(cmath.phase(n))
    if changer == "Ideal":
        if sd != 0.:
            return 1., d * sd
        if IDEAL_PERCENT_FORMULA == "chord":
            return 1., math.degrees(2. * math.asin(0.5 * d * sp / 100.))
        return 1., math.degrees(2. * math.asin(0.5 * sp / 100.)) * d
    raise NotImplementedError("tap changer type %r" % (changer,))


def trafo2w_Y(sn_net, vbus_h, vbus_l, sn, vn_hv, vn_lv, vk, vkr, pfe_kw, i0, theta_deg, parallel, model):
    """2x2 admittance of a 2W transformer in network p.u. (hv, lv). vn_hv / vn_lv already tapped."""
    # relative values on the transformer rating (vn_lv, sn) -> ohm -> p.u. of the network (V_N = lv bus, S_N = net.sn_mva);
    # the net.sn_mva/sn_mva factor appears twice in doc/elements/trafo.rst, the dimensionally consistent reading is used
    zk = vk / 100.
    rk = vkr / 100.
    xk = math.sqrt(max(zk * zk - rk * rk, 0.))
    zn = vbus_l ** 2 / sn_net
    zref = vn_lv ** 2 / sn
    z = complex(rk, xk) * zref / zn / parallel
    ym = i0 / 100.
    gm = pfe_kw / (sn * 1000.)
    bm = math.sqrt(max(ym * ym - gm * gm, 0.))
    y = complex(gm, -bm) * zn / zref * parallel
    n = (vn_hv / vn_lv) * (vbus_l / vbus_h) * cmath.exp(1j * math.radians(theta_deg))
    if model == "pi":
        Yp = np.array([[1 / z + y / 2, -1 / z], [-1 / z, 1 / z + y / 2]])
    else:  # T model: z/2 - y - z/2, Kron reduction of the middle node
        a = 2. / z
        if y == 0:
            Yp = np.array([[1 / z, -1 / z], [-1 / z, 1 / z]])
        else:
            den = 2 * a + y
            Yp = np.array([[a - a * a / den, -a * a / den], [-a * a / den, a - a * a / den]])
    D1 = np.array([[1 / np.conj(n), 0], [0, 1]])
    D2 = np.array([[1 / n, 0], [0, 1]])
    return D1 @ Yp @ D2


def trafo_results(net, V, opts):
    out = {}
    model = opts.get("trafo_model", "t")
    angles = opts.get("calculate_voltage_angles", True)
    loading = opts.get("trafo_loading", "current")
    for idx in net.trafo.index:
        T = net.trafo.loc[idx]
        hb, lb = int(T.hv_bus), int(T.lv_bus)
        if not T.in_service or not (net.bus.at[hb, "in_service"] and net.bus.at[lb, "in_service"]):
            out[idx] = None
            continue
        op = _open_sides(net, "t", idx, (hb, lb))
        oh, ol = hb in op, lb in op
        vh, vl = V[hb], V[lb]
        if (np.isnan(vh) and not oh) or (np.isnan(vl) and not ol):
            out[idx] = None
            continue
        if oh and ol:
            out[idx] = None
            continue
        d = (T.tap_pos - T.tap_neutral) if not (np.isnan(T.tap_pos) or np.isnan(T.tap_neutral)) else 0.
        fac, dang = _tap(T.get("tap_changer_type"), d, T.tap_step_percent, T.tap_step_degree)
        vn_hv, vn_lv = float(T.vn_hv_kv), float(T.vn_lv_kv)
        theta = float(T.shift_degree) if angles else 0.
        if T.tap_side == "hv":
            vn_hv *= fac
            theta += dang
        elif T.tap_side == "lv":
            vn_lv *= fac
            theta -= dang
        Y = trafo2w_Y(net.sn_mva, float(net.bus.at[hb, "vn_kv"]), float(net.bus.at[lb, "vn_kv"]), float(T.sn_mva), vn_hv, vn_lv,
                      float(T.vk_percent), float(T.vkr_percent), float(T.pfe_kw), float(T.i0_percent), theta,
                      float(T.parallel), model)
        sh, sl = two_port_flows(Y, 0 if oh else vh, 0 if ol else vl, oh, ol)
        sh, sl = sh * net.sn_mva, sl * net.sn_mva
        ih = 0. if oh else _i_ka(sh, vh, float(net.bus.at[hb, "vn_kv"]))
        il = 0. if ol else _i_ka(sl, vl, float(net.bus.at[lb, "vn_kv"]))
        snp = float(T.sn_mva) * float(T.parallel) * float(T.df)
        if loading == "current":
            ld = max(ih * float(T.vn_hv_kv) * SQ3 / snp, il * float(T.vn_lv_kv) * SQ3 / snp) * 100.
        else:
            ld = max(abs(sh), abs(sl)) / snp * 100.
        out[idx] = {"p_hv_mw": sh.real, "q_hv_mvar": sh.imag, "p_lv_mw": sl.real, "q_lv_mvar": sl.imag,
                    "i_hv_ka": ih, "i_lv_ka": il, "loading_percent": ld,
                    "pl_mw": sh.real + sl.real, "ql_mvar": sh.imag + sl.imag}
    return out


# ----------------------------------------------------------------------------------------------
# three-winding transformer (terminal taps; losses at hv/mv/lv)
# ----------------------------------------------------------------------------------------------
def trafo3w_results(net, V, opts):
    out = {}
    model = opts.get("trafo_model", "t")
    angles = opts.get("calculate_voltage_angles", True)
    loading = opts.get("trafo_loading", "current")
    losses = opts.get("trafo3w_losses", "hv")
    for idx in net.trafo3w.index:
        T = net.trafo3w.loc[idx]
        buses = [int(T.hv_bus), int(T.mv_bus), int(T.lv_bus)]
        if not T.in_service or not all(net.bus.at[b, "in_service"] for b in buses):
            out[idx] = None
            continue
        if bool(T.get("tap_at_star_point", False)) or losses == "star":
            out[idx] = "unsupported"
            continue
        op = _open_sides(net, "t3", idx, buses)
        vs = [V[b] for b in buses]
        if any(np.isnan(v) and b not in op for v, b in zip(vs, buses)):
            out[idx] = None
            continue
        sn = [float(T.sn_hv_mva), float(T.sn_mv_mva), float(T.sn_lv_mva)]
        # side based -> branch based, relative to sn_hv; delta -> star on complex values
        def conv(vk, vkr):
            x = [math.sqrt(max(a * a - b * b, 0.)) for a, b in zip(vk, vkr)]
            zc = [complex(r, xx) for r, xx in zip(vkr, x)]
            zhm = zc[0] * sn[0] / min(sn[0], sn[1])
            zml = zc[1] * sn[0] / min(sn[1], sn[2])
            zlh = zc[2] * sn[0] / min(sn[0], sn[2])
            t1 = 0.5 * (zhm + zlh - zml)
            t2 = 0.5 * (zml + zhm - zlh) * sn[1] / sn[0]
            t3 = 0.5 * (zml + zlh - zhm) * sn[2] / sn[0]
            return [t1, t2, t3]
        zt = conv([float(T.vk_hv_percent), float(T.vk_mv_percent), float(T.vk_lv_percent)],
                  [float(T.vkr_hv_percent), float(T.vkr_mv_percent), float(T.vkr_lv_percent)])
        d = (T.tap_pos - T.tap_neutral) if not (np.isnan(T.tap_pos) or np.isnan(T.tap_neutral)) else 0.
        fac, dang = _tap(T.get("tap_changer_type"), d, T.tap_step_percent, T.tap_step_degree)
        vn = [float(T.vn_hv_kv), float(T.vn_mv_kv), float(T.vn_lv_kv)]
        shift = [0., float(T.shift_mv_degree) if angles else 0., float(T.shift_lv_degree) if angles else 0.]
        side = {"hv": 0, "mv": 1, "lv": 2}.get(T.tap_side, None)
        vnt = list(vn)
        extra = [0., 0., 0.]
        if side is not None and d != 0:
            vnt[side] *= fac
            extra[side] = dang if side == 0 else -dang
        vb = [float(net.bus.at[b, "vn_kv"]) for b in buses]
        star_vn = vn[0]     # auxiliary (star) bus at vn_hv_kv
        li = {"hv": 0, "mv": 1, "lv": 2}[losses]
        # 4-node admittance: hv, mv, lv, star
        Y4 = np.zeros((4, 4), dtype=complex)
        for k in range(3):
            pfe = float(T.pfe_kw) if k == li else 0.
            i0 = float(T.i0_percent) if k == li else 0.
            vk_k, vkr_k = abs(zt[k]), zt[k].real
            a, b = (0, 3) if k == 0 else (3, k)
            vk_k = vkr_k = None
            # keep the reactance sign of the delta-star conversion (can be negative): rebuild with complex z directly
            Yk = _trafo2w_Y_complex(net.sn_mva, vb[0] if k == 0 else star_vn, star_vn if k == 0 else vb[k], sn[k],
                                    vnt[0] if k == 0 else vn[0], vn[0] if k == 0 else vnt[k], zt[k], pfe, i0,
                                    shift[k] + extra[k], model)
            Y4[np.ix_([a, b], [a, b])] += Yk
        act = [i for i, b in enumerate(buses) if b not in op]
        if not act:
            out[idx] = None
            continue
        # open sides: terminal current 0 -> eliminate together with the star node
        elim = [3] + [i for i in range(3) if i not in act]
        keep = act
        Ykk = Y4[np.ix_(keep, keep)]
        Yke = Y4[np.ix_(keep, elim)]
        Yek = Y4[np.ix_(elim, keep)]
        Yee = Y4[np.ix_(elim, elim)]
        Yred = Ykk - Yke @ np.linalg.solve(Yee, Yek)
        vk_ = np.array([vs[i] for i in keep])
        ik = Yred @ vk_
        S = [0j, 0j, 0j]
        for j, i in enumerate(keep):
            S[i] = vk_[j] * np.conj(ik[j]) * net.sn_mva
        I = [0. if i not in keep else _i_ka(S[i], vs[i], vb[i]) for i in range(3)]
        if loading == "current":
            ld = max(I[i] * vn[i] * SQ3 / sn[i] for i in range(3)) * 100.
        else:
            ld = max(abs(S[i]) / sn[i] for i in range(3)) * 100.
        out[idx] = {"p_hv_mw": S[0].real, "q_hv_mvar": S[0].imag, "p_mv_mw": S[1].real, "q_mv_mvar": S[1].imag,
                    "p_lv_mw": S[2].real, "q_lv_mvar": S[2].imag, "i_hv_ka": I[0], "i_mv_ka": I[1], "i_lv_ka": I[2],
                    "pl_mw": sum(s.real for s in S), "ql_mvar": sum(s.imag for s in S), "loading_percent": ld}
    return out


def _trafo2w_Y_complex(sn_net, vbus_h, vbus_l, sn, vn_hv, vn_lv, zk_percent, pfe_kw, i0, theta_deg, model):
    zn = vbus_l ** 2 / sn_net
    zref = vn_lv ** 2 / sn
    z = zk_percent / 100. * zref / zn
    ym = i0 / 100.
    gm = pfe_kw / (sn * 1000.)
    bm = math.sqrt(max(ym * ym - gm * gm, 0.))
    y = complex(gm, -bm) * zn / zref
    n = (vn_hv / vn_lv) * (vbus_l / vbus_h) * cmath.exp(1j * math.radians(theta_deg))
    if model == "pi" or y == 0:
        Yp = np.array([[1 / z + y / 2, -1 / z], [-1 / z, 1 / z + y / 2]])
    else:
        a = 2. / z
        den = 2 * a + y
        Yp = np.array([[a - a * a / den, -a * a / den], [-a * a / den, a - a * a / den]])
    D1 = np.array([[1 / np.conj(n), 0], [0, 1]])
    D2 = np.array([[1 / n, 0], [0, 1]])
    return D1 @ Yp @ D2


# ----------------------------------------------------------------------------------------------
# impedance, impedance switch
# ----------------------------------------------------------------------------------------------
def impedance_results(net, V):
    out = {}
    for idx in net.impedance.index:
        E = net.impedance.loc[idx]
        fb, tb = int(E.from_bus), int(E.to_bus)
        if not E.in_service or not (net.bus.at[fb, "in_service"] and net.bus.at[tb, "in_service"]):
            out[idx] = None
            continue
        vf, vt = V[fb], V[tb]
        if np.isnan(vf) or np.isnan(vt):
            out[idx] = None
            continue
        k = net.sn_mva / float(E.sn_mva)
        zft = complex(E.rft_pu, E.xft_pu) * k
        ztf = complex(E.rtf_pu, E.xtf_pu) * k
        def g(name):
            v = E.get(name, 0.)
            return 0. if v is None or (isinstance(v, float) and np.isnan(v)) else float(v)
        yf = complex(g("gf_pu"), g("bf_pu")) / k
        yt = complex(g("gt_pu"), g("bt_pu")) / k
        i_f = vf / zft - vt / zft + vf * yf if False else (vf - vt) / zft + vf * yf
        i_t = (vt - vf) / ztf + vt * yt
        # asymmetric nodal matrix per documentation: y_ft couples from->to with zft, y_tf with ztf
        i_f = vf * (1 / zft + yf) - vt / zft
        i_t = vt * (1 / ztf + yt) - vf / ztf
        sf, st = vf * np.conj(i_f) * net.sn_mva, vt * np.conj(i_t) * net.sn_mva
        out[idx] = {"p_from_mw": sf.real, "q_from_mvar": sf.imag, "p_to_mw": st.real, "q_to_mvar": st.imag,
                    "pl_mw": sf.real + st.real, "ql_mvar": sf.imag + st.imag,
                    "i_from_ka": _i_ka(sf, vf, float(net.bus.at[fb, "vn_kv"])), "i_to_ka": _i_ka(st, vt, float(net.bus.at[tb, "vn_kv"]))}
    return out


def switch_results(net, V, opts):
    out = {}
    rx = float(opts.get("switch_rx_ratio", 2))
    for idx in net.switch.index:
        S = net.switch.loc[idx]
        if S.et != "b" or not bool(S.closed) or not (S.get("z_ohm", 0.) > 0):
            continue
        fb, tb = int(S.bus), int(S.element)
        if not (net.bus.at[fb, "in_service"] and net.bus.at[tb, "in_service"]):
            continue
        vf, vt = V[fb], V[tb]
        if np.isnan(vf) or np.isnan(vt):
            continue
        zn = float(net.bus.at[fb, "vn_kv"]) ** 2 / net.sn_mva
        z = float(S.z_ohm) / zn * complex(rx / math.sqrt(1 + rx * rx), 1 / math.sqrt(1 + rx * rx))
        i = (vf - vt) / z
        sf, st = vf * np.conj(i) * net.sn_mva, vt * np.conj(-i) * net.sn_mva
        out[idx] = {"p_from_mw": sf.real, "q_from_mvar": sf.imag, "p_to_mw": st.real, "q_to_mvar": st.imag}
    return out


# ----------------------------------------------------------------------------------------------
# shunt-type bus elements
# ----------------------------------------------------------------------------------------------
def shunt_results(net, V):
    out = {}
    for idx in net.shunt.index:
        E = net.shunt.loc[idx]
        b = int(E.bus)
        v = V[b]
        if not E.in_service or np.isnan(v) or bool(E.get("step_dependency_table", False)):
            out[idx] = None
            continue
        s = complex(E.p_mw, E.q_mvar) * float(E.step) * (abs(v) * float(net.bus.at[b, "vn_kv"]) / float(E.vn_kv)) ** 2
        out[idx] = {"p_mw": s.real, "q_mvar": s.imag}
    return out


def ward_results(net, V):
    out = {}
    for idx in net.ward.index:
        E = net.ward.loc[idx]
        v = V[int(E.bus)]
        if not E.in_service or np.isnan(v):
            out[idx] = None
            continue
        s = complex(E.ps_mw, E.qs_mvar) + complex(E.pz_mw, E.qz_mvar) * abs(v) ** 2
        out[idx] = {"p_mw": s.real, "q_mvar": s.imag}
    return out


def xward_results(net, V):
    """p,q = const + shunt(v^2) + power into the internal branch towards the PV node (internal voltage reported)"""
    out = {}
    for idx in net.xward.index:
        E = net.xward.loc[idx]
        b = int(E.bus)
        v = V[b]
        if not E.in_service or np.isnan(v):
            out[idx] = None
            continue
        r = net.res_xward.loc[idx]
        vint = float(r.vm_internal_pu) * cmath.exp(1j * math.radians(float(r.va_internal_degree)))
        zn = float(net.bus.at[b, "vn_kv"]) ** 2 / net.sn_mva
        z = complex(E.r_ohm, E.x_ohm) / zn
        i = (v - vint) / z
        s = complex(E.ps_mw, E.qs_mvar) + complex(E.pz_mw, E.qz_mvar) * abs(v) ** 2 + v * np.conj(i) * net.sn_mva
        out[idx] = {"p_mw": s.real, "q_mvar": s.imag, "vm_internal_pu": float(E.vm_pu)}
    return out

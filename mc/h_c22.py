"""C22 model (agentH): explicit-state BFS over network edits on a net that holds every reference kind.

State  = {"net": pandapowerNet, "bad": {key: first-op}, "new": [violations of the last op], "dead": exc-class|None}
Alphabet = bound toolbox / create operations (see OPS_*), enabled only when their concrete targets exist.
Oracle = refs(net): pure referential integrity, exactly the statement of C22.
"""
import copy
import json
import numbers

import numpy as np
import pandas as pd

import pandapower as pp
import pandapower.control as ppc
import pandapower.groups as ppg
import pandapower.toolbox as tb
from pandapower.control.util.auxiliary import create_trafo_characteristic_object

from mc import core
from mc import netalpha as na

BUS_COLS = ("bus", "from_bus", "to_bus", "hv_bus", "mv_bus", "lv_bus")
SW_ET = {"b": "bus", "l": "line", "t": "trafo", "t3": "trafo3w"}

_BASE = {}


# ------------------------------------------------------------------------------------------------
# initial state
# ------------------------------------------------------------------------------------------------
def _mk_net1():
    """6 buses: 0 (110 kV) -T3W0- 1 (20) / 2 (10);  0 -T0- 3 (20);  1 -L0- 3 -L1- 4 -L2- 5;  1 -IMP0- 4;
    switches: sw0 b 4-5 (open), sw1 l L1@3, sw2 t T0@3, sw3 t3 T3W0@1.  Every table shares index 0 (collisions)."""
    net = pp.create_empty_network(sn_mva=1.)
    pp.create_bus(net, 110., name="b0")
    pp.create_bus(net, 20., name="b1")
    pp.create_bus(net, 10., name="b2")
    for i in (3, 4, 5):
        pp.create_bus(net, 20., name="b%d" % i)
    pp.create_ext_grid(net, 0, vm_pu=1.02, name="eg0", **na.EG)
    pp.create_transformer3w_from_parameters(net, 0, 1, 2, name="t3w0", **na.TR3)
    pp.create_transformer_from_parameters(net, 0, 3, name="t0", **na.TR)
    pp.create_line_from_parameters(net, 1, 3, name="l0", **na.LINE)
    pp.create_line_from_parameters(net, 3, 4, name="l1", **na.LINE)
    d = dict(na.LINE)
    d["c_nf_per_km"] = 0.
    pp.create_line_from_parameters(net, 4, 5, name="l2", **d)
    pp.create_impedance(net, 1, 4, rft_pu=0.02, xft_pu=0.05, sn_mva=10., name="i0")
    pp.create_load(net, 1, 1.0, 0.3, name="ld0", in_service=False)
    pp.create_load(net, 2, 1.0, 0.3, name="ld1", controllable=True, max_p_mw=2., min_p_mw=0., max_q_mvar=1., min_q_mvar=0.)
    pp.create_load(net, 4, 1.0, 0.3, name="ld2")
    pp.create_load(net, 5, 0.5, 0.1, name="ld3")
    pp.create_gen(net, 3, 0.5, 1.01, name="g0", min_q_mvar=-5, max_q_mvar=5, min_p_mw=0, max_p_mw=2, controllable=True)
    pp.create_ward(net, 5, 0.1, 0.05, 0.1, 0.05, name="w0")
    pp.create_shunt(net, 4, 0.1, name="sh0")
    # every element kind that can carry a cost sits at the collision bus 4 (gen at 3, ext_grid at 0)
    pp.create_sgen(net, 4, 0.2, 0.05, name="sg0", controllable=True, max_p_mw=1., min_p_mw=0., max_q_mvar=.5, min_q_mvar=-.5)
    pp.create_storage(net, 4, 0.1, 1., name="st0", controllable=True, max_p_mw=1., min_p_mw=-1., max_q_mvar=.5, min_q_mvar=-.5)
    pp.create_dcline(net, 4, 2, 0.2, 1., 0.01, 1.0, 1.0, name="dc0", max_p_mw=1.)
    pp.create_switch(net, 4, 5, "b", closed=False, name="s0")
    pp.create_switch(net, 3, 1, "l", closed=True, name="s1")
    pp.create_switch(net, 3, 0, "t", closed=True, name="s2")
    pp.create_switch(net, 1, 0, "t3", closed=True, name="s3")
    # open bus-bus switches across the borders of the select_subnet bus sets {0,1,2,3}|{4,5} and {0,1,2}|{3,4,5},
    # both orientations (bus inside / element outside and vice versa)
    pp.create_switch(net, 3, 4, "b", closed=False, name="s4")
    pp.create_switch(net, 4, 3, "b", closed=False, name="s5")
    pp.create_switch(net, 1, 3, "b", closed=False, name="s6")
    pp.create_switch(net, 3, 1, "b", closed=False, name="s7")
    # integer valued reference column whose values overlap the indices (a permutation of them)
    net.bus["zid"] = [5, 4, 3, 2, 1, 0]
    net.line["zid"] = [1, 2, 0]
    net.load["zid"] = [3, 2, 1, 0]
    # measurements: bus, line (str side and numeric side), trafo, trafo3w
    pp.create_measurement(net, "v", "bus", 1.0, 0.01, 3)
    pp.create_measurement(net, "p", "line", 1.0, 0.01, 1, side="from")
    pp.create_measurement(net, "p", "trafo", 1.0, 0.01, 0, side="hv")
    pp.create_measurement(net, "p", "trafo3w", 1.0, 0.01, 0, side="mv")
    pp.create_measurement(net, "p", "line", 1.0, 0.01, 0, side=3)
    pp.create_measurement(net, "p", "bus", 0.6, 0.01, 5)
    pp.create_measurement(net, "p", "load", 1.0, 0.01, 2)
    # costs
    pp.create_poly_cost(net, 0, "gen", 1.)
    pp.create_poly_cost(net, 1, "load", -1.)
    pp.create_pwl_cost(net, 0, "ext_grid", [[0, 10, 1.], [10, 20, 2.]])
    pp.create_pwl_cost(net, 0, "sgen", [[0, 1, 1.]])
    pp.create_poly_cost(net, 0, "storage", 0.5)
    pp.create_poly_cost(net, 0, "dcline", 1.5)
    # tap characteristics referenced from the trafo tables (ids deliberately not 0..n-1)
    rows = []
    for cid, cols in ((2, ("vk_percent", "vkr_percent")), (5, ("vk_hv_percent", "vkr_hv_percent", "vk_mv_percent",
                                                            "vkr_mv_percent", "vk_lv_percent", "vkr_lv_percent"))):
        for step in (-1, 0, 1):
            r = {"id_characteristic": cid, "step": step, "voltage_ratio": 1. + 0.015 * step, "angle_deg": 0.}
            for c in cols:
                r[c] = (na.TR if cid == 2 else na.TR3)[c] * (1 + 0.01 * step)
            rows.append(r)
    net["trafo_characteristic_table"] = pd.DataFrame(rows)
    net.trafo["id_characteristic_table"] = pd.array([2], dtype="Int64")
    net.trafo["tap_dependency_table"] = True
    net.trafo3w["id_characteristic_table"] = pd.array([5], dtype="Int64")
    net.trafo3w["tap_dependency_table"] = True
    create_trafo_characteristic_object(net)
    # controllers
    ppc.ConstControl(net, "load", "p_mw", element_index=[2], profile_name=None, data_source=None)
    ppc.ConstControl(net, "load", "q_mvar", element_index=[0, 3], profile_name=None, data_source=None)
    ppc.ContinuousTapControl(net, 0, 1.0)
    ppc.DiscreteTapControl(net, 0, 0.98, 1.02)
    ppc.DiscreteTapControl(net, 0, 0.98, 1.02, side="mv", element="trafo3w")
    # groups: index members / reference column "name"
    pp.create_group(net, ["bus", "line", "load", "trafo3w", "trafo", "switch"],
                    [[4, 5], [1, 2], [2, 3], [0], [0], [1, 3]], name="gi")
    pp.create_group(net, ["bus", "line", "load", "trafo", "trafo3w", "switch", "gen", "sgen", "storage", "dcline", "impedance",
                          "ward", "shunt", "ext_grid"],
                    [["b3", "b4"], ["l0", "l1"], ["ld2", "ld1", "ld0"], ["t0"], ["t3w0"], ["s1", "s3", "s0", "s6"], ["g0"], ["sg0"],
                     ["st0"], ["dc0"], ["i0"], ["w0"], ["sh0"], ["eg0"]], name="gn", reference_columns="name")
    pp.create_group(net, ["bus", "line", "load"], [[1, 0], [0], [1, 3]], name="gz", reference_columns="zid")   # buses 4,5 line 2 loads 2,0
    pp.runpp(net)
    return net


def _mk_net2():
    """small second net for merge_nets; every index collides with net1."""
    net = pp.create_empty_network(sn_mva=1.)
    pp.create_bus(net, 20., name="c0")
    pp.create_bus(net, 20., name="c1")
    pp.create_ext_grid(net, 0, vm_pu=1.0, name="ceg", **na.EG)
    pp.create_line_from_parameters(net, 0, 1, name="cl0", **na.LINE)
    pp.create_load(net, 1, 0.4, 0.1, name="cld0", controllable=True, max_p_mw=2., min_p_mw=0., max_q_mvar=1., min_q_mvar=0.)
    pp.create_switch(net, 1, 0, "l", closed=True, name="cs0")
    pp.create_switch(net, 0, 1, "b", closed=False, name="cs1")
    pp.create_measurement(net, "p", "line", 0.4, 0.01, 0, side="to")
    pp.create_measurement(net, "v", "bus", 1.0, 0.01, 1)
    pp.create_poly_cost(net, 0, "load", -2.)
    ppc.ConstControl(net, "load", "p_mw", element_index=[0], profile_name=None, data_source=None)
    pp.create_group(net, ["bus", "line", "load", "switch"], [[1], [0], [0], [0]], name="cg")
    pp.runpp(net)
    return net


def _strip(net):
    """drop solver caches (no toolbox edit in the alphabet reads them; saves deepcopy time)"""
    for k in ("_ppc", "_ppc_opf", "_pd2ppc_lookups", "_is_elements", "_is_elements_final", "_isolated_buses",
              "_gen_order", "_impedance_bb_switches", "_fused_bb_switches"):
        if k in net:
            try:
                net[k] = None
            except Exception:
                pass
    return net


def base_nets():
    if not _BASE:
        core.quiet()
        _BASE["n1"] = _strip(_mk_net1())
        _BASE["n2"] = _strip(_mk_net2())
    return _BASE


def init():
    b = base_nets()
    s = {"net": copy.deepcopy(b["n1"]), "bad": {}, "new": [], "dead": None, "inherited": 0}
    allr = allrefs(s["net"])
    s["bad"] = {k: "init" for k, (ok, _) in allr.items() if not ok}     # must be empty; checked in the check module
    s["valid"] = set(k for k, (ok, _) in allr.items() if ok)
    return s


def copy_state(s):
    return {"net": copy.deepcopy(s["net"]), "bad": dict(s["bad"]), "valid": s["valid"], "new": [], "dead": s["dead"],
            "inherited": 0}


# ------------------------------------------------------------------------------------------------
# oracle: pure referential integrity (returns {key: detail})
# ------------------------------------------------------------------------------------------------
def _tables(net):
    for k in net.keys():
        v = net[k]
        if isinstance(v, pd.DataFrame) and not k.startswith("_"):
            yield k, v


def _is_num(x):
    return isinstance(x, numbers.Number) and not isinstance(x, bool) and not (isinstance(x, float) and np.isnan(x))


def _aslist(x):
    if isinstance(x, str) or not hasattr(x, "__iter__"):
        return [x]
    return list(x)


RES_SUFFIX = ("_sc", "_3ph", "_est", "_dc")
CHAR_REFS = (("trafo", "id_characteristic_table", "trafo_characteristic_table"),
             ("trafo3w", "id_characteristic_table", "trafo_characteristic_table"),
             ("trafo", "id_characteristic_spline", "trafo_characteristic_spline"),
             ("trafo3w", "id_characteristic_spline", "trafo_characteristic_spline"),
             ("shunt", "id_characteristic_table", "shunt_characteristic_table"),
             ("shunt", "id_characteristic_spline", "shunt_characteristic_spline"),
             ("gen", "id_q_capability_characteristic", "q_capability_characteristic"),
             ("sgen", "id_q_capability_characteristic", "q_capability_characteristic"))


def allrefs(net):
    """Every reference held in the net: {key: (valid, detail)} with
    key = (clause, holder table, holder column/attribute, target table, repr(target value)).
    A key does not contain the holder's own row index, so renaming the holder does not change it."""
    out = {}
    cache = {}

    def idxset(tab):
        if tab not in cache:
            ok = tab in net and isinstance(net[tab], pd.DataFrame)
            cache[tab] = set(net[tab].index.tolist()) if ok else None
        return cache[tab]

    def put(clause, holder, col, target, value, detail, pool=None):
        pool = idxset(target) if pool is None else pool
        valid = pool is not None and value in pool
        k = (clause, holder, col, str(target), repr(value))
        if k in out and not out[k][0]:
            return
        out[k] = (valid, detail)
    # 1. bus reference columns of every element table
    for tab, df in _tables(net):
        if tab.startswith("res_") or tab in ("bus", "measurement") or not len(df):
            continue
        for col in BUS_COLS:
            if col in df.columns:
                for ix, v in zip(df.index.tolist(), df[col].tolist()):
                    put("bus_ref", tab, col, "bus", v, {"table": tab, "column": col, "row": ix, "value": v})
    # 2. switches
    sw = net.switch
    for ix, et, el in zip(sw.index.tolist(), sw.et.tolist(), sw.element.tolist()):
        put("switch_element", "switch", "element:" + str(et), SW_ET.get(et, "?" + str(et)), el,
            {"switch": ix, "et": et, "element": el})
    # 3. measurements
    m = net.measurement
    if len(m):
        for ix, et, el, side in zip(m.index.tolist(), m.element_type.tolist(), m.element.tolist(), m.side.tolist()):
            put("measurement_element", "measurement", "element", et, el, {"measurement": ix, "element_type": et, "element": el})
            if _is_num(side):
                put("measurement_side", "measurement", "side", "bus", side,
                    {"measurement": ix, "element_type": et, "element": el, "side": side})
    # 4. costs
    for ct in ("poly_cost", "pwl_cost"):
        c = net[ct]
        for ix, et, el in zip(c.index.tolist(), c.et.tolist(), c.element.tolist()):
            put("cost_element", ct, "element", et, el, {"cost": ct, "row": ix, "et": et, "element": el})
    # 5. groups: the raw table ...
    g = net.group
    if len(g):
        rawbad = set()
        for pos in range(len(g)):
            gi = int(g.index[pos])
            et = g.element_type.iat[pos]
            rc = g.reference_column.iat[pos]
            members = _aslist(g.element_index.iat[pos])
            if rc is None or pd.isnull(rc):
                pool, rcs = idxset(et), "index"
            elif idxset(et) is None or rc not in net[et].columns:
                pool, rcs = set(), str(rc)
            else:
                pool, rcs = set(net[et][rc].tolist()), str(rc)
            for mem in members:
                mem = mem.item() if hasattr(mem, "item") else mem
                put("group_member", "group", "element_index[%s]" % rcs, et, mem,
                    {"group": gi, "element_type": et, "reference_column": rcs, "member": mem}, pool=pool if pool is not None else set())
                if pool is None or mem not in pool:
                    rawbad.add((gi, et))
        # ... and through pandapower.groups (reported when the module disagrees with the raw table)
        uniq = not g.reset_index().rename(columns={g.index.name or "index": "_gi"})[["_gi", "element_type"]].duplicated().any()
        if uniq:
            for gi in sorted(set(int(i) for i in g.index.tolist())):
                for et in g.loc[[gi], "element_type"].tolist():
                    if idxset(et) is None:
                        continue
                    try:
                        ex = bool(np.all(ppg.group_entries_exist_in_element_table(net, gi, et)))
                        api_bad = not ex
                        if ex:          # all entries exist according to the module: then its member index must resolve too
                            gei = ppg.group_element_index(net, gi, et).tolist()
                            api_bad = any(i not in idxset(et) for i in gei)
                        err = None
                    except Exception as e:
                        api_bad, err = True, "%s: %s" % (type(e).__name__, e)
                    if api_bad != ((gi, et) in rawbad) or err:
                        out[("group_member_api", "group", "api", str(et), repr(gi))] = (
                            False, {"group": gi, "element_type": et, "raw_table_dangling": (gi, et) in rawbad,
                                    "groups_module_dangling": api_bad, "error": err})
    # 6. controllers
    if "controller" in net and isinstance(net.controller, pd.DataFrame) and len(net.controller):
        for ix, obj in zip(net.controller.index.tolist(), net.controller.object.tolist()):
            d = getattr(obj, "__dict__", {})
            et = d.get("element")
            if et is None or "element_index" not in d:
                continue
            cname = type(obj).__name__
            for e in _aslist(d["element_index"]):
                e = e.item() if hasattr(e, "item") else e
                put("controller_target", "controller", cname, et, e,
                    {"controller": ix, "class": cname, "element": et, "element_index": e})
    # 7. characteristics referenced from tables
    for tab, idcol, ctab in CHAR_REFS:
        if tab in net and idcol in net[tab].columns and len(net[tab]):
            have = set()
            if ctab in net and isinstance(net[ctab], pd.DataFrame) and "id_characteristic" in net[ctab].columns:
                have = set(int(x) for x in net[ctab]["id_characteristic"].dropna().tolist())
            for ix, v in zip(net[tab].index.tolist(), net[tab][idcol].tolist()):
                if v is None or v is pd.NA or (isinstance(v, float) and np.isnan(v)):
                    continue
                put("characteristic_ref", tab, idcol, ctab, int(v), {"table": tab, "row": ix, "column": idcol, "value": int(v)},
                    pool=have)
    # 8. result tables
    for tab, df in _tables(net):
        if not tab.startswith("res_") or not len(df):
            continue
        el = tab[4:]
        for suf in RES_SUFFIX:
            if el not in net and el.endswith(suf):
                el = el[:-len(suf)]
        if idxset(el) is not None:
            for i in df.index.tolist():
                put("res_index", tab, "index", el, i, {"res_table": tab, "index_not_in_element_table": i})
    return out


def refs(net):
    """dangling references only: {key: detail}"""
    return {k: d for k, (ok, d) in allrefs(net).items() if not ok}


# ------------------------------------------------------------------------------------------------
# alphabet: every op is a JSON list [name, *bound args]; enabled only when its concrete targets exist
# ------------------------------------------------------------------------------------------------
def _has(net, tab, idx):
    return tab in net and isinstance(net[tab], pd.DataFrame) and all(i in net[tab].index for i in idx)


def _lookup_ok(net, tab, pairs):
    """targets exist and the resulting index stays unique (documented precondition of reindexing)"""
    if not _has(net, tab, [a for a, _ in pairs]):
        return False
    lk = dict(pairs)
    new = [lk.get(i, i) for i in net[tab].index.tolist()]
    return len(set(new)) == len(new) or tab == "group"


def _shift(net, tab, k):
    return [[int(i), int(i) + k] for i in sorted(set(net[tab].index.tolist()))]


# reindex_elements: per element type a list of (tag, lookup builder)
REIDX = {
    "trafo3w": [("to7", lambda n: [[0, 7]])],
    "trafo": [("to3", lambda n: [[0, 3]])],
    "line": [("swap01", lambda n: [[0, 1], [1, 0]]), ("shift5", lambda n: _shift(n, "line", 5))],
    "load": [("2to9", lambda n: [[2, 9]]), ("swap23", lambda n: [[2, 3], [3, 2]])],
    "group": [("0to5", lambda n: [[0, 5]])],
    "switch": [("swap03", lambda n: [[0, 3], [3, 0]])],
    "sgen": [("0to3", lambda n: [[0, 3]])],
    "storage": [("0to2", lambda n: [[0, 2]])],
    "dcline": [("0to4", lambda n: [[0, 4]])],
    "gen": [("0to4", lambda n: [[0, 4]])],
    "ext_grid": [("0to2", lambda n: [[0, 2]])],
    "measurement": [("shift3", lambda n: _shift(n, "measurement", 3))],
    "impedance": [("0to6", lambda n: [[0, 6]])],
    "ward": [("0to1", lambda n: [[0, 1]])],
    "shunt": [("0to8", lambda n: [[0, 8]])],
    "bus": [("4to40", lambda n: [[4, 40]])],
    "poly_cost": [("shift2", lambda n: _shift(n, "poly_cost", 2))],
    "controller": [("shift1", lambda n: _shift(n, "controller", 1))],
}
REIDX_QUICK = ("trafo3w", "trafo", "line", "load", "group", "switch")
REIDX_QUICK_SKIP = {("load", "2to9")}


CORE = [["fuse_buses", 0, [1]], ["fuse_buses", 0, [2]], ["fuse_buses", 4, [5]], ["drop_buses", [4]], ["drop_lines", [1]],
        ["reindex_elements", "trafo3w", "to7"], ["reindex_elements", "line", "swap01"], ["reindex_elements", "load", "swap23"],
        ["reindex_buses", [[3, 4], [4, 3], [0, 1], [1, 0]]], ["create_continuous_elements_index", 1], ["merge_nets"],
        ["select_subnet", [0, 1, 2, 3], {}], ["replace_line_by_impedance", [2]], ["replace_impedance_by_line", [0]],
        ["create_switch", 1, 0, "l"], ["drop_inactive_elements"]]
_CORE = set(json.dumps(o) for o in CORE)


def ops(s, tier="quick"):
    """tier: "quick" (33 bound ops in the initial state), "thorough" (55), "core" (16, for the deepest bound)"""
    if tier == "core":
        return [o for o in ops(s, "thorough") if json.dumps(o) in _CORE]
    if s["dead"]:
        return []
    net = s["net"]
    o = []
    B = lambda *b: _has(net, "bus", b)
    thorough = tier == "thorough"
    # --- creation
    o.append(["create_bus"])
    if B(3, 5):
        o.append(["create_line", 3, 5])
    if thorough and B(4):
        o.append(["create_load", 4])
    if B(1) and _has(net, "line", [0]) and 1 in (net.line.at[0, "from_bus"], net.line.at[0, "to_bus"]):
        o.append(["create_switch", 1, 0, "l"])
    if thorough and B(0) and _has(net, "trafo3w", [0]) and net.trafo3w.at[0, "hv_bus"] == 0:
        o.append(["create_switch", 0, 0, "t3"])
    # --- drops
    for b in ([4], [1]):
        if B(*b):
            o.append(["drop_buses", b])
    if _has(net, "line", [1]):
        o.append(["drop_lines", [1]])
    if _has(net, "trafo", [0]):
        o.append(["drop_trafos", [0], "trafo"])
    if _has(net, "trafo3w", [0]):
        o.append(["drop_trafos", [0], "trafo3w"])
    for et, idx in (("load", [2]), ("gen", [0])) + ((("switch", [1]), ("ext_grid", [0]), ("shunt", [0]), ("trafo3w", [0]), ("sgen", [0]), ("storage", [0]), ("dcline", [0]),
                                                       ("impedance", [0]), ("ward", [0]), ("trafo", [0]), ("line", [0])) if thorough else ()):
        if _has(net, et, idx):
            o.append(["drop_elements", et, idx])
    if B(3):
        o.append(["drop_elements_at_buses", [3]])
    # --- fuse
    for b1, b2 in ((4, 5), (0, 1), (0, 2), (4, 3)):
        if B(b1, b2):
            o.append(["fuse_buses", b1, [b2]])
    # --- select_subnet (the state becomes the subnet)
    if B(0, 1, 2, 3):
        o.append(["select_subnet", [0, 1, 2, 3], {}])
    if thorough and B(3, 4, 5):
        o.append(["select_subnet", [3, 4, 5], {"include_results": True}])
    if thorough and B(0, 3, 4):
        o.append(["select_subnet", [0, 3, 4], {"keep_everything_else": True, "include_results": True}])
    # --- merge_nets with the small second net (once: index sets of net2 collide every time in the same way)
    if "c0" not in set(net.bus.name.tolist()):
        o.append(["merge_nets"])
    # --- reindex_buses
    if thorough:
        o.append(["reindex_buses", "shift10"])
    if B(0, 1, 3, 4):
        o.append(["reindex_buses", [[3, 4], [4, 3], [0, 1], [1, 0]]])
    # --- reindex_elements per element type
    for et in (REIDX if thorough else REIDX_QUICK):
        for tag, mk in REIDX[et]:
            if not thorough and (et, tag) in REIDX_QUICK_SKIP:
                continue
            if et in net and len(net[et]) and _lookup_ok(net, et, mk(net)):
                o.append(["reindex_elements", et, tag])
    o.append(["create_continuous_bus_index", 0])
    o.append(["create_continuous_elements_index", 1])
    if thorough:
        o.append(["create_continuous_bus_index", 2])
        o.append(["create_continuous_elements_index", 0])
    # --- replace
    if _has(net, "line", [2]):
        o.append(["replace_line_by_impedance", [2]])
    if _has(net, "impedance", [0]):
        o.append(["replace_impedance_by_line", [0]])
    if _has(net, "ext_grid", [0]):
        o.append(["replace_ext_grid_by_gen", [0]])
    if _has(net, "gen", [0]):
        o.append(["replace_gen_by_ext_grid", [0]])
    if _has(net, "ward", [0]):
        o.append(["replace_ward_by_internal_elements", [0]])
    o.append(["drop_inactive_elements"])
    if thorough:
        o.append(["set_isolated_areas_out_of_service"])
    return o


def _do(s, op):
    net = s["net"]
    k = op[0]
    if k == "create_bus":
        pp.create_bus(net, 20., name="nb%d" % len(net.bus))
    elif k == "create_line":
        pp.create_line_from_parameters(net, op[1], op[2], name="nl%d" % len(net.line), **na.LINE)
    elif k == "create_load":
        pp.create_load(net, op[1], 0.2, 0.05, name="nld%d" % len(net.load))
    elif k == "create_switch":
        pp.create_switch(net, op[1], op[2], op[3], closed=True, name="ns%d" % len(net.switch))
    elif k == "drop_buses":
        tb.drop_buses(net, op[1])
    elif k == "drop_lines":
        tb.drop_lines(net, op[1])
    elif k == "drop_trafos":
        tb.drop_trafos(net, op[1], table=op[2])
    elif k == "drop_elements":
        tb.drop_elements(net, op[1], op[2])
    elif k == "drop_elements_at_buses":
        tb.drop_elements_at_buses(net, op[1])
    elif k == "fuse_buses":
        tb.fuse_buses(net, op[1], op[2])
    elif k == "select_subnet":
        s["net"] = tb.select_subnet(net, op[1], **op[2])
    elif k == "merge_nets":
        s["net"] = tb.merge_nets(net, copy.deepcopy(base_nets()["n2"]), validate=False, std_prio_on_net1=True)
    elif k == "reindex_buses":
        lk = {int(b): int(b) + 10 for b in net.bus.index} if op[1] == "shift10" else {a: b for a, b in op[1]}
        tb.reindex_buses(net, lk)
    elif k == "reindex_elements":
        lk = dict((a, b) for a, b in dict(REIDX[op[1]])[op[2]](net))
        tb.reindex_elements(net, op[1], lookup=lk)
    elif k == "create_continuous_bus_index":
        tb.create_continuous_bus_index(net, start=op[1])
    elif k == "create_continuous_elements_index":
        tb.create_continuous_elements_index(net, start=op[1])
    elif k == "replace_line_by_impedance":
        tb.replace_line_by_impedance(net, op[1])
    elif k == "replace_impedance_by_line":
        tb.replace_impedance_by_line(net, op[1])
    elif k == "replace_ext_grid_by_gen":
        tb.replace_ext_grid_by_gen(net, op[1])
    elif k == "replace_gen_by_ext_grid":
        tb.replace_gen_by_ext_grid(net, op[1])
    elif k == "replace_ward_by_internal_elements":
        tb.replace_ward_by_internal_elements(net, op[1])
    elif k == "drop_inactive_elements":
        tb.drop_inactive_elements(net)
    elif k == "set_isolated_areas_out_of_service":
        tb.set_isolated_areas_out_of_service(net)
    else:
        raise AssertionError("unknown op %r" % (op,))


def opname(op):
    return op[0] + (":" + str(op[1]) if op[0] in ("reindex_elements", "drop_elements") else "") + \
        (":" + str(op[2]) if op[0] == "drop_trafos" else "")


def _count(net, tab):
    return len(net[tab]) if tab in net and isinstance(net[tab], pd.DataFrame) else -1


def apply(s, op):
    """the REAL call; afterwards the referential integrity of the new net is recomputed (only for ops that returned).
    s["new"] = dangling references that were not dangling before this op, each with tokens:
      op=<name>, holder=<table>, target=<table>,
      explained=target_renamed_holder_kept | target_dropped_holder_kept  (the same reference existed and was valid
      before the op; the op changed the target table but not the holder), else explained=holder_written."""
    s["new"] = []
    if s["dead"]:
        return "dead"
    pre_net = s["net"]
    pre_cnt = {t: len(df) for t, df in _tables(pre_net)}
    try:
        _do(s, op)
    except Exception as e:  # an op that raises is an outcome; the state after it is not judged and not expanded
        s["dead"] = type(e).__name__
        s["dead_msg"] = "%s: %s" % (type(e).__name__, str(e)[:200])
        return "raised:" + type(e).__name__
    allr = allrefs(s["net"])
    cur = {k: d for k, (ok, d) in allr.items() if not ok}
    prev, prev_valid = s["bad"], s.get("valid", set())
    new = []
    tainted = set((k[1], k[3]) for k in prev)       # (holder table, target table) pairs that were already inconsistent
    for k, d in cur.items():
        if k in prev:
            continue
        toks = ["op=" + opname(op), "holder=" + k[1], "target=" + k[3], "col=" + str(k[2])]
        if k in prev_valid:
            n0, n1 = pre_cnt.get(k[3], -1), _count(s["net"], k[3])
            toks.append("explained=target_renamed_holder_kept" if n0 == n1 else
                        "explained=target_dropped_holder_kept" if n1 < n0 else "explained=target_changed_holder_kept")
        else:
            toks.append("explained=holder_written")
        if (k[1], k[3]) in tainted:
            toks.append("followup_of_inherited_dangling")
        if op[0] == "select_subnet":
            toks += ["%s=%s" % kv for kv in sorted(op[2].items())]
        new.append((k, d, toks))
    s["new"] = new
    s["inherited"] = len(cur) - len(new)
    s["bad"] = {k: prev.get(k, opname(op)) for k in cur}
    s["valid"] = set(k for k, (ok, _) in allr.items() if ok)
    s["followup"] = [x for x in new if "followup_of_inherited_dangling" in x[2]]
    s["new"] = [x for x in new if "followup_of_inherited_dangling" not in x[2]]
    return "ok" if not cur else "new_dangling" if s["new"] else "followup_dangling" if s["followup"] else "ok_inherited_dangling"


# ------------------------------------------------------------------------------------------------
# canonical form
# ------------------------------------------------------------------------------------------------
def canon(s):
    """All columns of all non-result tables IN ROW ORDER (positional reindexing with new_indices depends on row
    order, in_service/closed/name/c_nf_per_km decide what drop_inactive/replace_*/reference-column groups do, so they
    stay in; nothing of an element table is dropped).  Dropped: values of res_* tables (kept: their index sets) - the
    alphabet reads result VALUES only to fill value columns of created rows (replace_ext_grid_by_gen p_mw,
    replace_ward_* p/q), never to decide which rows/indices exist; std_types; solver caches (_ppc, _options - no op
    of the alphabet runs or reads a power flow, merge_nets is called with validate=False); controller objects are
    reduced to (class, element, element_index); spline objects to their presence."""
    if s["dead"]:
        return "DEAD"
    net = s["net"]
    out = {}
    for tab, df in _tables(net):
        if not len(df):
            continue
        if tab.startswith("res_"):
            out[tab] = df.index.tolist()
            continue
        if tab == "controller":
            df = df.copy(deep=False)
            df["object"] = [[type(o).__name__, getattr(o, "element", None), repr(_aslist(getattr(o, "element_index", None)))]
                            for o in df["object"].tolist()]
        out[tab] = [df.index.tolist(), list(map(str, df.columns)), df.values.tolist()]
    out["_bad"] = sorted(repr(k) for k in s["bad"])
    return json.dumps(out, sort_keys=True, default=_canon_default)


def _canon_default(o):
    if isinstance(o, (np.integer,)):
        return int(o)
    if isinstance(o, (np.floating,)):
        return float(o)
    if isinstance(o, (np.bool_,)):
        return bool(o)
    if isinstance(o, np.ndarray):
        return o.tolist()
    if isinstance(o, (dict, tuple, set, frozenset)):
        return repr(o)
    if o is pd.NA:
        return "NA"
    return type(o).__name__           # characteristic / spline objects: presence only


TOKENS_CLAUSES = ("bus_ref", "switch_element", "measurement_element", "measurement_side", "cost_element",
                  "group_member", "controller_target", "characteristic_ref", "res_index")

"""C30 helpers (agentL): E2 model of the diagnostic package.

State = (the module-level default objects of pandapower.diagnostic, <= 2 Diagnostic instances, 2 nets).
The module-level objects are carried INSIDE the state (so that deep copies of a state keep the aliasing between
instances and module defaults exactly as the implementation created it) and are installed into the two modules
that bind them before every real call; after the call the bindings are read back.  Hence a worker that rebuilds
a history never sees leftovers of another history: init() starts from deep copies of the pristine objects taken at
import time.
"""
import copy
import importlib
import json
import logging

import numpy as np
import pandas as pd

import pandapower as pp

from mc import core

DF = importlib.import_module("pandapower.diagnostic.diagnostic_functions")
DD = importlib.import_module("pandapower.diagnostic.diagnostic")
DH = importlib.import_module("pandapower.diagnostic.diagnostic_helpers")
Diagnostic = DD.Diagnostic
legacy_diagnostic = DH.diagnostic

# pristine module state, captured before anything in this process used the package
_PRISTINE = copy.deepcopy({"args": DF.default_argument_values, "funcs": DF.default_diagnostic_functions})
_LOGGER_LEVEL0 = DH.logger.level
_LOGGER_STATE = (DH.logger.getEffectiveLevel(), len(DH.logger.filters))

KW = {"none": {}, "osf": {"overload_scaling_factor": 0.5}, "minr": {"min_r_ohm": 1.0},
      "maxx": {"max_x_ohm": 0.05}, "compact": {}}
REPORT = {"compact": "compact"}


class EchoKwargs(DH.DiagnosticFunction):
    """user function whose result shows which keyword arguments reached it"""

    def diagnostic(self, net, **kwargs):
        return {"n_bus": int(len(net.bus)),
                "kwargs": sorted((str(k), repr(v)) for k, v in kwargs.items() if k != "run")}

    def report(self, error, results):
        return None


def _make_function(fname):
    """(diagnostic_function, argument_names, name) as passed to register_function"""
    if fname == "echo":
        return EchoKwargs(), None, None
    if fname == "need":      # explicit argument list: raises ValueError when the argument is not known to the instance
        return EchoKwargs(), ["overload_scaling_factor"], "needs_osf"
    if fname == "slack":     # library function that is not part of the defaults; edits net.gen and restores it
        return DF.SlackGenPlacement(), None, "slack_gen_placement"
    raise ValueError(fname)


FUNCS = ["echo", "need", "slack"]
SETKW = ["osf"]          # options a user may write into the public attribute Diagnostic.kwargs of ONE instance


# ----------------------------------------------------------------------------------------------
# nets with deliberate problems
# ----------------------------------------------------------------------------------------------
NNETS = 3


def _mk_net(kind):
    """kind: 'ok' (converges), 'overload' (does not converge, cured by scaling the loads down), 'uncurable' (does not
    converge and NO stage of the overload / capacitance / switch checks cures it: constant-power ward)"""
    overload = kind == "overload"
    net = pp.create_empty_network(sn_mva=1.)
    b = [pp.create_bus(net, 20.) for _ in range(3)] + [pp.create_bus(net, 0.4), pp.create_bus(net, 0.4),
                                                        pp.create_bus(net, 20.)]
    pp.create_ext_grid(net, b[0], vm_pu=1.01)
    pp.create_line_from_parameters(net, b[0], b[1], 1., 0.1, 0.1, 10., 1.)
    pp.create_line_from_parameters(net, b[1], b[2], 1., 0.0001, 0.0001, 10., 1.)   # impedance close to zero
    pp.create_line_from_parameters(net, b[1], b[5], 1., 0.1, 0.1, 10., 1.)
    pp.create_switch(net, b[1], 2, et="l", closed=False)                          # line 2 / bus 5 disconnected
    # wrong voltage level: 28 kV winding on a 20 kV bus
    pp.create_transformer_from_parameters(net, b[2], b[4], 0.4, 28., 0.4, 1., 4., 1., 0.1)
    pp.create_load(net, b[2], 5000. if overload else 1., .2)
    pp.create_load(net, b[4], 0.05, .0)
    pp.create_load(net, b[3], 0.1, .0)                                            # disconnected bus with a load
    pp.create_gen(net, b[1], 0.2, 1.0)
    pp.create_sgen(net, b[2], 0.1)
    if kind == "uncurable":
        pp.create_ward(net, b[2], 5000., 0., 0., 0.)
    try:
        pp.runpp(net)    # result tables hold the net's own power flow (or its failure) before any diagnosis
    except Exception:
        pass
    return net


_NETS = None


def nets():
    global _NETS
    if _NETS is None:
        _NETS = [_mk_net("ok"), _mk_net("overload"), _mk_net("uncurable")][:NNETS]
    return copy.deepcopy(_NETS)


def net_tables(net):
    """public content of a net: every DataFrame (result tables rounded) + scalar/dict entries"""
    out = {}
    for k in sorted(net.keys()):
        if k.startswith("_"):
            continue
        v = net[k]
        if isinstance(v, pd.DataFrame):
            if not len(v) and not k.startswith("res_"):
                out[k] = ("empty", tuple(map(str, v.columns)))
                continue
            w = v
            if k.startswith("res_"):
                w = v.apply(lambda c: c.round(7) if c.dtype.kind == "f" else c)
            out[k] = (tuple(map(str, w.columns)), tuple(map(str, w.index)),
                      json.dumps(core.jsonable(w.to_numpy(dtype=object, na_value="nan").tolist())))
        elif isinstance(v, (str, int, float, bool, dict, list, tuple)) or v is None:
            out[k] = json.dumps(core.jsonable(v), sort_keys=True)
    return out


def net_diff(before, after):
    ks = []
    for k in sorted(set(before) | set(after)):
        if before.get(k) != after.get(k):
            ks.append(k)
    return ks


def net_hash(net):
    return core.dhash(net_tables(net))


# ----------------------------------------------------------------------------------------------
# canonical forms
# ----------------------------------------------------------------------------------------------
def canon_value(x):
    if isinstance(x, dict):
        return {str(k): canon_value(v) for k, v in sorted(x.items(), key=lambda kv: str(kv[0]))}
    if isinstance(x, (list, tuple)):
        return [canon_value(v) for v in x]
    if isinstance(x, (set, frozenset)):
        return sorted(canon_value(v) for v in x)
    if isinstance(x, (np.bool_, bool)):
        return bool(x)
    if isinstance(x, np.integer):
        return int(x)
    if isinstance(x, (float, np.floating)):
        return float("%.9g" % float(x)) if np.isfinite(x) else repr(float(x))
    if isinstance(x, (pd.DataFrame, pd.Series, pd.Index, np.ndarray)):
        return canon_value(np.asarray(x).tolist())
    if isinstance(x, (str, int)) or x is None:
        return x
    return repr(x)


def _funcs_canon(funcs):
    return [(str(n), type(f).__name__, None if a is None else list(a)) for (n, f, a) in funcs]


def _args_canon(d):
    return sorted((str(k), repr(v)) for k, v in d.items())


def module_canon(mod):
    return {"df_args": _args_canon(mod["df_args"]), "dd_args": _args_canon(mod["dd_args"]),
            "df_funcs": _funcs_canon(mod["df_funcs"]), "dd_funcs": _funcs_canon(mod["dd_funcs"]),
            "args_same_object": mod["df_args"] is mod["dd_args"], "funcs_same_object": mod["df_funcs"] is mod["dd_funcs"]}


PRISTINE_CANON = None


def pristine_canon():
    global PRISTINE_CANON
    if PRISTINE_CANON is None:
        m = copy.deepcopy(_PRISTINE)
        PRISTINE_CANON = module_canon({"df_args": m["args"], "dd_args": m["args"], "df_funcs": m["funcs"],
                                       "dd_funcs": m["funcs"]})
    return PRISTINE_CANON


# ----------------------------------------------------------------------------------------------
# state
# ----------------------------------------------------------------------------------------------
class State:
    def __init__(self):
        m = copy.deepcopy(_PRISTINE)
        self.mod = {"df_args": m["args"], "dd_args": m["args"], "df_funcs": m["funcs"], "dd_funcs": m["funcs"]}
        self.insts = []          # real Diagnostic objects
        self.adf = []            # model bookkeeping: add_default_functions flag per instance
        self.regs = []           # model bookkeeping: custom registrations per instance (names in order)
        self.ikw = []            # model bookkeeping: options the user wrote into the public attribute inst.kwargs
        self.nets = nets()
        self.last = None


def logger_state():
    # the *effective* level is what a later call (or the user's own logging) can observe; report() restores the effective level as
    # the logger's own level (NOTSET -> WARNING under a default root logger), which no later call can tell apart
    return (DH.logger.getEffectiveLevel(), len(DH.logger.filters))


def install(mod):
    # the diagnostic logger is process-global as well: start every real call from its pristine configuration
    for f in list(DH.logger.filters):
        DH.logger.removeFilter(f)
    DH.logger.setLevel(_LOGGER_LEVEL0)
    DF.default_argument_values = mod["df_args"]
    DD.default_argument_values = mod["dd_args"]
    DF.default_diagnostic_functions = mod["df_funcs"]
    DD.default_diagnostic_functions = mod["dd_funcs"]


def read_back(mod):
    mod["df_args"] = DF.default_argument_values
    mod["dd_args"] = DD.default_argument_values
    mod["df_funcs"] = DF.default_diagnostic_functions
    mod["dd_funcs"] = DD.default_diagnostic_functions


def _call(fn):
    try:
        return {"returned": canon_value(fn())}
    except Exception as e:  # an outcome of the call, compared with the reference
        return {"raised": type(e).__name__}


def _record(diag, res):
    if diag is not None and "returned" in res:
        res["errors"] = {str(k): type(e).__name__ for k, e in sorted(diag.diag_errors.items())}
    return res


# ----------------------------------------------------------------------------------------------
# reference: the same call in a pristine interpreter state
# ----------------------------------------------------------------------------------------------
_REF = {}


def ref_key(kind, adf, regs, kwname, nhash, ikw=()):
    return json.dumps([kind, adf, list(regs), kwname, nhash, list(ikw)])


def reference(kind, adf, regs, kwname, net, ikw=()):
    """result of the call on a fresh instance with the same registrations, pristine module defaults, same net
    content, same keyword arguments.  Memoised per (kind, registrations, kwargs, net content)."""
    key = ref_key(kind, adf, regs, kwname, net_hash(net), ikw)
    if key not in _REF:
        m = copy.deepcopy(_PRISTINE)
        install({"df_args": m["args"], "dd_args": m["args"], "df_funcs": m["funcs"], "dd_funcs": m["funcs"]})
        n = copy.deepcopy(net)
        kw = dict(KW[kwname])
        if kind == "legacy":
            _REF[key] = _call(lambda: legacy_diagnostic(n, report_style=None, **kw))
        else:
            d = Diagnostic(add_default_functions=adf)
            for f in regs:
                d.register_function(*_make_function(f))
            for k in ikw:            # the instance's own persistent options (public attribute)
                d.kwargs.update(KW[k])
            _REF[key] = _record(d, _call(lambda: d.diagnose_network(n, report_style=REPORT.get(kwname), **kw)))
    return _REF[key]


def all_reference_configs(max_regs, kwnames, legacy_kw):
    import itertools
    cfgs = []
    for adf in (True, False):
        for r in range(0, max_regs + 1):
            for regs in itertools.permutations(FUNCS, r):
                for kwname in kwnames:
                    for j in range(NNETS):
                        for ikw in ([], list(SETKW)):
                            cfgs.append(["diag", adf, list(regs), kwname, j, ikw])
    for kwname in legacy_kw:
        for j in range(NNETS):
            cfgs.append(["legacy", True, [], kwname, j, []])
    return cfgs


def compute_reference(cfg):
    kind, adf, regs, kwname, j, ikw = cfg
    net = nets()[j]
    return ref_key(kind, adf, regs, kwname, net_hash(net), ikw), reference(kind, adf, regs, kwname, net, ikw)


def _explain_impedance_no_restore(before, after, diff):
    """recorded defect: ImplausibleImpedanceValues sets the flagged lines / impedances / xwards / trafos out of
    service and appends replacement elements (one closed bus-bus switch per line or impedance, 0.01 p.u. impedances
    per trafo, wards per xward); if the power flow on that modified net raises anything but a convergence error the
    restoring block is skipped.  True iff the nets differ exactly in that way: original rows identical except
    in_service True->False flips, plus appended rows in switch / impedance / ward, the appended switches being
    closed bus-bus switches between the terminals of the flagged lines."""
    editable = {"line", "impedance", "xward", "trafo", "trafo3w", "switch", "ward"}
    if not all(k in editable or k.startswith("res_") for k in diff) or "switch" not in diff and "impedance" not in diff:
        return False
    flips = 0
    for tab in sorted(editable & set(diff)):
        tb, ta = before[tab], after[tab]
        if len(ta) < len(tb) or list(ta.index[:len(tb)]) != list(tb.index):
            return False
        if len(ta) > len(tb) and tab not in ("switch", "impedance", "ward"):
            return False
        head = ta.iloc[:len(tb)]
        if "in_service" in tb.columns:
            if not head.drop(columns="in_service").equals(tb.drop(columns="in_service")):
                return False
            fb, fa = tb.in_service.values.astype(bool), head.in_service.values.astype(bool)
            if (fa & ~fb).any():
                return False
            flips += int((fb & ~fa).sum())
        elif not head.equals(tb):
            return False
    if not flips:
        return False
    lb, la = before.line, after.line
    flagged = [i for i in lb.index if bool(lb.at[i, "in_service"]) and not bool(la.at[i, "in_service"])]
    new = after.switch.iloc[len(before.switch):]
    want = [(int(lb.at[i, "from_bus"]), int(lb.at[i, "to_bus"])) for i in flagged]
    got = [(int(r.bus), int(r.element)) for r in new.itertuples()]
    return got[:len(want)] == want and all(new.et == "b") and all(new.closed)


# ----------------------------------------------------------------------------------------------
# the model (mc.explore interface)
# ----------------------------------------------------------------------------------------------
class Model:
    def __init__(self, kwnames, legacy_kw, max_regs):
        self.kwnames, self.legacy_kw, self.max_regs = list(kwnames), list(legacy_kw), max_regs

    def init(self):
        s = State()
        install(s.mod)
        return s

    def ops(self, s):
        out = []
        if len(s.insts) < 2:
            out += [["new", True], ["new", False]]
        for i in range(len(s.insts)):
            if len(s.regs[i]) < self.max_regs:
                out += [["reg", i, f] for f in FUNCS if f not in s.regs[i]]
        for i in range(len(s.insts)):
            out += [["setkw", i, k] for k in SETKW if k not in s.ikw[i]]
        for i in range(len(s.insts)):
            for j in range(NNETS):
                out += [["diag", i, j, k] for k in self.kwnames]
        for j in range(NNETS):
            out += [["legacy", j, k] for k in self.legacy_kw]
        return out

    def apply(self, s, op):
        install(s.mod)
        before_mod = module_canon(s.mod)
        s.last = {"op": op, "mod_before": before_mod}
        kind = op[0]
        if kind == "new":
            s.insts.append(Diagnostic(add_default_functions=op[1]))
            s.adf.append(bool(op[1]))
            s.regs.append([])
            s.ikw.append([])
            out = "ok"
        elif kind == "setkw":
            s.insts[op[1]].kwargs.update(KW[op[2]])
            s.ikw[op[1]].append(op[2])
            out = "ok"
        elif kind == "reg":
            s.insts[op[1]].register_function(*_make_function(op[2]))
            s.regs[op[1]].append(op[2])
            out = "ok"
        elif kind in ("diag", "legacy"):
            j = op[2] if kind == "diag" else op[1]
            kwname = op[3] if kind == "diag" else op[2]
            net = s.nets[j]
            s.last["net_before"] = net_tables(net)
            s.last["net_copy"] = copy.deepcopy(net)
            kw = dict(KW[kwname])
            pristine_names = {n for (n, _, _) in pristine_canon()["df_funcs"]}
            used = s.insts[op[1]]._functions if kind == "diag" else s.mod["dd_funcs"]
            s.last["ran_custom"] = sorted({str(n) for (n, _, _) in used} - pristine_names)
            if kind == "diag":
                d = s.insts[op[1]]
                res = _record(d, _call(lambda: d.diagnose_network(net, report_style=REPORT.get(kwname), **kw)))
                s.last["ref_args"] = ("diag", s.adf[op[1]], list(s.regs[op[1]]), kwname)
                s.last["ref_ikw"] = list(s.ikw[op[1]])
            else:
                res = _call(lambda: legacy_diagnostic(net, report_style=None, **kw))
                s.last["ref_args"] = ("legacy", True, [], kwname)
                s.last["ref_ikw"] = []
            s.last["result"] = res
            s.last["net_after"] = net_tables(net)
            out = "raised:" + res["raised"] if "raised" in res else "ok"
        else:
            raise ValueError(op)
        read_back(s.mod)
        s.last["mod_after"] = module_canon(s.mod)
        s.last["logger_after"] = logger_state()
        return out

    def copy(self, s):
        last, s.last = s.last, None      # bookkeeping of the previous transition is not part of the state
        try:
            return copy.deepcopy(s)
        finally:
            s.last = last

    def canon(self, s):
        # report-only attributes of the DiagnosticFunction objects (self.net, self.params, scaling factors used for
        # the log text) are not part of the canonical state: diagnostic() re-initialises them on every call and no
        # result reads them.
        insts = []
        for i, d in enumerate(s.insts):
            insts.append({"adf": s.adf[i], "regs": s.regs[i], "ikw": s.ikw[i], "kwargs": _args_canon(d.kwargs),
                          "functions": _funcs_canon(d._functions),
                          "kwargs_is_module_object": d.kwargs is s.mod["df_args"] or d.kwargs is s.mod["dd_args"],
                          "functions_is_module_object": d._functions is s.mod["df_funcs"] or d._functions is s.mod["dd_funcs"],
                          "shares_kwargs_with": [k for k, e in enumerate(s.insts) if k != i and e.kwargs is d.kwargs],
                          "shares_functions_with": [k for k, e in enumerate(s.insts) if k != i and e._functions is d._functions]})
        return json.dumps({"mod": module_canon(s.mod), "insts": insts, "nets": [net_hash(n) for n in s.nets]},
                          sort_keys=True, default=str)

    def invariant(self, s, hist, op, outcome):
        vs = []
        last = s.last
        base_toks = ["op=" + op[0]]
        if last["mod_after"] != last["mod_before"]:
            changed = sorted(k for k in last["mod_after"] if last["mod_after"][k] != last["mod_before"][k])
            toks = base_toks + ["changed=" + k for k in changed]
            if op[0] in ("diag", "legacy"):
                toks.append("kw=" + (op[3] if op[0] == "diag" else op[2]))
            pc = pristine_canon()
            detail = {"changed": changed}
            for k in changed:
                if k.endswith("args"):
                    detail[k] = {"now": [x for x in last["mod_after"][k] if x not in pc[k]],
                                 "pristine": [x for x in pc[k] if x not in last["mod_after"][k]]}
                elif k.endswith("funcs"):
                    detail[k] = {"extra": [x for x in last["mod_after"][k] if x not in pc[k]]}
                else:
                    detail[k] = last["mod_after"][k]
            vs.append(core.violation("module_defaults_unchanged", detail, tokens=toks, klass="/".join(changed)))
        if tuple(last["logger_after"]) != tuple(_LOGGER_STATE):
            vs.append(core.violation("module_defaults_unchanged", {"diagnostic_logger(level, n_filters)": last["logger_after"],
                                                                  "pristine": _LOGGER_STATE},
                                     tokens=base_toks + ["changed=logger"], klass="logger"))
        if op[0] in ("diag", "legacy"):
            diff = net_diff(last["net_before"], last["net_after"])
            if diff:
                res_only = all(k.startswith("res_") or k in ("converged", "OPF_converged") for k in diff)
                ran = ["ran=" + f for f in last["ran_custom"]]
                toks = base_toks + ["tab=" + k for k in diff] + ran + (["only_result_tables"] if res_only else ["input_tables"])
                j = op[2] if op[0] == "diag" else op[1]
                if not res_only and _explain_impedance_no_restore(last["net_copy"], s.nets[j], diff):
                    toks.append("explained=implausible_impedance_no_restore")
                vs.append(core.violation("net_unchanged", {"tables": diff, "only_result_tables": res_only,
                                                           "custom_functions_run": last["ran_custom"]},
                                         tokens=toks, klass="/".join(diff)[:60]))
            kind, adf, regs, kwname = last["ref_args"]
            ref = reference(kind, adf, regs, kwname, last["net_copy"], last["ref_ikw"])
            got = last["result"]
            if ref != got:
                where = sorted(k for k in set(ref) | set(got) if ref.get(k) != got.get(k))
                keys = []
                if "returned" in where and isinstance(ref.get("returned"), dict) and isinstance(got.get("returned"), dict):
                    keys = sorted(k for k in set(ref["returned"]) | set(got["returned"])
                                  if ref["returned"].get(k) != got["returned"].get(k))
                toks = base_toks + ["differs=" + w for w in where] + ["check=" + k for k in keys] + ["kw=" + kwname]
                sticky = self._explain_shared_defaults(s, hist, op)
                if sticky:
                    toks.append("explained=" + sticky)
                detail = {"differs": where, "checks": keys,
                          "got": {k: got.get("returned", {}).get(k) for k in keys} if keys else got,
                          "pristine": {k: ref.get("returned", {}).get(k) for k in keys} if keys else ref}
                if "errors" in where:
                    detail["errors_got"], detail["errors_pristine"] = got.get("errors"), ref.get("errors")
                vs.append(core.violation("result_stateless", detail, tokens=toks, klass="/".join(where + keys)[:60]))
        return vs

    def _explain_shared_defaults(self, s, hist, op):
        """recorded defect: Diagnostic(add_default_functions=True) binds the module-level default dict/list and
        diagnose_network does self.kwargs.update(kwargs).  Recompute the call with exactly that leak: a fresh instance
        whose kwargs are the pristine defaults updated with every keyword dict that earlier calls of the history
        wrote into the shared dict (plus this call's), and whose function list holds the registrations made on
        ANY default instance."""
        last = s.last
        kind, adf, regs, kwname = last["ref_args"]
        me = op[1] if kind == "diag" else None
        leaked_kw, leaked_regs = {}, []
        for h in list(hist):
            if h[0] == "legacy" and adf:
                leaked_kw.update(overload_scaling_factor=0.001, lines_min_length_km=0., nom_voltage_tolerance=0.3,
                                 lines_min_z_ohm=0.)
                leaked_kw.update(KW[h[2]])
            elif h[0] == "diag" and ((adf and s.adf[h[1]]) or h[1] == me):
                leaked_kw.update(KW[h[3]])
            elif h[0] == "setkw" and ((adf and s.adf[h[1]]) or h[1] == me):
                leaked_kw.update(KW[h[2]])
            elif h[0] == "reg" and adf and s.adf[h[1]]:
                leaked_regs.append(h[2])
        if not adf:
            # an instance without the defaults owns its dict, but diagnose_network still keeps every keyword it was
            # ever given (self.kwargs.update)
            n = copy.deepcopy(last["net_copy"])
            m = copy.deepcopy(_PRISTINE)
            install({"df_args": m["args"], "dd_args": m["args"], "df_funcs": m["funcs"], "dd_funcs": m["funcs"]})
            d = Diagnostic(add_default_functions=False)
            for f in regs:
                d.register_function(*_make_function(f))
            kw = dict(leaked_kw)
            kw.update(KW[kwname])
            res = _record(d, _call(lambda: d.diagnose_network(n, report_style=REPORT.get(kwname), **kw)))
            return "sticky_instance_kwargs" if res == last["result"] else None
        m = copy.deepcopy(_PRISTINE)
        m["args"].update({k: v for k, v in leaked_kw.items()})
        for f in leaked_regs:
            fobj, argnames, name = _make_function(f)
            m["funcs"].append((name if name is not None else type(fobj).__name__, fobj, argnames))
        install({"df_args": m["args"], "dd_args": m["args"], "df_funcs": m["funcs"], "dd_funcs": m["funcs"]})
        n = copy.deepcopy(last["net_copy"])
        kw = dict(KW[kwname])
        if kind == "legacy":
            res = _call(lambda: legacy_diagnostic(n, report_style=None, **kw))
        else:
            d = Diagnostic(add_default_functions=True)
            res = _record(d, _call(lambda: d.diagnose_network(n, report_style=REPORT.get(kwname), **kw)))
        return "shared_module_defaults" if res == last["result"] else None

"""E2: explicit-state breadth-first search over operation histories on the REAL objects.

A state is identified with an operation history reaching it (live pandapower nets are cheap to rebuild
and expensive to ship between processes).  Level-synchronous BFS: every frontier history is expanded in a
worker (rebuild the state by replaying the history on a fresh initial state, then apply every enabled
operation to a deep copy, evaluate the invariant, hash the successor canonically).  The parent merges the
results in task order, so states/transitions/verdicts do not depend on worker timing.

A model is any object / module with:
    init() -> state                                   fresh initial state (real objects)
    ops(state) -> list of JSON-able op descriptors    enabled operations in this state (small finite menu)
    apply(state, op) -> outcome                       performs the REAL call(s), mutating state; returns a
                                                      JSON-able outcome (e.g. "ok" / exception class name)
    canon(state) -> hashable/str                      canonical form: exactly the fields that determine the
                                                      futures relevant to the property
    invariant(state, hist, op, outcome) -> [violation dicts]   oracle evaluated after EVERY transition
optional:
    copy(state) -> state                              default copy.deepcopy
"""
import copy
import hashlib
import json

from mc import core

_MODEL = None


def _rebuild(model, hist):
    s = model.init()
    for op in hist:
        model.apply(s, op)
    return s


def _key(model, s):
    k = model.canon(s)
    if not isinstance(k, str):
        k = json.dumps(core.jsonable(k), sort_keys=True)
    return hashlib.sha1(k.encode()).hexdigest()


def _expand(hist):
    model = _MODEL
    s = _rebuild(model, hist)
    cp = getattr(model, "copy", copy.deepcopy)
    out = []
    for op in model.ops(s):
        t = cp(s)
        outcome = model.apply(t, op)
        vs = model.invariant(t, list(hist), op, outcome) or []
        out.append((op, _key(model, t), outcome, vs))
    return {"succ": out}


def bfs(report, model, depth, nproc=None, max_states=None):
    """Explore every operation sequence of length <= depth (deduplicated by canonical state).
    Fills report (evaluations = transitions, states, transitions, distinct outcomes, violations)."""
    global _MODEL
    _MODEL = model
    s0 = model.init()
    seen = {_key(model, s0)}
    frontier = [()]
    transitions = 0
    outcomes = {}
    per_level = []
    completed_depth = 0
    samples = []
    for level in range(1, depth + 1):
        if not frontier:
            break
        results = core.pmap(_expand, [list(h) for h in frontier], nproc=nproc, order_seed=report.seed)
        new_frontier = []
        for hist, res in zip(frontier, results):
            if res.get("outcome") == "HARNESS_ERROR":
                import sys
                sys.stderr.write("HARNESS ERROR expanding %s\n%s\n" % (json.dumps(core.jsonable(hist)), res["harness_error"]))
                raise SystemExit(2)
            for op, key, outcome, vs in res["succ"]:
                transitions += 1
                if isinstance(outcome, dict) and "oc" in outcome:
                    oc = "%s:%s" % (outcome.get("calc", ""), outcome["oc"])
                else:
                    oc = outcome if isinstance(outcome, str) else json.dumps(core.jsonable(outcome), sort_keys=True)
                outcomes[oc] = outcomes.get(oc, 0) + 1
                h2 = tuple(hist) + (op,)
                for v in vs:
                    v = dict(v)
                    v.setdefault("case", {"history": core.jsonable(h2)})
                    report.violations.append(v)
                if key not in seen:
                    seen.add(key)
                    new_frontier.append(h2)
                    if len(samples) < 3 and level == depth:
                        samples.append(core.jsonable(h2))
        per_level.append({"level": level, "expanded": len(frontier), "new_states": len(new_frontier)})
        completed_depth = level
        frontier = new_frontier
        if max_states and len(seen) > max_states:
            report.exhaustive = False
            report.extra["cap_hit"] = "max_states=%d at level %d" % (max_states, level)
            break
    report.evaluations += transitions
    report.nontrivial.update(seen)
    for k, n in outcomes.items():
        report.outcome(k if len(k) < 60 else k[:57] + "...", n)
    report.extra.update({"states": len(seen), "transitions": transitions, "traces_validated_against_impl": transitions,
                         "depth_completed": completed_depth, "levels": per_level,
                         "distinct_outcomes": len(outcomes)})
    if not samples and frontier:
        samples = [core.jsonable(frontier[0])]
    report.samples.extend(samples or [core.jsonable(per_level)])
    return seen


def replay_history(model, hist):
    """Re-run one history from the initial state evaluating the invariant after every step."""
    s = model.init()
    vs = []
    done = []
    for op in hist:
        outcome = model.apply(s, op)
        done.append(op)
        for v in (model.invariant(s, done[:-1], op, outcome) or []):
            v = dict(v)
            v.setdefault("case", {"history": core.jsonable(done)})
            vs.append(v)
    return vs

"""C34 helpers (agentL): the runpp option alphabet, call construction (keyword / positional), the boring
precedence model  passed > stored > default  and the differential reference."""
import contextlib
import copy
import inspect
import io

import numpy as np

import pandapower as pp

from mc import core, netalpha as na

# the named parameters of runpp in signature order (read from the implementation, so a changed signature is seen)
_SIG = inspect.signature(getattr(pp.runpp, "__wrapped__", pp.runpp))
NAMED = [p.name for p in _SIG.parameters.values()
         if p.kind == p.POSITIONAL_OR_KEYWORD and p.name != "net"]
NAMED_DEFAULT = {p.name: p.default for p in _SIG.parameters.values() if p.name in NAMED}

# non-default value per named parameter (one per branch of _init_runpp_options that consumes it)
NAMED_OTHER = {
    "algorithm": "iwamoto_nr", "calculate_voltage_angles": False, "init": "flat", "max_iteration": 15,
    "tolerance_mva": 1e-6, "trafo_model": "pi", "trafo_loading": "power", "enforce_q_lims": True,
    "check_connectivity": False, "voltage_depend_loads": False, "consider_line_temperature": True,
    "run_control": True, "distributed_slack": True, "tdpf": True, "tdpf_delay_s": 60.0,
}
NAMED_OTHER2 = {"algorithm": "bfsw", "calculate_voltage_angles": "auto", "init": "dc", "max_iteration": 7}
# documented keyword arguments: (documented default, non-default)
KWARG = {
    "lightsim2grid": ("auto", False), "numba": (True, False), "switch_rx_ratio": (2, 5.0), "delta_q": (0, 1e-3),
    "trafo3w_losses": ("hv", "mv"), "v_debug": (False, True), "init_vm_pu": (None, "flat"),
    "init_va_degree": (None, "flat"), "neglect_open_switch_branches": (False, True),
    "tdpf_update_r_theta": (True, False), "only_v_results": (False, True), "use_umfpack": (True, False),
}
OPTIONS = NAMED + list(KWARG)
# _options key(s) written from a runpp argument of a different name
ALIAS = {"delta_q": "delta"}


def default_of(o):
    return NAMED_DEFAULT[o] if o in NAMED_DEFAULT else KWARG[o][0]


def other_of(o, second=False):
    if second and o in NAMED_OTHER2:
        return NAMED_OTHER2[o]
    return NAMED_OTHER[o] if o in NAMED_OTHER else KWARG[o][1]


def value(o, which):
    return default_of(o) if which == "d" else other_of(o, which == "n2")


_NETS = {}
_IDLE = None


def _idle_controller_class():
    """a controller that is in service and always converged: makes runpp(run_control=True) take the control-loop
    branch (run_control -> inner runpp calls) without changing the network"""
    global _IDLE
    if _IDLE is None:
        from pandapower.control.basic_controller import Controller

        class IdleController(Controller):
            def is_converged(self, net):
                return True

            def control_step(self, net):
                return None
        IdleController.__module__ = __name__
        IdleController.__qualname__ = "IdleController"
        globals()["IdleController"] = IdleController
        _IDLE = IdleController
    return _IDLE


def net(name):
    """C: P + an idle in-service controller (control-loop branch of runpp(run_control=True));
    P: T3 + PV gen with q-limits + line temperature column (no ZIP load: voltage_depend_loads auto-off);
    Z: the same with a voltage dependent load (voltage_depend_loads stays on, lightsim2grid auto-off)."""
    if name not in _NETS:
        n = copy.deepcopy(na.base("T3"))
        pp.create_gen(n, 1, 1.0, 1.01, min_q_mvar=-0.2, max_q_mvar=0.2, min_p_mw=0., max_p_mw=2.)
        n.line["temperature_degree_celsius"] = 45.
        if name == "Z":
            n.load["const_z_p_percent"] = 30.
            n.load["const_z_q_percent"] = 30.
        if name == "C":      # P with an in-service controller
            _idle_controller_class()(n)
        _NETS[name] = n
    return copy.deepcopy(_NETS[name])


def model_store(calls):
    """boring model of set_user_pf_options: a dict that is cleared on overwrite=True and updated otherwise"""
    s = {}
    for overwrite, kw in calls:
        if overwrite:
            s = {}
        s.update(kw)
    return s


def do_call(n, passed, positional):
    """runpp(n, ...) with `passed` = ordered list of (name, value); the first `positional` named ones positionally.
    Returns (outcome, options)"""
    pos = [v for (_, v) in passed[:positional]]
    kw = {k: v for (k, v) in passed[positional:]}
    try:
        with contextlib.redirect_stdout(io.StringIO()):      # iwamoto_nr prints its multiplier
            pp.runpp(n, *pos, **kw)
        oc = "ok"
    except Exception as e:  # outcome, compared between the real call and the reference call
        oc = type(e).__name__
    opts = n.get("_options") if oc in ("ok", "LoadflowNotConverged") else None
    return oc, (None if opts is None else {k: core.jsonable(v) for k, v in opts.items()})


def reference(netname, merged):
    """the same network without stored options, every effective option passed explicitly as keyword"""
    n = net(netname)
    return do_call(n, sorted(merged.items()), 0)


_NO = object()


def judge(actual, ref, stored, merged):
    """keys where the real _options differ from the reference.  For a stored option whose stored value IS the
    effective value (not passed, or passed with the same value) the raw stored value is accepted in _options as
    well as the derived one: the statement fixes who wins, not the representation."""
    bad = []
    raw_ok = {k: core.jsonable(v) for k, v in stored.items() if core.jsonable(merged.get(k, _NO)) == core.jsonable(v)}
    for k in sorted(set(actual) | set(ref)):
        a, r = actual.get(k, "<absent>"), ref.get(k, "<absent>")
        if a == r:
            continue
        raw = _NO
        for sk, sv in raw_ok.items():
            if k == sk or ALIAS.get(sk) == k:
                raw = sv
        if raw is not _NO and a == raw:
            continue
        bad.append((k, a, r))
    return bad

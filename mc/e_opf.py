"""OPF case alphabet for C16 / C17 (agentE): base nets with OPF columns, controllable-element deviations,
limit alphabets, voltage / branch limit alphabets, cost deviations, and the OPF driver.

A case descriptor is
    {"base": "D2"|"R3"|"M4"|"T3", "elems": [dev, ...], "vlim": kind, "blim": kind,
     "costs": [cost-dev, ...], "mode": "ac"|"dc"}
Element deviations (all JSON lists; limits are *kinds* resolved by plim()/qlim() so that a descriptor reads
like the alphabet it was drawn from):
    ["gen", bus, p, vm, plim, qlim, controllable]
    ["sgen" | "load" | "storage", bus, p, q, plim, qlim, controllable]      (controllable: True / False)
    ["dcline", from_bus, to_bus, p, loss_percent, loss_mw, max_p, qlim(, qlim_to)]
    ["eg", plim, qlim, ctrl]        limits / controllable column of the base net's ext_grid 0 (ctrl: "nocol"/True/False)
    ["gvm", k, lo, hi]              gen-level min_vm_pu / max_vm_pu of the k-th element of the case (a gen)
    ["oos", k]                      k-th element of the case out of service
    ["scal", k, value]              scaling of the k-th element
Cost deviations refer to elements by position k in "elems" (or "eg" for ext_grid 0):
    ["poly", k, cp1, cp0, cp2, cq1, cq0, cq2]
    ["pwl", k, "p"|"q", [[x0, x1, slope], ...]]
"""
import copy

import numpy as np

import pandapower as pp
from pandapower.auxiliary import OPFNotConverged

from mc import netalpha as na

SCALE = {"D2": 1., "R3": 1., "M4": 20., "T3": 2.}
HOT = {"D2": (1,), "R3": (2, 3), "M4": (2, 3), "T3": (2, 3)}
_BASES = {}


def _mk_D2():
    """ext_grid@0 -line- 1 (fixed load 1 MW); the 2-bus net of the C17 cost enumeration."""
    net = pp.create_empty_network(sn_mva=1.)
    pp.create_bus(net, 20., name="b0")
    pp.create_bus(net, 20., name="b1")
    pp.create_ext_grid(net, 0, vm_pu=1.0, **na.EG)
    pp.create_line_from_parameters(net, 0, 1, **na.LINE)
    pp.create_load(net, 1, 1.0, 0.3)
    return net


def base(name):
    if name not in _BASES:
        net = _mk_D2() if name == "D2" else na.base(name)
        s = SCALE[name]
        # OPF needs ext_grid limits (missing columns = +-1000 TW silently): wide by default
        net.ext_grid["min_p_mw"] = -50. * s
        net.ext_grid["max_p_mw"] = 50. * s
        net.ext_grid["min_q_mvar"] = -50. * s
        net.ext_grid["max_q_mvar"] = 50. * s
        _BASES[name] = net
    return copy.deepcopy(_BASES[name])


# ----------------------------------------------------------------------------------------------
# limit alphabets
# ----------------------------------------------------------------------------------------------
def plim(kind, p, s):
    """active power limits (min, max) in the element's own sign convention"""
    a = abs(p) if p else s
    if kind == "w":        # wide, one sided
        return (0., 3. * a)
    if kind == "wn":       # wide, both signs (storage, ext_grid)
        return (-2. * a, 2. * a)
    if kind == "t":        # tight around the set-point
        return (0.8 * a, 1.1 * a) if p >= 0 else (-1.1 * a, -0.8 * a)
    if kind == "d":        # degenerate min == max, NOT the set-point
        return (0.5 * a, 0.5 * a) if p >= 0 else (-0.5 * a, -0.5 * a)
    if kind == "ds":       # degenerate at the set-point
        return (p, p)
    if kind == "x":        # limits that exclude the set-point (must be ignored for non-controllable elements)
        return (1.5 * a, 2. * a)
    if kind == "nan":
        return (np.nan, np.nan)
    raise ValueError(kind)


def qlim(kind, q, s):
    a = abs(q) + 0.5 * s
    if kind == "w":
        return (-2. * a, 2. * a)
    if kind == "t":
        return (q - 0.05 * s, q + 0.05 * s)
    if kind == "d":
        return (q + 0.1 * s, q + 0.1 * s)
    if kind == "ds":
        return (q, q)
    if kind == "x":
        return (q + 0.3 * s, q + 0.6 * s)
    if kind == "nan":
        return (np.nan, np.nan)
    raise ValueError(kind)


VLIM = {
    # kind -> per-base function bus -> (min, max); None = no columns at all
    "none": None,
    "wide": lambda b, hot: (0.9, 1.1),
    "tight": lambda b, hot: (0.97, 1.03),
    # per-bus different limits: the LAST hot bus (fused with the first on R3/T3) is tighter than its twin
    "mixed": lambda b, hot: (0.99, 1.012) if b == hot[-1] else (0.9, 1.1),
    # the FIRST hot bus (the one whose ppc bus represents a fused pair) is tighter: a limit that really binds
    "mixed0": lambda b, hot: (0.995, 1.015) if b == hot[0] else (0.9, 1.1),
    # NaN entries -> documented defaults 0 / 2
    "nan": lambda b, hot: (np.nan, np.nan) if b == hot[0] else (0.95, 1.05),
}

# branch limit alphabets: kind -> base -> list of (table, index, max_loading_percent, df)
# one limited branch per base carries a derating factor df != 1 (the rating then is max_i_ka * df resp. sn_mva * df)
BLIM = {
    "none": {},
    "bind": {"D2": [("line", 0, 9., 1.)], "R3": [("line", 0, 15., 0.6), ("line", 1, 6., 1.)],
             "M4": [("line", 0, 23.3, 0.6), ("line", 4, 12., 1.)], "T3": [("trafo", 0, 27.5, 0.8), ("line", 0, 30., 1.)]},
    # only the first branch limited, the others NaN (no limit)
    "bind1": {"D2": [("line", 0, 9., 1.)], "R3": [("line", 1, 6., 1.)], "M4": [("line", 4, 12., 1.)],
              "T3": [("trafo", 0, 22., 1.)]},
}


# ----------------------------------------------------------------------------------------------
# building
# ----------------------------------------------------------------------------------------------
def apply_elem(net, d, s, where):
    """apply one element deviation; appends (table, index) of a created element to `where`"""
    k = d[0]
    if k == "gen":
        _, bus, p, vm, pl, ql, ctrl = d
        lo, hi = plim(pl, p, s)
        qlo, qhi = qlim(ql, 0., s)
        i = pp.create_gen(net, bus, p, vm_pu=vm, min_p_mw=lo, max_p_mw=hi, min_q_mvar=qlo, max_q_mvar=qhi,
                          controllable=ctrl)
        where.append(("gen", int(i)))
    elif k in ("sgen", "load", "storage"):
        _, bus, p, q, pl, ql, ctrl = d
        lo, hi = plim(pl, p, s)
        qlo, qhi = qlim(ql, q, s)
        kw = dict(min_p_mw=lo, max_p_mw=hi, min_q_mvar=qlo, max_q_mvar=qhi, controllable=ctrl)
        if k == "sgen":
            i = pp.create_sgen(net, bus, p, q, **kw)
        elif k == "load":
            i = pp.create_load(net, bus, p, q, **kw)
        else:
            i = pp.create_storage(net, bus, p, 10. * s, q_mvar=q, **kw)
        where.append((k, int(i)))
    elif k == "dcline":
        _, fb, tb, p, lp, lmw, maxp, ql = d[:8]
        qlo, qhi = qlim(ql, 0., s)
        tlo, thi = qlim(d[8], 0., s) if len(d) > 8 else (qlo, qhi)     # optional 9th item: q-limit kind of the to side
        i = pp.create_dcline(net, fb, tb, p, lp, lmw, 1.01, 1.0, max_p_mw=maxp, min_q_from_mvar=qlo,
                             max_q_from_mvar=qhi, min_q_to_mvar=tlo, max_q_to_mvar=thi)
        where.append(("dcline", int(i)))
    elif k == "eg":
        _, pl, ql, ctrl = d
        lo, hi = plim(pl, 3. * s, s)
        qlo, qhi = qlim(ql, 0., s)
        net.ext_grid.at[0, "min_p_mw"], net.ext_grid.at[0, "max_p_mw"] = lo, hi
        net.ext_grid.at[0, "min_q_mvar"], net.ext_grid.at[0, "max_q_mvar"] = qlo, qhi
        if ctrl != "nocol":
            net.ext_grid["controllable"] = bool(ctrl)
        where.append(("ext_grid", 0))
    elif k == "gvm":
        _, kk, lo, hi = d
        tab, i = where[kk]
        if "min_vm_pu" not in net.gen:
            net.gen["min_vm_pu"] = np.nan
            net.gen["max_vm_pu"] = np.nan
        net.gen.at[i, "min_vm_pu"], net.gen.at[i, "max_vm_pu"] = lo, hi
        where.append(None)
    elif k == "oos":
        tab, i = where[d[1]]
        net[tab].at[i, "in_service"] = False
        where.append(None)
    elif k == "scal":
        tab, i = where[d[1]]
        net[tab].at[i, "scaling"] = d[2]
        where.append(None)
    else:
        na.apply_dev(net, d)
        where.append(None)


def apply_cost(net, c, where):
    kind, k = c[0], c[1]
    tab, i = ("ext_grid", 0) if k == "eg" else where[k]
    if kind == "poly":
        _, _, cp1, cp0, cp2, cq1, cq0, cq2 = c
        pp.create_poly_cost(net, i, tab, cp1_eur_per_mw=cp1, cp0_eur=cp0, cp2_eur_per_mw2=cp2,
                            cq1_eur_per_mvar=cq1, cq0_eur=cq0, cq2_eur_per_mvar2=cq2)
    elif kind == "pwl":
        _, _, ptype, pts = c
        pp.create_pwl_cost(net, i, tab, [list(map(float, x)) for x in pts], power_type=ptype)
    else:
        raise ValueError(c)


def build(case):
    """returns (net, where): where[k] = (table, index) of the k-th element deviation"""
    b = case["base"]
    s = SCALE[b]
    net = base(b)
    where = []
    for d in case.get("elems", ()):
        apply_elem(net, d, s, where)
    vk = case.get("vlim", "wide")
    f = VLIM[vk]
    if f is not None:
        lims = [f(int(bb), HOT[b]) for bb in net.bus.index]
        net.bus["min_vm_pu"] = [x[0] for x in lims]
        net.bus["max_vm_pu"] = [x[1] for x in lims]
    for tab, i, ml, df in BLIM[case.get("blim", "none")].get(b, ()):
        if "max_loading_percent" not in net[tab]:
            net[tab]["max_loading_percent"] = np.nan
        net[tab].at[i, "max_loading_percent"] = ml
        net[tab].at[i, "df"] = df
    for c in case.get("costs", ()):
        apply_cost(net, c, where)
    return net, where


def run_opf(net, mode, **kw):
    """returns outcome string: 'ok' or the exception class name"""
    try:
        if mode == "dc":
            pp.rundcopp(net, **kw)
        else:
            pp.runopp(net, **kw)
    except OPFNotConverged:
        return "OPFNotConverged"
    except Exception as e:  # natural refusals are outcomes
        return type(e).__name__
    if not net.get("OPF_converged", False):
        return "not_converged"
    return "ok"


# ----------------------------------------------------------------------------------------------
# result access in the element's own sign convention
# ----------------------------------------------------------------------------------------------
def own_power(net, tab, i, which="p"):
    """the element's own reported power (load/storage: consumption positive; dcline: active power drawn at the
    from bus; dcline reactive power in the convention of its own q limits min/max_q_from_mvar, i.e. the injection
    of the from-side converter = -res_dcline.q_from_mvar)"""
    if tab == "dcline":
        if which == "q":
            return -float(net.res_dcline.at[i, "q_from_mvar"])
        col = "p_from_mw"
    else:
        col = "p_mw" if which == "p" else "q_mvar"
    return float(net["res_" + tab].at[i, col])


def is_controllable(net, tab, i):
    if tab in ("ext_grid", "dcline"):
        return True
    if tab == "gen":
        return bool(net.gen.at[i, "controllable"]) if "controllable" in net.gen else True
    if "controllable" not in net[tab]:
        return False
    v = net[tab].at[i, "controllable"]
    return bool(v) if v == v else False

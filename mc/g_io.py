"""C20: the save/load round trips (real public API) and the net-level oracle built on mc/g_netcmp."""
import io
import os
import shutil
import tempfile

import numpy as np
import pandas as pd

import pandapower as pp
from pandapower import io_utils

from mc.g_netcmp import Cmp

FORMATS = ["json_str", "json_file", "json_buf", "json_enc", "pickle_file", "pickle_buf", "excel", "sqlite"]
# save/load SEQUENCES and non-default options of the same functions
SEQ_FORMATS = ["json_sorted", "json_noindent", "json_partial", "json_partial_sorted", "json_partial_drop", "json_twice", "pickle_twice",
               "json_then_pickle", "pickle_then_json"]
PARTIAL = ["bus", "load", "controller"]
FULL_FIDELITY = ("json_str", "json_file", "json_buf", "json_enc", "pickle_file", "pickle_buf")
TEXT = ("json_str", "json_file", "json_buf", "json_enc", "excel", "sqlite")


class Unavailable(Exception):
    pass


def roundtrip(net, fmt):
    """save + load through the public API; temp files live in a private directory under /tmp that is removed"""
    if fmt == "json_str":
        return pp.from_json_string(pp.to_json(net))
    if fmt == "json_sorted":
        return pp.from_json_string(pp.to_json(net, sort_keys=True))
    if fmt == "json_noindent":
        return pp.from_json_string(pp.to_json(net, indent=None))
    if fmt in ("json_partial", "json_partial_sorted"):
        # save -> load only some tables (the rest stays serialized, keep_serialized_elements=True) -> save that -> load
        s1 = pp.to_json(net, sort_keys=fmt.endswith("sorted"))
        part = pp.from_json_string(s1, elements_to_deserialize=list(PARTIAL))
        return pp.from_json_string(pp.to_json(part))
    if fmt == "json_partial_drop":
        # keep_serialized_elements=False: the tables that were asked for must be complete
        return pp.from_json_string(pp.to_json(net), elements_to_deserialize=list(PARTIAL), keep_serialized_elements=False)
    if fmt == "json_twice":
        return pp.from_json_string(pp.to_json(pp.from_json_string(pp.to_json(net))))
    if fmt == "pickle_twice":
        return roundtrip(roundtrip(net, "pickle_file"), "pickle_file")
    if fmt == "json_then_pickle":
        return roundtrip(roundtrip(net, "json_str"), "pickle_file")
    if fmt == "pickle_then_json":
        return roundtrip(roundtrip(net, "pickle_file"), "json_str")
    if fmt == "json_buf":
        buf = io.StringIO()
        pp.to_json(net, buf)
        buf.seek(0)
        return pp.from_json(buf)
    if fmt == "json_enc":
        if not io_utils.cryptography_INSTALLED:
            raise Unavailable("cryptography")
        s = pp.to_json(net, encryption_key="verif-key")
        return pp.from_json_string(s, encryption_key="verif-key")
    if fmt == "pickle_buf":
        buf = io.BytesIO()
        pp.to_pickle(net, buf)
        buf.seek(0)
        return pp.from_pickle(buf)
    d = tempfile.mkdtemp(prefix="c20_", dir="/tmp")
    try:
        if fmt == "json_file":
            p = os.path.join(d, "n.json")
            pp.to_json(net, p)
            return pp.from_json(p)
        if fmt == "pickle_file":
            p = os.path.join(d, "n.p")
            pp.to_pickle(net, p)
            return pp.from_pickle(p)
        if fmt == "excel":
            from pandapower import file_io
            if not (file_io.xlsxwriter_INSTALLED and file_io.openpyxl_INSTALLED):
                raise Unavailable("xlsxwriter/openpyxl")
            p = os.path.join(d, "n.xlsx")
            pp.to_excel(net, p)
            return pp.from_excel(p)
        if fmt == "sqlite":
            p = os.path.join(d, "n.sqlite")
            pp.to_sqlite(net, p)
            return pp.from_sqlite(p)
    finally:
        shutil.rmtree(d, ignore_errors=True)
    raise ValueError(fmt)


def public_keys(net):
    return [k for k in net.keys() if not k.startswith("_")]


def compare_full(a, b, fmt, only=None):
    """to_json / to_pickle clause of the statement: everything equal"""
    c = Cmp(ftol=0.0 if (fmt.startswith("pickle") and "json" not in fmt) else 1e-14)
    ka, kb = public_keys(a), public_keys(b)
    if only is not None:
        ka, kb = [k for k in ka if k in only], [k for k in kb if k in only]
    if sorted(ka) != sorted(kb):
        c.add("tables", "net.keys", sorted(set(ka) - set(kb)), sorted(set(kb) - set(ka)))
    for k in ka:
        if k not in b:
            continue
        va, vb = a[k], b[k]
        if isinstance(va, pd.DataFrame):
            if not isinstance(vb, pd.DataFrame):
                c.add("tables", k, "DataFrame", type(vb).__name__)
                continue
            if type(va).__name__ != type(vb).__name__:
                c.add("tables", k + ".class", type(va).__name__, type(vb).__name__)
            c.frame(va, vb, k)
        elif k == "std_types":
            c.scalar(va, vb, k, clause="std_types")
        elif k == "user_pf_options":
            c.scalar(va, vb, k, clause="options")
        else:
            c.scalar(va, vb, k, clause="attribute")
    for d in c.diffs:
        w = d["where"]
        if w.startswith("controller.object"):
            d["clause"] = "controller"
        elif w.startswith("characteristic.object"):
            d["clause"] = "characteristic"
        elif w.startswith("group"):
            d["clause"] = "group:" + d["clause"]
    return c


# --------------------------------------------------------------------------------------------------------
# Excel / SQLite clause: element data those formats can represent
# --------------------------------------------------------------------------------------------------------
NOT_ELEMENT_TABLES = ("controller", "characteristic", "group")       # python objects / list cells: JSON + pickle only
PANDAS_NA_STRINGS = {"", "#N/A", "#N/A N/A", "#NA", "-1.#IND", "-1.#QNAN", "-NaN", "-nan", "1.#IND", "1.#QNAN", "<NA>", "N/A", "NA",
                     "NULL", "NaN", "None", "n/a", "nan", "null"}
NUMPY_DTYPES = ("float64", "int64", "uint32", "bool", "object")


def representable(fmt, v):
    """can the storage format itself hold this cell value (xlsx cell / SQLite column value)?"""
    if v is None or v is pd.NA:
        return True                                   # empty cell / NULL
    if isinstance(v, (bool, np.bool_)):
        return True
    if isinstance(v, (int, np.integer)):
        return abs(int(v)) <= 2 ** 53 if fmt == "excel" else -2 ** 63 <= int(v) < 2 ** 63
    if isinstance(v, (float, np.floating)):
        if np.isnan(v):
            return True                               # missing
        if np.isinf(v):
            return fmt == "sqlite"                    # xlsx has no infinity; SQLite REAL has
        if fmt == "excel":
            try:                                      # xlsxwriter stores numbers as '%.16G' text: beyond double range after rounding
                return not np.isinf(float("%.16G" % v))
            except OverflowError:
                return False
        return True
    if isinstance(v, str):
        if fmt == "excel":
            return 0 < len(v) <= 32767                # the empty string is the empty cell
        return True
    return False                                      # lists, dicts, python objects, timestamps, ...


def compare_elements(a, b, fmt):
    c = Cmp(ftol=1e-14)
    skipped = 0
    for k in public_keys(a):
        va = a[k]
        if not isinstance(va, pd.DataFrame) or k.startswith("res_") or k in NOT_ELEMENT_TABLES:
            continue
        if k not in b or not isinstance(b[k], pd.DataFrame):
            if len(va):
                c.add("tables", k, "DataFrame[%d rows]" % len(va), type(b.get(k)).__name__ if k in b else "<absent>")
            continue
        vb = b[k]
        if not len(va) and not len(vb):
            continue
        cols = [col for col in va.columns if str(va[col].dtype) in NUMPY_DTYPES and isinstance(col, str)]
        skipped += len(va.columns) - len(cols)
        # the name of an index is not element data (from_dict_of_dfs deliberately resets it to the default of the table)
        c.frame(va, vb, k, only_columns=cols, cell_filter=lambda col, x, _f=fmt: representable(_f, x), index_name=False)
    return c


# --------------------------------------------------------------------------------------------------------
# calculation results
# --------------------------------------------------------------------------------------------------------
DC_TABLES = ("bus_dc", "line_dc", "vsc", "b2b_vsc", "bi_vsc", "source_dc", "load_dc")


def pf_view(net):
    """copy on which runpp is executed: the (out of service) DC grid specimens are removed - the power flow of
    the current tree cannot number out-of-service DC buses; the same view is taken of original and loaded net"""
    import copy
    n = copy.deepcopy(net)
    for t in DC_TABLES:
        if t in n and isinstance(n[t], pd.DataFrame) and len(n[t]):
            n[t] = n[t].iloc[0:0]
        rt = "res_" + t
        if rt in n and isinstance(n[rt], pd.DataFrame) and len(n[rt]):
            n[rt] = n[rt].iloc[0:0]
    return n


def run_pf(net):
    try:
        pp.runpp(net)
    except Exception as e:
        return type(e).__name__
    return "ok" if net.converged else "not_converged"


def compare_results(a, b, fmt):
    """a, b: pf views after run_pf with the same outcome 'ok'"""
    c = Cmp(ftol=0.0 if (fmt.startswith("pickle") and "json" not in fmt) else 1e-9)
    for k in a.keys():
        if k.startswith("res_") and isinstance(a[k], pd.DataFrame):
            if k not in b:
                c.add("results", k, "present", "absent")
                continue
            c.frame(a[k], b[k], k, dtypes=False, index_name=fmt not in ("excel", "sqlite"))
    for d in c.diffs:
        d["clause"] = "results"
    return c

"""Helpers of check C33 (agentK): area / q-model alphabets and an independent reference for the reactive power
flexibility of every capability area in pandapower/control/controller/DERController/PQVAreas.py.

The reference is written from the documented shapes (the vertex lists / VDE-AR-N figures the classes quote) with plain
Python: closed polygons are sliced with own line/edge arithmetic (no shapely), piecewise linear limits are interpolated
by hand.  It does NOT call q_flexibility / in_area of the classes under test.
A reference range is (lo, hi) in p.u. of sn_mva, or None when the documented area contains no point at that p / vm
(then the clause is not judged: 'reactive flexibility' is empty).
"""
import math

import numpy as np

EPS_KV = 1e-3


# ----------------------------------------------------------------------------------------------
# geometry
# ----------------------------------------------------------------------------------------------
def poly_slice(points, x0):
    """{y : (x0, y) in the closed polygon} for polygons whose vertical slices are intervals -> (lo, hi) or None"""
    ys = []
    pts = list(points)
    if pts[0] != pts[-1]:
        pts.append(pts[0])
    for (x1, y1), (x2, y2) in zip(pts[:-1], pts[1:]):
        if x1 == x2:
            if x0 == x1:
                ys += [y1, y2]
        elif min(x1, x2) <= x0 <= max(x1, x2):
            ys.append(y1 + (y2 - y1) * (x0 - x1) / (x2 - x1))
    if not ys:
        return None
    return (min(ys), max(ys))


def pw_linear(xs, ys, x):
    """piecewise linear through (xs, ys), constant outside"""
    if x <= xs[0]:
        return ys[0]
    if x >= xs[-1]:
        return ys[-1]
    for i in range(len(xs) - 1):
        if xs[i] <= x <= xs[i + 1]:
            if xs[i + 1] == xs[i]:
                return ys[i + 1]
            return ys[i] + (ys[i + 1] - ys[i]) * (x - xs[i]) / (xs[i + 1] - xs[i])
    return ys[-1]


def intersect(a, b):
    if a is None or b is None:
        return None
    lo, hi = max(a[0], b[0]), min(a[1], b[1])
    if lo > hi + 1e-12:
        return None
    return (lo, max(lo, hi))


# ----------------------------------------------------------------------------------------------
# documented shapes
# ----------------------------------------------------------------------------------------------
Q4120 = {1: (-0.227902, 0.484322), 2: (-0.328684, 0.410775), 3: (-0.410775, 0.328684)}   # (min_q, max_q) of variants 1-3

PQ4110 = list(zip((-1e-7, 0.05, 0.05, 1., 1., 0.05, 0.05, 1e-7, -1e-7),
                  (-1e-7, -1e-7, -0.01961505, -0.484322, 0.484322, 0.01961505, 0., 1e-7, -1e-7)))
QV4110 = list(zip((0.9, 0.95, 1.1, 1.1, 1.05, 0.9, 0.9), (0., -0.484322, -0.484322, 0., 0.484322, 0.484322, 0.)))
PQ4105 = {1: list(zip((0., 1, 1, 0.), (0., -0.328684, 0.328684, 0.))), 2: list(zip((0., 1, 1, 0.), (0., -0.484322, 0.484322, 0.)))}
QV4105 = {1: list(zip((0.9, 0.95, 1.1, 1.1, 1.05, 0.9, 0.9), (0., -0.328684, -0.328684, 0., 0.328684, 0.328684, 0.))),
          2: list(zip((0.9, 0.95, 1.1, 1.1, 1.05, 0.9, 0.9), (0., -0.484322, -0.484322, 0., 0.484322, 0.484322, 0.)))}
# docstring example of the POLYGON classes
POLY_P = (0.1, 0.2, 1, 1, 0.2, 0.1, 0.1)
POLY_Q = (0.1, 0.410775, 0.410775, -0.328684, -0.328684, -0.1, 0.1)
POLY_VM = (0.9, 1.05, 1.1, 1.1, 1.05, 0.9, 0.9)


def ref_pq4120(p, min_q, max_q, version=2018, q_max_under=0.):
    p0 = {2015: 0.1, 2018: 0.05}[version]
    p1 = 0.2
    if p < p0:
        return (-0.05, q_max_under)
    if p < p1:
        f = (p - p0) / (p1 - p0)
        return (-0.1 + f * (min_q + 0.1), 0.1 + f * (max_q - 0.1))
    return (min_q, max_q)


def ref_qv4120(vm, min_q, max_q):
    vmax, vmin, d = 127.0 / 110, 96.0 / 110, 7.0 / 110
    lf = (max_q - min_q) / d
    if vm <= vmin:
        return (max_q, max_q)
    if vm <= vmin + d:
        return (max_q - lf * (vm - vmin), max_q)
    if vm <= vmax - d:
        return (min_q, max_q)
    if vm <= vmax:
        return (min_q, min_q + lf * (vmax - vm))
    return (min_q, min_q)


def ref_qv4130(vm, min_q, max_q, variant, vn_kv):
    kv = {380: {350: 350., 380: 380., 400: 400., 410: 410., 420: 420., 440: 440.},
          220: {350: 193., 380: 220., 400: 233.5, 410: 240., 420: 245., 440: 253.}}[vn_kv]
    v = vm * vn_kv
    s95 = math.sin(math.acos(0.95))
    if variant == 1:
        lo = pw_linear([kv[350] - EPS_KV, kv[350], kv[380], kv[400]], [max_q, max_q * s95 / math.sin(math.acos(0.9)), 0., min_q], v)
        hi = pw_linear([kv[420], kv[440]], [max_q, min_q], v)
    elif variant == 2:
        lo = pw_linear([kv[350] - EPS_KV, kv[350], kv[380], kv[410]], [max_q, max_q * s95 / math.sin(math.acos(0.925)), 0., min_q], v)
        hi = pw_linear([kv[420], kv[440], kv[440] + EPS_KV], [max_q, 0., min_q], v)
    else:
        lo = pw_linear([kv[350], kv[380]], [max_q, min_q], v)
        hi = pw_linear([kv[420], kv[440], kv[440] + EPS_KV], [max_q, 0., min_q], v)
    if lo > hi + 1e-12:
        return None
    return (lo, max(lo, hi))


# ----------------------------------------------------------------------------------------------
# area alphabet: key -> (constructor of the real object, reference function (p_pu, vm_pu) -> range)
# ----------------------------------------------------------------------------------------------
def area_keys():
    keys = ["none", "statcom", "pq_polygon", "qv_polygon", "pqv_polygon"]
    for v in (1, 2, 3):
        keys.append("pqv4120v%d" % v)
    keys += ["pqv4120v2_2015", "pq4120", "qv4120"]
    for v in (1, 2, 3):
        keys.append("pqv4130v%d" % v)
    keys += ["pqv4130v1_220", "pqv4130v3_220", "pq4130", "qv4130v1", "qv4130v3"]
    keys += ["pqv4110", "pq4110", "qv4110", "pqv4105v1", "pqv4105v2", "pq4105v1", "qv4105v2"]
    return keys


def make_area(key, raise_merge_overlap=True):
    from pandapower.control.controller.DERController import PQVAreas as A
    r = raise_merge_overlap
    if key == "none":
        return None
    if key == "statcom":
        return A.PQAreaSTATCOM(min_q_pu=-0.328684, max_q_pu=0.410775)
    if key == "pq_polygon":
        return A.PQAreaPOLYGON(POLY_P, POLY_Q)
    if key == "qv_polygon":
        return A.QVAreaPOLYGON(POLY_Q, POLY_VM)
    if key == "pqv_polygon":
        return A.PQVAreaPOLYGON(POLY_P, POLY_Q, POLY_Q, POLY_VM, raise_merge_overlap=r)
    if key.startswith("pqv4120v"):
        v = int(key[8])
        ver = 2015 if key.endswith("_2015") else 2018
        return {1: A.PQVArea4120V1, 2: A.PQVArea4120V2, 3: A.PQVArea4120V3}[v](version=ver, raise_merge_overlap=r)
    if key == "pq4120":
        return A.PQArea4120(*Q4120[2])
    if key == "qv4120":
        return A.QVArea4120(*Q4120[2])
    if key.startswith("pqv4130v"):
        v = int(key[8])
        kv = 220 if key.endswith("_220") else 380
        return {1: A.PQVArea4130V1, 2: A.PQVArea4130V2, 3: A.PQVArea4130V3}[v](vn_kv=kv, raise_merge_overlap=r)
    if key == "pq4130":
        return A.PQArea4130(*Q4120[1])
    if key.startswith("qv4130v"):
        v = int(key[7])
        return A.QVArea4130(*Q4120[v], vn_kv=380, variant=v)
    if key == "pqv4110":
        return A.PQVArea4110(raise_merge_overlap=r)
    if key == "pq4110":
        return A.PQArea4110()
    if key == "qv4110":
        return A.QVArea4110()
    if key.startswith("pqv4105v"):
        return A.PQVArea4105(int(key[8]), raise_merge_overlap=r)
    if key.startswith("pq4105v"):
        return A.PQArea4105(int(key[7]))
    if key.startswith("qv4105v"):
        return A.QVArea4105(int(key[7]))
    raise KeyError(key)


def ref_range(key, p, vm):
    """documented q range (p.u.) of area `key` at active power p (p.u.) and voltage vm (p.u.)"""
    if key == "none":
        return (-math.inf, math.inf)
    if key == "statcom":
        return (-0.328684, 0.410775)
    if key == "pq_polygon":
        return poly_slice(list(zip(POLY_P, POLY_Q)), p)
    if key == "qv_polygon":
        return poly_slice(list(zip(POLY_VM, POLY_Q)), vm)
    if key == "pqv_polygon":
        return intersect(poly_slice(list(zip(POLY_P, POLY_Q)), p), poly_slice(list(zip(POLY_VM, POLY_Q)), vm))
    if key.startswith("pqv4120v"):
        v = int(key[8])
        ver = 2015 if key.endswith("_2015") else 2018
        return intersect(ref_pq4120(p, *Q4120[v], version=ver), ref_qv4120(vm, *Q4120[v]))
    if key == "pq4120":
        return ref_pq4120(p, *Q4120[2])
    if key == "qv4120":
        return ref_qv4120(vm, *Q4120[2])
    if key.startswith("pqv4130v"):
        v = int(key[8])
        kv = 220 if key.endswith("_220") else 380
        return intersect(ref_pq4120(p, *Q4120[v], q_max_under=0.05), ref_qv4130(vm, *Q4120[v], variant=v, vn_kv=kv))
    if key == "pq4130":
        return ref_pq4120(p, *Q4120[1], q_max_under=0.05)
    if key.startswith("qv4130v"):
        v = int(key[7])
        return ref_qv4130(vm, *Q4120[v], variant=v, vn_kv=380)
    if key == "pqv4110":
        return intersect(poly_slice(PQ4110, p), poly_slice(QV4110, vm))
    if key == "pq4110":
        return poly_slice(PQ4110, p)
    if key == "qv4110":
        return poly_slice(QV4110, vm)
    if key.startswith("pqv4105v"):
        v = int(key[8])
        return intersect(poly_slice(PQ4105[v], p), poly_slice(QV4105[v], vm))
    if key.startswith("pq4105v"):
        return poly_slice(PQ4105[int(key[7])], p)
    if key.startswith("qv4105v"):
        return poly_slice(QV4105[int(key[7])], vm)
    raise KeyError(key)


# ----------------------------------------------------------------------------------------------
# q-model alphabet
# ----------------------------------------------------------------------------------------------
def qmodel_keys():
    return ["none", "const_q_0.3", "const_q_-1.0", "cosphi_p_0.9", "cosphi_p_-0.9", "cosphi_pq_0.95", "cosphi_sn_0.2",
            "cosphi_p_curve", "cosphi_v_curve", "qv_curve"]


def make_qmodel(key):
    from pandapower.control.controller.DERController import QModels as Q
    if key == "none":
        return None
    if key.startswith("const_q_"):
        return Q.QModelConstQ(float(key[8:]))
    if key.startswith("cosphi_p_") and key != "cosphi_p_curve":
        return Q.QModelCosphiP(float(key[9:]))
    if key.startswith("cosphi_pq_"):
        return Q.QModelCosphiPQ(float(key[10:]))
    if key.startswith("cosphi_sn_"):
        return Q.QModelCosphiSn(float(key[10:]))
    if key == "cosphi_p_curve":
        return Q.QModelCosphiPCurve({"p_points_pu": (0, 0.5, 1), "cosphi_points": (1, 1, -0.9)})
    if key == "cosphi_v_curve":
        return Q.QModelCosphiVCurve({"vm_points_pu": (0, 0.96, 1., 1.04), "cosphi_points": (0.9, 0.9, 1, -0.9)})
    if key == "qv_curve":
        return Q.QModelQVCurve({"vm_points_pu": (0, 0.93, 0.97, 1.03, 1.07, 2), "q_points_pu": (0.45, 0.45, 0., 0., -0.45, -0.45)})
    raise KeyError(key)


# ----------------------------------------------------------------------------------------------
# grids
# ----------------------------------------------------------------------------------------------
SN = [1.0, 2.0]
P_PU = [0.0, 0.03, 0.05, 0.12, 0.2, 0.6, 1.0]
Q_PU = [-1.2, -0.45, -0.2, 0.0, 0.2, 0.45, 1.2]
Q_PU_SHORT = [0.0, 1.2]
VM = [0.85, 96.0 / 110, 0.93, 1.0, 1.07, 127.0 / 110, 1.2]
VM_EXTRA = [0.9, 0.95, 103.0 / 110, 1.05, 120.0 / 110, 1.1, 350.0 / 380, 400.0 / 380, 420.0 / 380, 440.0 / 380]
SAT = ["nan", 0.8, 1.0]      # factor of sn_mva


def base_net(vms):
    """one bus per voltage value (res_bus.vm_pu is written directly = narrow seam); sgens are added per case"""
    import pandapower as pp
    net = pp.create_empty_network()
    pp.create_buses(net, len(vms) + 1, 20.)
    pp.create_ext_grid(net, 0)
    return net


def fmt(x):
    return "nan" if (isinstance(x, float) and math.isnan(x)) else x

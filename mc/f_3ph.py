"""agentF helpers for C11: three-phase base nets / deviation kinds and per-phase bookkeeping on the res_*_3ph tables
(the per-phase analogue of mc/balance.py: no reference model, only sums of reported powers)."""
import copy
import itertools

import numpy as np

import pandapower as pp
from pandapower.pf.runpp_3ph import runpp_3ph

from mc import netalpha as na
from mc.balance import fused_nodes

BASES = ["R3", "T3"]
PH = ("a", "b", "c")


def apply_dev(net, d):
    k = d[0]
    if k == "sym_load":       # [k, bus, p, q, type, scaling, in_service]
        _, bus, p, q, typ, sc, ins = d
        pp.create_load(net, bus, p, q, type=typ, scaling=sc, in_service=ins)
    elif k == "sym_sgen":
        _, bus, p, q, typ, sc, ins = d
        pp.create_sgen(net, bus, p, q, type=typ, scaling=sc, in_service=ins)
    elif k == "asym_load":    # [k, bus, [pa,pb,pc], [qa,qb,qc], type, scaling, in_service]
        _, bus, p, q, typ, sc, ins = d
        pp.create_asymmetric_load(net, bus, p_a_mw=p[0], p_b_mw=p[1], p_c_mw=p[2], q_a_mvar=q[0], q_b_mvar=q[1], q_c_mvar=q[2],
                                  type=typ, scaling=sc, in_service=ins)
    elif k == "asym_sgen":
        _, bus, p, q, typ, sc, ins = d
        pp.create_asymmetric_sgen(net, bus, p_a_mw=p[0], p_b_mw=p[1], p_c_mw=p[2], q_a_mvar=q[0], q_b_mvar=q[1], q_c_mvar=q[2],
                                  type=typ, scaling=sc, in_service=ins)
    else:
        na.apply_dev(net, d)


def build(case):
    net = na.base(case["base"])
    for d in case.get("devs", ()):
        apply_dev(net, d)
    return net


def sym_menu(b, tier="quick"):
    """symmetric loads/sgens + structure deviations (every element kind runpp_3ph documents as supported)"""
    m = [["sym_load", 2, 1.5, 0.5, "wye", 1., True],
         ["sym_load", 2, 0.9, 0.3, "delta", 1., True],
         ["sym_load", 3, 0.6, -0.2, "wye", 0.5, True],
         ["sym_load", 2, 1.0, 0.2, "wye", 1., False],
         ["sym_load", 1, 0.5, 0.1, "delta", 1., True],
         ["sym_sgen", 2, 0.8, -0.2, "wye", 1., True],
         ["sym_sgen", 2, 0.5, 0.1, "delta", 1., True],
         ["sym_sgen", 3, 0.4, 0., "wye", 0.5, True],
         ["set", "load", 0, "type", "delta"],
         ["set", "switch", 0, "closed", False],
         ["set", "line", 1 if b == "R3" else 0, "parallel", 2],
         ["sn", 100.],
         ["ext_grid", 2, 1.0, 0., True],
         ["sym_load", 0, 0.7, 0.2, "delta", 1., True]]
    if b == "R3":
        m += [["line", 0, 2, 1, True], ["swapline", 1], ["set", "switch", 1, "closed", False]]
    if b == "T3":
        m += [["set", "trafo", 0, "vector_group", "YNyn"], ["set", "trafo", 0, "vector_group", "Yzn"],
              ["set", "trafo", 0, "shift_degree", 150.], ["set", "trafo", 0, "tap_pos", 2], ["set", "trafo", 0, "parallel", 2]]
    if tier == "thorough":
        m += [["sym_sgen", 1, 0.3, 0.1, "wye", 1., False], ["sym_load", 3, 0.4, 0.1, "delta", 0.5, True], ["bus", 2, True]]
        if b == "T3":
            m += [["set", "trafo", 0, "tap_side", "lv"], ["set", "trafo", 0, "vn_lv_kv", 21.], ["trafo", 0, 1]]
    return m


VALS = (0., 0.1, 0.3)


def asym_menu(tier="quick"):
    """asymmetric loads / sgens at the collision bus with phase powers from {0, 0.1, 0.3}"""
    m = []
    trip = [list(t) for t in itertools.product(VALS, repeat=3)]
    for p in trip:
        for q in ([0., 0., 0.], [0.1, 0.3, 0.]):
            m.append(["asym_load", 2, p, q, "wye", 1., True])
    for p in trip:
        m.append(["asym_sgen", 2, p, [0., 0.1, 0.], "wye", 1., True])
    m += [["asym_load", 3, [0.3, 0., 0.1], [0., 0.1, 0.3], "wye", 0.5, True],
          ["asym_load", 2, [0.3, 0.1, 0.], [0.1, 0., 0.], "wye", 1., False],
          ["asym_sgen", 3, [0., 0.3, 0.1], [0., 0., 0.1], "wye", 0.5, True],
          ["asym_load", 2, [0.3, 0.1, 0.], [0.1, 0., 0.3], "delta", 1., True],
          ["asym_load", 2, [0.1, 0.1, 0.1], [0.3, 0.3, 0.3], "delta", 1., True],
          ["asym_sgen", 2, [0.1, 0., 0.3], [0., 0., 0.], "delta", 1., True],
          ["asym_load", 2, [0., 0.3, 0.1], [0.1, 0.1, 0.], "delta", 0.5, True],
          # elements directly at the bus of the base ext_grid (wye / delta)
          ["asym_load", 0, [0.3, 0.1, 0.], [0.1, 0., 0.3], "delta", 1., True],
          ["asym_load", 0, [0.1, 0., 0.3], [0., 0.1, 0.], "wye", 0.5, True],
          ["asym_sgen", 0, [0., 0.3, 0.1], [0., 0., 0.1], "delta", 1., True]]
    return m


def is_symmetric_dev(d):
    if d[0] in ("asym_load", "asym_sgen"):
        return len(set(d[2])) == 1 and len(set(d[3])) == 1
    return True


def run_3ph(net, **kw):
    try:
        runpp_3ph(net, **kw)
    except Exception as e:   # unsupported configurations / non-convergence are outcomes
        return type(e).__name__
    return "ok" if net.get("converged") else "not_converged"


# element table -> sign of consumption
SYM = {"load": +1, "sgen": -1}
ASYM = {"asymmetric_load": +1, "asymmetric_sgen": -1}
BR = {"line": (("from_bus", "from"), ("to_bus", "to")), "trafo": (("hv_bus", "hv"), ("lv_bus", "lv"))}


def _delta_to_phase(net, b, s_ll):
    """phase-to-earth powers [a,b,c] (MVA) of a delta-connected element with line-to-line branch powers s_ll = [S_ab, S_bc, S_ca],
    evaluated at the REPORTED phase voltages of bus b (certificate: S_ab = V_ab conj(I_ab), I_a = I_ab - I_ca ...)."""
    r = net.res_bus_3ph
    k = float(net.bus.at[b, "vn_kv"]) / np.sqrt(3.)
    v = [k * float(r.at[b, "vm_%s_pu" % ph]) * np.exp(1j * np.deg2rad(float(r.at[b, "va_%s_degree" % ph]))) for ph in PH]
    if not all(np.isfinite(x) for x in v):
        return None
    vll = [v[0] - v[1], v[1] - v[2], v[2] - v[0]]
    ill = [np.conj(s_ll[i] / vll[i]) if s_ll[i] != 0 else 0j for i in range(3)]
    ip = [ill[0] - ill[2], ill[1] - ill[0], ill[2] - ill[1]]
    return [v[i] * np.conj(ip[i]) for i in range(3)]


def phase_sums(net):
    """per fused node and phase: complex consumption of bus elements (from res_*_3ph) and complex branch outflow.
    Returns acc[node] = dict(elem=[3 complex], branch=[3 complex], buses=set, delta=bool), perbus[bus] = [3 complex].
    delta: an in-service delta-connected element sits at the node.  Its table reports line-to-line branch powers (a symmetric
    delta load: total/3 per branch); for the nodal balance (elem) they are converted to phase-to-earth powers at the reported
    bus voltages, perbus keeps the table values (res_bus_3ph is the plain sum of the tables)."""
    node = fused_nodes(net)
    acc = {}
    perbus = {int(b): [0j, 0j, 0j] for b in net.bus.index}

    def slot(b):
        n = node[int(b)]
        if n not in acc:
            acc[n] = {"elem": [0j, 0j, 0j], "branch": [0j, 0j, 0j], "buses": set(), "delta": False, "kinds": set()}
        acc[n]["buses"].add(int(b))
        return acc[n]
    for b in net.bus.index:
        slot(b)
    for tab, sign in SYM.items():
        r = net.get("res_%s_3ph" % tab)
        if r is None or not len(net[tab]) or not len(r):
            continue
        for i in net[tab].index:
            b = int(net[tab].at[i, "bus"])
            p, q = float(r.at[i, "p_mw"]), float(r.at[i, "q_mvar"])
            if not (np.isfinite(p) and np.isfinite(q)):
                continue
            s = sign * complex(p, q) / 3.
            sl = slot(b)
            sl["kinds"].add(tab)
            sph = [s, s, s]
            if net[tab].at[i, "type"] == "delta" and bool(net[tab].at[i, "in_service"]):
                sl["delta"] = True
                sph = _delta_to_phase(net, b, [s, s, s]) or sph
            for k in range(3):
                sl["elem"][k] += sph[k]
                perbus[b][k] += s
    for tab, sign in ASYM.items():
        r = net.get("res_%s_3ph" % tab)
        if r is None or not len(net[tab]) or not len(r):
            continue
        for i in net[tab].index:
            b = int(net[tab].at[i, "bus"])
            sl = slot(b)
            sl["kinds"].add(tab)
            tabv = []
            for k, ph in enumerate(PH):
                p, q = float(r.at[i, "p_%s_mw" % ph]), float(r.at[i, "q_%s_mvar" % ph])
                tabv.append(sign * complex(p, q) if np.isfinite(p) and np.isfinite(q) else 0j)
            sph = tabv
            if net[tab].at[i, "type"] == "delta" and bool(net[tab].at[i, "in_service"]):
                sl["delta"] = True
                sph = _delta_to_phase(net, b, tabv) or tabv
            for k in range(3):
                sl["elem"][k] += sph[k]
                perbus[b][k] += tabv[k]
    r = net.get("res_ext_grid_3ph")
    if r is not None and len(r):
        for i in net.ext_grid.index:
            b = int(net.ext_grid.at[i, "bus"])
            sl = slot(b)
            sl["kinds"].add("ext_grid")
            for k, ph in enumerate(PH):
                p, q = float(r.at[i, "p_%s_mw" % ph]), float(r.at[i, "q_%s_mvar" % ph])
                if np.isfinite(p) and np.isfinite(q):
                    sl["elem"][k] -= complex(p, q)
                    perbus[b][k] -= complex(p, q)
    for tab, ends in BR.items():
        r = net.get("res_%s_3ph" % tab)
        if r is None or not len(net[tab]) or not len(r):
            continue
        for i in net[tab].index:
            for bc, side in ends:
                b = int(net[tab].at[i, bc])
                for k, ph in enumerate(PH):
                    p, q = float(r.at[i, "p_%s_%s_mw" % (ph, side)]), float(r.at[i, "q_%s_%s_mvar" % (ph, side)])
                    if np.isfinite(p) and np.isfinite(q):
                        slot(b)["branch"][k] += complex(p, q)
    return acc, perbus

"""C25 helpers: standard type alphabets, test nets, reference (from_parameters) construction, comparisons.

Case descriptor: {"el": "line"|"trafo"|"trafo3w"|"fuse", "type": <name>, "op": "create"|"change"|"store"|"pfst"|"fuse",
                  "other": <name of the type the element had before change_std_type>, "tap": +1|0|-1}
Generated types live in GEN (name -> data) and are registered in every net built here.
"""
import copy
import inspect
import math

import numpy as np
import pandas as pd

import pandapower as pp
import pandapower.shortcircuit as sc
from mc import i_create as ic

EG = dict(vm_pu=1.02, s_sc_max_mva=1000., rx_max=0.1, s_sc_min_mva=800., rx_min=0.1, x0x_max=1.0, r0x0_max=0.1)
TOL = 1e-9

# ---------------------------------------------------------------------------------------------------------------
# generated types: base + one optional group each (parameter alphabets incl. optional parameters)
# ---------------------------------------------------------------------------------------------------------------
_LB = {"r_ohm_per_km": 0.2, "x_ohm_per_km": 0.3, "c_nf_per_km": 200., "max_i_ka": 0.4}
_TB = {"sn_mva": 25., "vn_hv_kv": 110., "vn_lv_kv": 20., "vk_percent": 12., "vkr_percent": 0.41, "pfe_kw": 14.,
       "i0_percent": 0.07, "shift_degree": 0.}
_T3B = dict(ic.GEN_TYPES["trafo3w"]["GEN_t3_min"])
GEN = {
    "line": dict(ic.GEN_TYPES["line"], **{
        "GEN_line_g": dict(_LB, g_us_per_km=2.0, type="ol"),
        "GEN_line_alpha": dict(_LB, alpha=0.004, voltage_rating="MV", q_mm2=95),
        "GEN_line_zero_only": dict(_LB, r0_ohm_per_km=0.8, x0_ohm_per_km=1.2, c0_nf_per_km=100.),
        "GEN_line_endtemp": dict(_LB, endtemp_degree=80., type="cs"),
    }),
    "trafo": dict(ic.GEN_TYPES["trafo"], **{
        "GEN_trafo_shift": dict(_TB, shift_degree=150., vector_group="Dyn5"),
        "GEN_trafo_tap_lv": dict(_TB, tap_side="lv", tap_neutral=0, tap_min=-2, tap_max=2, tap_step_percent=2.5,
                                 tap_step_degree=0., tap_changer_type="Ratio"),
        "GEN_trafo_tap_deg": dict(_TB, tap_side="hv", tap_neutral=0, tap_min=-2, tap_max=2, tap_step_percent=1.0,
                                  tap_step_degree=3., tap_changer_type="Symmetrical"),
        "GEN_trafo_zero": dict(_TB, vector_group="Dyn", vk0_percent=11., vkr0_percent=0.4, mag0_percent=100.,
                               mag0_rx=0., si0_hv_partial=0.9),
    }),
    "trafo3w": dict(ic.GEN_TYPES["trafo3w"], **{
        "GEN_t3_shift": dict(_T3B, shift_mv_degree=30., shift_lv_degree=150.),
        "GEN_t3_tap_lv": dict(_T3B, tap_side="lv", tap_neutral=0, tap_min=-2, tap_max=2, tap_step_percent=2.0,
                              tap_changer_type="Ratio"),
    }),
    "fuse": {
        "GEN_fuse_avg": {"fuse_type": "GEN_fuse_avg", "i_rated_a": 63., "t_avg": [100., 10., 1., 0.1, 0.01],
                         "t_min": 0, "t_total": 0, "x_avg": [120., 200., 400., 800., 1600.], "x_min": 0, "x_total": 0},
        "GEN_fuse_minmax": {"fuse_type": "GEN_fuse_minmax", "i_rated_a": 25., "t_avg": 0,
                            "t_min": [10., 1., 0.1, 0.01], "t_total": [10., 1.5, 0.15, 0.01],
                            "x_min": [50., 100., 200., 400.], "x_total": [80., 150., 300., 600.], "x_avg": 0},
    },
}

_BASE = None


def base_net():
    global _BASE
    if _BASE is None:
        net = pp.create_empty_network(sn_mva=1.)
        for el, types in GEN.items():
            for name, data in types.items():
                pp.create_std_type(net, copy.deepcopy(data), name, element=el, check_required=False)
        _BASE = net
    return copy.deepcopy(_BASE)


def all_types(el):
    return sorted(base_net().std_types[el])


def is_generated(name):
    return name.startswith("GEN_")


# structural / per-element arguments of the *_from_parameters functions - never "parameters of a type"
_STRUCT = {"net", "name", "index", "geodata", "in_service", "kwargs", "from_bus", "to_bus", "hv_bus", "mv_bus", "lv_bus",
           "length_km", "df", "parallel", "max_loading_percent", "tap_pos", "tap2_pos", "temperature_degree_celsius",
           "tap_at_star_point", "tap_dependency_table", "id_characteristic_table", "oltc", "pt_percent", "xn_ohm"}
_FP = {"line": pp.create_line_from_parameters, "trafo": pp.create_transformer_from_parameters,
       "trafo3w": pp.create_transformer3w_from_parameters}
_APPL = {}


def applicable(el):
    """parameters of an element that a type can define: explicit parameters of create_<el>_from_parameters"""
    if el not in _APPL:
        _APPL[el] = [p for p in inspect.signature(_FP[el]).parameters if p not in _STRUCT]
    return _APPL[el]


def required(el):
    sig = inspect.signature(_FP[el]).parameters
    return [p for p in applicable(el) if sig[p].default is inspect.Parameter.empty]


def type_params(el, data):
    return {p: data[p] for p in applicable(el) if p in data}


# ---------------------------------------------------------------------------------------------------------------
# nets
# ---------------------------------------------------------------------------------------------------------------
def _line_env(data):
    vr = data.get("voltage_rating", "MV")
    vn, length = {"LV": (0.4, 0.2), "MV": (20., 5.), "HV": (110., 30.)}.get(vr, (20., 5.))
    p = 0.3 * math.sqrt(3) * vn * data["max_i_ka"]
    return vn, length, p


def build_line(create):
    """create(net, b0, b1, length) adds the line under test; returns net"""
    def mk(data):
        vn, length, p = _line_env(data)
        net = base_net()
        b0, b1 = pp.create_bus(net, vn), pp.create_bus(net, vn)
        pp.create_ext_grid(net, b0, **EG)
        create(net, b0, b1, length)
        pp.create_load(net, b1, p, p * 0.2)
        return net
    return mk


def build_trafo(create):
    def mk(data):
        net = base_net()
        bh, bl, b2 = pp.create_bus(net, data["vn_hv_kv"]), pp.create_bus(net, data["vn_lv_kv"]), pp.create_bus(net, data["vn_lv_kv"])
        pp.create_ext_grid(net, bh, **EG)
        create(net, bh, bl)
        s = data["sn_mva"]
        zb = data["vn_lv_kv"] ** 2 / s
        pp.create_line_from_parameters(net, bl, b2, 1.0, 0.01 * zb, 0.02 * zb, 0., 10. * s / data["vn_lv_kv"],
                                       r0_ohm_per_km=0.04 * zb, x0_ohm_per_km=0.06 * zb, c0_nf_per_km=0., endtemp_degree=80.)
        pp.create_load(net, b2, 0.4 * s, 0.1 * s)
        return net
    return mk


def build_trafo3w(create):
    def mk(data):
        net = base_net()
        bh, bm, bl = (pp.create_bus(net, data[k]) for k in ("vn_hv_kv", "vn_mv_kv", "vn_lv_kv"))
        pp.create_ext_grid(net, bh, **EG)
        create(net, bh, bm, bl)
        pp.create_load(net, bm, 0.25 * data["sn_mv_mva"], 0.05 * data["sn_mv_mva"])
        pp.create_load(net, bl, 0.25 * data["sn_lv_mva"], 0.05 * data["sn_lv_mva"])
        return net
    return mk


BUILD = {"line": build_line, "trafo": build_trafo, "trafo3w": build_trafo3w}
BUSARGS = {"line": 2, "trafo": 2, "trafo3w": 3}


def tap_pos_for(data, tap):
    """tap position used for the element under test: neutral + tap (clipped to the type's range); None without tap changer"""
    if "tap_neutral" not in data or tap == 0:
        return None
    return int(min(max(data["tap_neutral"] + tap, data.get("tap_min", -99)), data.get("tap_max", 99)))


def create_from_type(el, name, tap_pos=None, batch=False):
    """creator using the std type; batch=True: through the plural create function (one element)"""
    def create(net, *a):
        kw = {} if tap_pos is None else {"tap_pos": tap_pos}
        if el == "line":
            if batch:
                pp.create_lines(net, [a[0]], [a[1]], a[2], name, **kw)
            else:
                pp.create_line(net, a[0], a[1], a[2], name, **kw)
        elif el == "trafo":
            if batch:
                pp.create_transformers(net, [a[0]], [a[1]], name, **kw)
            else:
                pp.create_transformer(net, a[0], a[1], name, **kw)
        else:
            if batch:
                pp.create_transformers3w(net, [a[0]], [a[1]], [a[2]], name, **kw)
            else:
                pp.create_transformer3w(net, a[0], a[1], a[2], name, **kw)
    return create


def create_from_params(el, params, tap_pos=None):
    def create(net, *a):
        kw = dict(params)
        if tap_pos is not None:
            kw["tap_pos"] = tap_pos
        if el == "line":
            pp.create_line_from_parameters(net, a[0], a[1], a[2], **kw)
        elif el == "trafo":
            pp.create_transformer_from_parameters(net, a[0], a[1], **kw)
        else:
            pp.create_transformer3w_from_parameters(net, a[0], a[1], a[2], **kw)
    return create


# ---------------------------------------------------------------------------------------------------------------
# calculations + comparison
# ---------------------------------------------------------------------------------------------------------------
CALCS = ["pf", "sc3", "sc1"]


def run_calc(net, calc):
    """returns ("ok", {table: DataFrame}) or (exception class name, None)"""
    try:
        if calc == "pf":
            pp.runpp(net, calculate_voltage_angles=True, tolerance_mva=1e-10)
            if not net.converged:
                return "not_converged", None
            tabs = ["res_bus", "res_line", "res_trafo", "res_trafo3w", "res_ext_grid"]
        elif calc == "sc3":
            sc.calc_sc(net, case="max", branch_results=True, ip=True, ith=True)
            tabs = ["res_bus_sc", "res_line_sc", "res_trafo_sc", "res_trafo3w_sc"]
        else:
            sc.calc_sc(net, case="max", fault="1ph")
            tabs = ["res_bus_sc"]
    except Exception as e:
        return type(e).__name__, None
    return "ok", {t: net[t].copy() for t in tabs if t in net and len(net[t])}


def compare_results(ra, rb):
    """max abs difference over all numeric result cells (NaN pattern must agree); returns (maxdiff, where)"""
    worst, where = 0., None
    for t in ra:
        a, b = ra[t], rb.get(t)
        if b is None or list(a.columns) != list(b.columns) or a.shape != b.shape:
            return float("inf"), t + ":shape"
        for c in a.columns:
            x, y = a[c].values.astype(float), b[c].values.astype(float)
            if (np.isnan(x) != np.isnan(y)).any():
                return float("inf"), "%s.%s:nan" % (t, c)
            m = ~np.isnan(x)
            if m.any():
                d = float(np.max(np.abs(x[m] - y[m]) / np.maximum(1., np.abs(y[m]))))
                if d > worst:
                    worst, where = d, "%s.%s" % (t, c)
    return worst, where


def row_mismatches(el, row, params):
    """parameters of the type whose value is not in the element row: [(param, row value, type value)]"""
    out = []
    for p, v in params.items():
        rv = ic.norm(row[p]) if p in row.index else None
        if not ic.veq(rv, ic.norm(v)):
            out.append((p, rv, ic.norm(v)))
    return out

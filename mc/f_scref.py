"""Independent positive-sequence short-circuit reference model (agentF, C18).

Built from doc/shortcircuit/*.rst and IEC 60909-0 only: a dense nodal admittance matrix in per unit
on S = 1 MVA and the *bus* rated voltages (never net.sn_mva, never the ppc).  Elements:

  ext_grid   z = c * Un^2 / S''k (c = cmax|cmin of the ext_grid bus), x = z / sqrt(1 + rx^2), r = rx * x
  line       r * l / parallel * K_L (K_L = 1 + 0.004 (endtemp - 20) for case "min"), x * l / parallel
  trafo      z_k = vk/100 * Ur_lv^2 / Sr * K_T,  K_T = 0.95 cmax(lv bus) / (1 + 0.6 x_T); nominal ratio
  trafo3w    three two-winding transformers, K_T applied per winding pair before the delta-wye conversion
  gen        K_G (R''d + j X''d),  K_G = Un/(UrG (1 + pG)) * cmax / (1 + x''d sin(phi))
  power station unit (gen.power_station_trafo): K_S / K_SO on generator and unit transformer for faults
             outside the unit, K_G,S / K_G,SO on the generator and the uncorrected transformer for a
             fault at the generator terminals
  motor      Z_M = 1/lrc * UrM^2 / SrM, SrM = PrM / (eta cos(phi)); only for case "max"
  loads, shunts, line capacitance, sgen (current sources): no admittance

thevenin(net, case, lv_tol_percent) returns {bus: complex Z in ohm at the bus rated voltage, or None when
the bus is not connected to any voltage source} and a list of reasons why the model does not apply
(elements without a documented short-circuit model).
"""
import math

import numpy as np
import pandas as pd


def c_factor(vn_kv, case, lv_tol_percent=10):
    """voltage factor c of doc/shortcircuit/ikss.rst (table): by voltage level, case and LV tolerance"""
    if vn_kv < 1.:
        if case == "min":
            return 0.95
        return 1.1 if lv_tol_percent == 10 else 1.05
    return 1.0 if case == "min" else 1.1


def _na(x):
    return x is None or bool(pd.isna(x))


def _is(tab, idx):
    return bool(tab.at[idx, "in_service"])


def fused(net):
    parent = {int(b): int(b) for b in net.bus.index if net.bus.at[b, "in_service"]}

    def find(x):
        while parent[x] != x:
            parent[x] = parent[parent[x]]
            x = parent[x]
        return x
    sw = net.switch
    for i in sw.index:
        if sw.at[i, "et"] == "b" and bool(sw.at[i, "closed"]):
            a, b = int(sw.at[i, "bus"]), int(sw.at[i, "element"])
            if a in parent and b in parent:
                ra, rb = find(a), find(b)
                if ra != rb:
                    parent[max(ra, rb)] = min(ra, rb)
    return {b: find(b) for b in parent}


def unsupported(net):
    """reasons why the documented element models do not describe this net"""
    why = []
    for tab in ("ward", "xward", "impedance", "dcline"):
        if len(net[tab]) and net[tab]["in_service"].any():
            why.append(tab)
    sw = net.switch
    if len(sw) and ((sw["et"] == "b") & sw["closed"] & (sw.get("z_ohm", 0.) > 0)).any():
        why.append("impedance_switch")
    if len(net.sgen) and "generator_type" in net.sgen.columns:
        gt = net.sgen.loc[net.sgen.in_service, "generator_type"]
        if gt.isin(["async", "async_doubly_fed"]).any():
            why.append("sgen_async")
    return why


def _open_sides(net, et):
    """{element index: set(buses where an open switch sits)}"""
    out = {}
    sw = net.switch
    for i in sw.index:
        if sw.at[i, "et"] == et and not bool(sw.at[i, "closed"]):
            out.setdefault(int(sw.at[i, "element"]), set()).add(int(sw.at[i, "bus"]))
    return out


def thevenin(net, case, lv_tol_percent=10, bus_level_k=False, ignore_inside=False):
    node_of = fused(net)
    nodes = sorted(set(node_of.values()))
    vn = {b: float(net.bus.at[b, "vn_kv"]) for b in node_of}
    cmax = {b: c_factor(vn[b], "max", lv_tol_percent) for b in vn}
    cfac = {b: c_factor(vn[b], case, lv_tol_percent) for b in vn}

    # ------------------------------------------------------------------ power station units
    ps = {}          # trafo idx -> dict(gen=idx, ks=..., kg_inside=...)
    gen = net.gen
    tr = net.trafo
    if len(gen) and "power_station_trafo" in gen.columns:
        for g in gen.index:
            t = gen.at[g, "power_station_trafo"]
            if not _is(gen, g) or _na(t):
                continue
            t = int(t)
            gb = int(gen.at[g, "bus"])
            urg, xd = float(gen.at[g, "vn_kv"]), float(gen.at[g, "xdss_pu"])
            sinphi = math.sqrt(max(0., 1. - float(gen.at[g, "cos_phi"]) ** 2))
            pg = gen.at[g, "pg_percent"] if "pg_percent" in gen.columns else float("nan")
            pg = 0. if _na(pg) else float(pg) / 100.
            unq = vn[int(tr.at[t, "hv_bus"])]
            urthv, urtlv = float(tr.at[t, "vn_hv_kv"]), float(tr.at[t, "vn_lv_kv"])
            xt = math.sqrt(float(tr.at[t, "vk_percent"]) ** 2 - float(tr.at[t, "vkr_percent"]) ** 2) / 100.
            cm = cmax[gb]
            oltc = bool(tr.at[t, "oltc"]) if "oltc" in tr.columns else False
            if oltc:
                ks = (unq / urg) ** 2 * (urtlv / urthv) ** 2 * cm / (1. + abs(xd - xt) * sinphi)
                kg_in = cm / (1. + xd * sinphi)
            else:
                pt = tr.at[t, "pt_percent"] if "pt_percent" in tr.columns else float("nan")
                if _na(pt):
                    pt = -float(tr.at[t, "tap_step_percent"]) * (float(tr.at[t, "tap_max"]) - float(tr.at[t, "tap_neutral"])) / 100.
                    if math.isnan(pt):
                        pt = 0.
                else:
                    pt = float(pt) / 100.
                ks = unq / (urg * (1. + pg)) * (urtlv / urthv) * (1. - pt) * cm / (1. + xd * sinphi)
                kg_in = 1. / (1. + pg) * cm / (1. + xd * sinphi)
            ps[t] = {"gen": int(g), "gen_bus": gb, "ks": ks, "kg_in": kg_in}
    ps_gen = {v["gen"]: (t, v) for t, v in ps.items()}

    def build(inside_unit_trafo=None):
        """Y for faults outside every unit (None) or at the generator terminals of unit trafo t"""
        idx = {n: i for i, n in enumerate(nodes)}
        n_extra = len(net.trafo3w)
        N = len(nodes) + n_extra
        Y = np.zeros((N, N), dtype=complex)
        adj = {i: set() for i in range(N)}
        src = set()

        def stamp(i, j, y, t=1.):
            Y[i, i] += y / (t * t)
            Y[j, j] += y
            Y[i, j] -= y / t
            Y[j, i] -= y / t
            adj[i].add(j)
            adj[j].add(i)

        # lines
        op = _open_sides(net, "l")
        for l in net.line.index:
            if not _is(net.line, l):
                continue
            f, t = int(net.line.at[l, "from_bus"]), int(net.line.at[l, "to_bus"])
            if f not in node_of or t not in node_of or op.get(int(l)):
                continue
            length, par = float(net.line.at[l, "length_km"]), float(net.line.at[l, "parallel"])
            r = float(net.line.at[l, "r_ohm_per_km"]) * length / par
            x = float(net.line.at[l, "x_ohm_per_km"]) * length / par
            if case == "min":
                r *= 1. + 0.004 * (float(net.line.at[l, "endtemp_degree"]) - 20.)
            z = complex(r, x) / vn[f] ** 2
            stamp(idx[node_of[f]], idx[node_of[t]], 1. / z)
        # two-winding transformers
        op = _open_sides(net, "t")
        for t in tr.index:
            if not _is(tr, t):
                continue
            h, l = int(tr.at[t, "hv_bus"]), int(tr.at[t, "lv_bus"])
            if h not in node_of or l not in node_of or op.get(int(t)):
                continue
            vk, vkr, sn = float(tr.at[t, "vk_percent"]), float(tr.at[t, "vkr_percent"]), float(tr.at[t, "sn_mva"])
            urh, url = float(tr.at[t, "vn_hv_kv"]), float(tr.at[t, "vn_lv_kv"])
            zk = vk / 100. * url ** 2 / sn
            rk = vkr / 100. * url ** 2 / sn
            xk = math.sqrt(zk ** 2 - rk ** 2)
            psu = "power_station_unit" in tr.columns and not _na(tr.at[t, "power_station_unit"]) and bool(tr.at[t, "power_station_unit"])
            k = 1. if psu else 0.95 * cmax[l] / (1. + 0.6 * math.sqrt(vk ** 2 - vkr ** 2) / 100.)
            if int(t) in ps and inside_unit_trafo != int(t):
                k *= ps[int(t)]["ks"]
            z = complex(rk, xk) * k / float(tr.at[t, "parallel"]) / vn[l] ** 2
            ratio = (urh / url) / (vn[h] / vn[l])
            stamp(idx[node_of[h]], idx[node_of[l]], 1. / z, ratio)
        # three-winding transformers (rated voltages equal to bus rated voltages assumed)
        op = _open_sides(net, "t3")
        t3 = net.trafo3w
        for k3, t in enumerate(t3.index):
            if not _is(t3, t):
                continue
            star = len(nodes) + k3
            bh, bm, bl = (int(t3.at[t, c]) for c in ("hv_bus", "mv_bus", "lv_bus"))
            sh, sm, sl = (float(t3.at[t, c]) for c in ("sn_hv_mva", "sn_mv_mva", "sn_lv_mva"))
            pairs = [("hv", min(sh, sm)), ("mv", min(sm, sl)), ("lv", min(sh, sl))]
            vr, vx = [], []
            for nm, smin in pairs:
                vk, vkr = float(t3.at[t, "vk_%s_percent" % nm]), float(t3.at[t, "vkr_%s_percent" % nm])
                kt = 0.95 * 1.1 / (1. + 0.6 * math.sqrt(vk ** 2 - vkr ** 2) / 100.)
                vkp, vkrp = vk * sh / smin * kt, vkr * sh / smin * kt
                vr.append(vkrp)
                vx.append(math.sqrt(vkp ** 2 - vkrp ** 2))
            hm, ml, lh = 0, 1, 2
            z1 = complex(vr[hm] + vr[lh] - vr[ml], vx[hm] + vx[lh] - vx[ml]) / 2. / 100. / sh
            z2 = complex(vr[ml] + vr[hm] - vr[lh], vx[ml] + vx[hm] - vx[lh]) / 2. / 100. / sh
            z3 = complex(vr[ml] + vr[lh] - vr[hm], vx[ml] + vx[lh] - vx[hm]) / 2. / 100. / sh
            opened = op.get(int(t), set())
            for b, z, ur in ((bh, z1, "vn_hv_kv"), (bm, z2, "vn_mv_kv"), (bl, z3, "vn_lv_kv")):
                if b not in node_of or b in opened:
                    continue
                ratio = float(t3.at[t, ur]) / vn[b]
                # leg impedance in p.u. of the winding rated voltage -> bus rated voltage
                stamp(star, idx[node_of[b]], 1. / (z * ratio ** 2))
        # ext_grids
        eg = net.ext_grid
        for e in eg.index:
            b = int(eg.at[e, "bus"])
            if not _is(eg, e) or b not in node_of:
                continue
            s = float(eg.at[e, "s_sc_%s_mva" % case])
            rx = float(eg.at[e, "rx_%s" % case])
            z = cfac[b] / s                       # p.u. on 1 MVA and Un
            x = z / math.sqrt(1. + rx * rx)
            Y[idx[node_of[b]], idx[node_of[b]]] += 1. / complex(rx * x, x)
            src.add(idx[node_of[b]])
        # generators
        gens = []
        for g in gen.index:
            b = int(gen.at[g, "bus"])
            if not _is(gen, g) or b not in node_of:
                continue
            urg, xd, sn = float(gen.at[g, "vn_kv"]), float(gen.at[g, "xdss_pu"]), float(gen.at[g, "sn_mva"])
            sinphi = math.sqrt(max(0., 1. - float(gen.at[g, "cos_phi"]) ** 2))
            pg = gen.at[g, "pg_percent"] if "pg_percent" in gen.columns else float("nan")
            pg = 0. if _na(pg) else float(pg) / 100.
            zg = complex(float(gen.at[g, "rdss_ohm"]), xd * urg ** 2 / sn)
            if int(g) in ps_gen:
                t, info = ps_gen[int(g)]
                k = info["kg_in"] if inside_unit_trafo == t else info["ks"]
            else:
                k = vn[b] / (urg * (1. + pg)) * cmax[b] / (1. + xd * sinphi)
            gens.append([node_of[b], b, zg, k, int(g) in ps_gen])
        if bus_level_k:
            # what the recorded defect C18-gen-k-per-bus does: ONE correction factor per (fused) bus - that of the
            # last generator in table order (of the last power-station generator if there is one) - for all of them
            for n in set(e[0] for e in gens):
                at = [e for e in gens if e[0] == n]
                psat = [e for e in at if e[4]]
                kk = (psat or at)[-1][3]
                for e in at:
                    e[3] = kk
        for n, b, zg, k, _ in gens:
            Y[idx[n], idx[n]] += vn[b] ** 2 / (zg * k)
            src.add(idx[n])
        # asynchronous motors
        if case == "max":
            mo = net.motor
            for m in mo.index:
                b = int(mo.at[m, "bus"])
                if not _is(mo, m) or b not in node_of:
                    continue
                srm = float(mo.at[m, "pn_mech_mw"]) / (float(mo.at[m, "efficiency_n_percent"]) / 100. * float(mo.at[m, "cos_phi_n"]))
                zm = 1. / float(mo.at[m, "lrc_pu"]) * float(mo.at[m, "vn_kv"]) ** 2 / srm
                rx = float(mo.at[m, "rx"])
                x = zm / math.sqrt(1. + rx * rx)
                Y[idx[node_of[b]], idx[node_of[b]]] += vn[b] ** 2 / complex(rx * x, x)
                # a motor feeds a fault but does not energise an island on its own (no src.add)
        # components connected to a source
        live = set()
        stack = list(src)
        while stack:
            i = stack.pop()
            if i in live:
                continue
            live.add(i)
            stack.extend(adj[i] - live)
        keep = sorted(live)
        Z = {}
        if keep:
            Zm = np.linalg.inv(Y[np.ix_(keep, keep)])
            pos = {i: k for k, i in enumerate(keep)}
            for n in nodes:
                if idx[n] in pos:
                    Z[n] = Zm[pos[idx[n]], pos[idx[n]]]
        return Z

    Z_out = build(None)
    res = {}
    inside = {v["gen_bus"]: t for t, v in ps.items()}
    inside_nodes = {}
    for gb, t in inside.items():
        if gb in node_of:
            inside_nodes[node_of[gb]] = t
    cache = {}
    for b in net.bus.index:
        b = int(b)
        if b not in node_of:
            res[b] = None
            continue
        n = node_of[b]
        if n in inside_nodes and not ignore_inside:
            t = inside_nodes[n]
            if t not in cache:
                cache[t] = build(t)
            z = cache[t].get(n)
        else:
            z = Z_out.get(n)
        res[b] = None if z is None else complex(z) * vn[b] ** 2
    return res

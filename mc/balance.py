"""Pure bookkeeping on result tables: nodal balance (C01), energy balance (C03), used by C10 too.

No reference model: sums of reported element powers per electrical node against sums of reported
branch terminal powers at that node.  A node is a set of in-service buses fused by closed bus-bus
switches with z_ohm == 0.
"""
import numpy as np
import pandas as pd

# element table -> (sign of consumption, [(bus column, p column, q column)])
BUS_ELEMENTS = {
    "load": (+1, [("bus", "p_mw", "q_mvar")]),
    "sgen": (-1, [("bus", "p_mw", "q_mvar")]),
    "storage": (+1, [("bus", "p_mw", "q_mvar")]),
    "motor": (+1, [("bus", "p_mw", "q_mvar")]),
    "shunt": (+1, [("bus", "p_mw", "q_mvar")]),
    "ward": (+1, [("bus", "p_mw", "q_mvar")]),
    "xward": (+1, [("bus", "p_mw", "q_mvar")]),
    "gen": (-1, [("bus", "p_mw", "q_mvar")]),
    "ext_grid": (-1, [("bus", "p_mw", "q_mvar")]),
    "asymmetric_load": (+1, [("bus", "p_mw", "q_mvar")]),
    "asymmetric_sgen": (-1, [("bus", "p_mw", "q_mvar")]),
    "dcline": (+1, [("from_bus", "p_from_mw", "q_from_mvar"), ("to_bus", "p_to_mw", "q_to_mvar")]),
    "svc": (+1, [("bus", None, "q_mvar")]),
    "ssc": (+1, [("bus", None, "q_mvar")]),
}
BRANCHES = {
    "line": [("from_bus", "p_from_mw", "q_from_mvar"), ("to_bus", "p_to_mw", "q_to_mvar")],
    "trafo": [("hv_bus", "p_hv_mw", "q_hv_mvar"), ("lv_bus", "p_lv_mw", "q_lv_mvar")],
    "trafo3w": [("hv_bus", "p_hv_mw", "q_hv_mvar"), ("mv_bus", "p_mv_mw", "q_mv_mvar"), ("lv_bus", "p_lv_mw", "q_lv_mvar")],
    "impedance": [("from_bus", "p_from_mw", "q_from_mvar"), ("to_bus", "p_to_mw", "q_to_mvar")],
    "tcsc": [("from_bus", "p_from_mw", "q_from_mvar"), ("to_bus", "p_to_mw", "q_to_mvar")],
}


def fused_nodes(net):
    """bus -> representative, fusing in-service buses joined by closed z=0 bus-bus switches."""
    parent = {int(b): int(b) for b in net.bus.index}

    def find(x):
        while parent[x] != x:
            parent[x] = parent[parent[x]]
            x = parent[x]
        return x
    sw = net.switch
    if len(sw):
        z = sw["z_ohm"].values if "z_ohm" in sw else np.zeros(len(sw))
        for b, e, et, cl, zz in zip(sw["bus"].values, sw["element"].values, sw["et"].values, sw["closed"].values, z):
            if et == "b" and bool(cl) and not (zz > 0):
                if net.bus.at[b, "in_service"] and net.bus.at[e, "in_service"]:
                    ra, rb = find(int(b)), find(int(e))
                    if ra != rb:
                        parent[max(ra, rb)] = min(ra, rb)
    return {b: find(b) for b in parent}


def _res(net, tab):
    r = net.get("res_" + tab)
    if r is None or len(r) == 0 or len(net[tab]) == 0:
        return None
    return r


def nodal_sums(net, dc=False):
    """Returns dict node -> dict(elem=complex consumption, branch=complex outflow, kinds=set, buses=set),
    and per-bus element consumption, and list of nan issues."""
    node = fused_nodes(net)
    acc = {}
    perbus = {int(b): 0j for b in net.bus.index}
    nan_issues = []
    vm = net.res_bus["vm_pu"]

    def slot(b):
        n = node[int(b)]
        if n not in acc:
            acc[n] = {"elem": 0j, "branch": 0j, "kinds": set(), "buses": set()}
        acc[n]["buses"].add(int(b))
        return acc[n]
    for b in net.bus.index:
        slot(b)
    for tab, (sign, cols) in BUS_ELEMENTS.items():
        if tab not in net or len(net[tab]) == 0:
            continue
        r = _res(net, tab)
        for idx in net[tab].index:
            ins = bool(net[tab].at[idx, "in_service"]) if "in_service" in net[tab].columns else True
            for bc, pc, qc in cols:
                b = int(net[tab].at[idx, bc])
                if r is None or idx not in r.index:
                    if ins and np.isfinite(vm.get(b, np.nan)):
                        nan_issues.append((tab, int(idx), "missing result row"))
                    continue
                p = r.at[idx, pc] if pc else 0.
                q = r.at[idx, qc] if (qc and not dc) else 0.
                energized = np.isfinite(vm.get(b, np.nan))
                if not (np.isfinite(p) and np.isfinite(q)):
                    if ins and energized:
                        nan_issues.append((tab, int(idx), "NaN result at energized bus"))
                    p = 0. if not np.isfinite(p) else p
                    q = 0. if not np.isfinite(q) else q
                s = sign * complex(p, q)
                sl = slot(b)
                sl["elem"] += s
                perbus[b] += s
                if ins:
                    sl["kinds"].add(tab)
    for tab, cols in BRANCHES.items():
        if tab not in net or len(net[tab]) == 0:
            continue
        r = _res(net, tab)
        if r is None:
            continue
        for idx in net[tab].index:
            if idx not in r.index:
                continue
            for bc, pc, qc in cols:
                b = int(net[tab].at[idx, bc])
                p = r.at[idx, pc]
                q = r.at[idx, qc] if not dc else 0.
                p = 0. if not np.isfinite(p) else p
                q = 0. if not np.isfinite(q) else q
                slot(b)["branch"] += complex(p, q)
    # impedance switches
    r = net.get("res_switch")
    if r is not None and len(r) and len(net.switch) and "p_from_mw" in r.columns:
        for idx in net.switch.index:
            if net.switch.at[idx, "et"] != "b" or idx not in r.index:
                continue
            pf, qf, pt, qt = (r.at[idx, c] for c in ("p_from_mw", "q_from_mvar", "p_to_mw", "q_to_mvar"))
            if dc:
                qf = qt = 0.
            if np.isfinite(pf):
                slot(net.switch.at[idx, "bus"])["branch"] += complex(pf, qf if np.isfinite(qf) else 0.)
            if np.isfinite(pt):
                slot(net.switch.at[idx, "element"])["branch"] += complex(pt, qt if np.isfinite(qt) else 0.)
    return acc, perbus, nan_issues


def losses(net):
    """sum of reported active branch losses (incl. dcline and impedance switches)"""
    tot = 0.
    for tab in ("line", "trafo", "trafo3w", "impedance", "dcline", "tcsc"):
        r = _res(net, tab)
        if r is not None and "pl_mw" in r.columns:
            tot += float(np.nansum(r["pl_mw"].values))
    return tot

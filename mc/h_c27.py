"""C27 model (agentH): groups as sets.  BFS over group / drop / reindex operations on the real net, compared after
every transition with a plain-Python set model {group: {element_type: set(index)}}.

State = {"net": net, "model": {gi: {et: set}}, "names": {gi: str}, "res_ok": bool, "dead": exc|None, "viol": [...]}.
The model is updated by the documented set semantics only; for element drops the set of elements that vanished is
read from the element tables (index before - index after), never from net.group.
"""
import copy
import json
import re

import numpy as np
import pandas as pd

import pandapower as pp
import pandapower.groups as ppg
import pandapower.toolbox as tb

from mc import core
from mc import netalpha as na

TYPES = ("bus", "line", "load", "trafo3w", "trafo", "switch")
_UUID = re.compile(r"[0-9a-f]{8}-[0-9a-f]{4}-[0-9a-f]{4}-[0-9a-f]{4}-[0-9a-f]{12}")
RES_COL = {"line": ("pl_mw", "ql_mvar"), "load": ("p_mw", "q_mvar"), "trafo3w": ("pl_mw", "ql_mvar"), "trafo": ("pl_mw", "ql_mvar")}
_BASE = {}


def _mk_net():
    """6 buses: 0 (110) -T3W0- 1 (20) / 2 (10); 0 -T0- 3; 1 -L0- 3 -L1- 4 -L2- 5; loads ld0@1 ld1@2 ld2@4 ld3@5; all named.
    switches s0 (l, line 1 @3), s1 (t, trafo 0 @3), s2 (b 4-5, open); load.zid = [2,3,0,1] (integer reference column whose
    values overlap the indices).
    g0 (index members)  : bus {4,5}  line {1,2}  load {2,3}  trafo3w {0}  trafo {0}   (trafo3w and trafo share index 0)
    g1 (reference columns): bus {3,4} by name, line {0,1} by name, load {1,2} by zid (stored [3,0])"""
    net = pp.create_empty_network(sn_mva=1.)
    pp.create_bus(net, 110., name="b0")
    pp.create_bus(net, 20., name="b1")
    pp.create_bus(net, 10., name="b2")
    for i in (3, 4, 5):
        pp.create_bus(net, 20., name="b%d" % i)
    pp.create_ext_grid(net, 0, vm_pu=1.02, name="eg0", **na.EG)
    pp.create_transformer3w_from_parameters(net, 0, 1, 2, name="t3w0", **na.TR3)
    pp.create_transformer_from_parameters(net, 0, 3, name="t0", **na.TR)
    pp.create_line_from_parameters(net, 1, 3, name="l0", **na.LINE)
    pp.create_line_from_parameters(net, 3, 4, name="l1", **na.LINE)
    pp.create_line_from_parameters(net, 4, 5, name="l2", **na.LINE)
    pp.create_load(net, 1, 1.0, 0.3, name="ld0")
    pp.create_load(net, 2, 1.2, 0.2, name="ld1")
    pp.create_load(net, 4, 0.9, 0.4, name="ld2")
    pp.create_load(net, 5, 0.5, 0.1, name="ld3")
    pp.create_switch(net, 3, 1, "l", closed=True, name="s0")
    pp.create_switch(net, 3, 0, "t", closed=True, name="s1")
    pp.create_switch(net, 4, 5, "b", closed=False, name="s2")
    net.load["zid"] = [2, 3, 0, 1]
    pp.create_group(net, ["bus", "line", "load", "trafo3w", "trafo"], [[4, 5], [1, 2], [2, 3], [0], [0]], name="g0")
    pp.create_group(net, ["bus", "line", "load"], [["b3", "b4"], ["l0", "l1"], [3, 0]], name="g1",
                    reference_columns=["name", "name", "zid"])
    pp.runpp(net)
    return net


def base_net():
    if "n" not in _BASE:
        core.quiet()
        net = _mk_net()
        for k in ("_ppc", "_ppc_opf", "_pd2ppc_lookups", "_is_elements", "_is_elements_final", "_isolated_buses"):
            if k in net:
                try:
                    net[k] = None
                except Exception:
                    pass
        _BASE["n"] = net
    return _BASE["n"]


def init():
    return {"net": copy.deepcopy(base_net()),
            "model": {0: {"bus": {4, 5}, "line": {1, 2}, "load": {2, 3}, "trafo3w": {0}, "trafo": {0}},
                      1: {"bus": {3, 4}, "line": {0, 1}, "load": {1, 2}}},
            "res_ok": True, "dead": None, "viol": []}


def copy_state(s):
    return {"net": copy.deepcopy(s["net"]), "model": {g: {et: set(v) for et, v in d.items()} for g, d in s["model"].items()},
            "res_ok": s["res_ok"], "dead": s["dead"], "viol": [], "bad": s.get("bad", frozenset())}


# ------------------------------------------------------------------------------------------------
# alphabet
# ------------------------------------------------------------------------------------------------
NAME = {"bus": "b%d", "line": "l%d", "load": "ld%d", "trafo3w": "t3w%d", "trafo": "t%d", "switch": "s%d"}

CREATE = {  # tag -> (element types, members by ORIGINAL NAME suffix, reference column)
    "idx_line_load": (["line", "load"], [[0, 1], [0, 2]], None),
    "name_bus_load": (["bus", "load"], [[1, 4], [3]], "name"),
    "idx_t3w_bus": (["trafo3w", "bus"], [[0], [0]], None),
}
# element members below are ORIGINAL element numbers (element created as NAME % n); they are resolved to the current
# index (or name) when the op is applied, so an op keeps following "its" element through reindexing
ATTACH = [  # (group, element type, members, reference column passed)
    (0, "line", [0, 2], None), (0, "bus", [1, 4], None), (0, "load", [0], "name"),
    (1, "load", [0, 2], None), (1, "trafo3w", [0], None), (1, "line", [2], "name"), (1, "bus", [5], None),
    (0, "switch", [1], None), (1, "switch", [2], None), (1, "trafo", [0], None),
]
ATTACH_MANY = [([0, 1], "line", [2]), ([0, 1], "switch", [0])]     # the second one creates the row in both groups at once
DETACH = [(0, "line", [1]), (0, "load", [2, 3]), (0, "bus", [4]), (0, "trafo3w", [0]), (0, "trafo", [0]), (1, "switch", [0]),
          (1, "line", [0]), (1, "load", [1, 2]), (1, "bus", [3, 0])]
DETACH_ALL = [("line", [1]), ("load", [2])]
DROPS = [("drop_elements", "load", [2]), ("drop_elements", "load", [0]), ("drop_buses", "bus", [5]), ("drop_buses", "bus", [1]),
         ("drop_lines", "line", [1]), ("drop_lines", "line", [0]), ("drop_elements", "trafo3w", [0]), ("drop_elements", "bus", [4]),
         ("drop_elements", "trafo", [0]), ("drop_elements", "switch", [0]), ("drop_buses", "bus", [2])]
REIDX = {"line": {"1to7": [[1, 7]], "shift5": "shift5"}, "load": {"swap23": [[2, 3], [3, 2]], "shift5": "shift5"},
         "trafo3w": {"0to7": [[0, 7]]}, "bus": {"4to40": [[4, 40]]}, "group": {"0to5": [[0, 5]], "1to0": [[1, 0]]}}

QUICK_SKIP = {("attach", 1, "bus"), ("attach", 1, "line"), ("attach", 0, "bus"), ("attach", 1, "switch"), ("attach", 1, "trafo"),
              ("detach", 0, "trafo3w"), ("detach", 1, "bus"), ("detach", 0, "bus"), ("detach", 0, "line"), ("detach", 0, "trafo"),
              ("detach", 1, "switch"), ("detach_all", "load"), ("drop_group", 1),
              ("drop", "load", 0), ("drop", "line", 0), ("drop", "bus", 4), ("drop", "bus", 1), ("drop", "bus", 2), ("drop", "trafo", 0),
              ("drop", "switch", 0),
              ("reindex", "load", "shift5"), ("reindex", "group", "1to0"), ("reindex", "bus", "4to40"), ("create", "idx_t3w_bus"),
              ("refcol", 0, None), ("refcol", 1, "name"), ("oos", 1)}


def _exist(net, et, idx):
    return all(i in net[et].index for i in idx)


def _byname(net, et, nums):
    """current indices of the elements that were created as NAME % n (None if one is gone)"""
    out = []
    names = net[et]["name"].tolist()
    idx = net[et].index.tolist()
    for n in nums:
        nm = NAME[et] % n
        if nm not in names:
            return None
        out.append(idx[names.index(nm)])
    return out


CORE = [["attach_to_groups", [0, 1], "switch", [0]], ["attach_to_group", 0, "switch", [1], None], ["drop_elements", "trafo3w", [0]],
        ["create_group", "idx_line_load"], ["attach_to_group", 0, "line", [0, 2], None], ["attach_to_group", 1, "load", [0, 2], None],
        ["attach_to_group", 1, "trafo3w", [0], None], ["detach_from_group", 0, "load", [2, 3]], ["detach_from_group", 1, "line", [0]],
        ["detach_from_groups", "line", [1]], ["drop_group", 0], ["drop_buses", "bus", [5]], ["drop_lines", "line", [1]],
        ["reindex_elements", "line", "1to7"], ["reindex_elements", "load", "swap23"], ["reindex_elements", "group", "0to5"],
        ["set_group_reference_column", 0, "name"], ["set_group_reference_column", 1, None], ["set_group_out_of_service", 0]]
_CORE = set(json.dumps(o) for o in CORE)


def ops(s, tier="quick"):
    """tier: "quick" (27 bound ops in the initial state), "thorough" (46), "core" (16, for the deepest bound)"""
    if tier == "core":
        return [o for o in ops(s, "thorough") if json.dumps(o) in _CORE]
    if s["dead"]:
        return []
    net, model = s["net"], s["model"]
    q = tier == "quick"
    o = []
    gs = sorted(model)
    if len(gs) < 3:
        for tag, (ets, mem, rc) in CREATE.items():
            if q and ("create", tag) in QUICK_SKIP:
                continue
            if all(_byname(net, et, m) is not None for et, m in zip(ets, mem)):
                o.append(["create_group", tag])
    for g, et, idx, rc in ATTACH:
        if q and ("attach", g, et) in QUICK_SKIP:
            continue
        if g in model and _byname(net, et, idx) is not None:
            o.append(["attach_to_group", g, et, idx, rc])
    for gs_, et, idx in ATTACH_MANY:
        if all(g in model for g in gs_) and _byname(net, et, idx) is not None:
            o.append(["attach_to_groups", gs_, et, idx])
    for g, et, idx in DETACH:
        if q and ("detach", g, et) in QUICK_SKIP:
            continue
        if g in model and _byname(net, et, idx) is not None:
            o.append(["detach_from_group", g, et, idx])
    for et, idx in DETACH_ALL:
        if q and ("detach_all", et) in QUICK_SKIP:
            continue
        if _byname(net, et, idx) is not None and model:
            o.append(["detach_from_groups", et, idx])
    for g in gs:
        if not (q and ("drop_group", g) in QUICK_SKIP):
            o.append(["drop_group", g])
    for fn, et, idx in DROPS:
        if q and ("drop", et, idx[0]) in QUICK_SKIP:
            continue
        if _byname(net, et, idx) is not None:
            o.append([fn, et, idx])
    for et, d in REIDX.items():
        for tag, lk in d.items():
            if q and ("reindex", et, tag) in QUICK_SKIP:
                continue
            if et == "group":
                if lk[0][0] in model and lk[0][1] not in model:
                    o.append(["reindex_elements", et, tag])
                continue
            if not len(net[et]):
                continue
            pairs = _pairs(net, et, lk)
            cur = net[et].index.tolist()
            if all(a in cur for a, _ in pairs):
                m = dict(pairs)
                new = [m.get(i, i) for i in cur]
                if len(set(new)) == len(new):
                    o.append(["reindex_elements", et, tag])
    o.append(["reindex_buses", "shift10"])
    for g in gs:
        for rc in ("name", None):
            if not (q and (("refcol", g, rc) in QUICK_SKIP or g not in (0, 1))):
                o.append(["set_group_reference_column", g, rc])
        if not (q and (("oos", g) in QUICK_SKIP or g not in (0, 1))):
            o.append(["set_group_out_of_service", g])
    for g in gs:
        if g == 0 or not q:
            o.append(["set_group_in_service", g])
    return o


def _pairs(net, et, lk):
    if lk == "shift5":
        return [[int(i), int(i) + 5] for i in net[et].index.tolist()]
    return lk


# ------------------------------------------------------------------------------------------------
# the real call + the set model
# ------------------------------------------------------------------------------------------------
def _runpp(s):
    try:
        pp.runpp(s["net"])
        s["res_ok"] = bool(s["net"].converged)
    except Exception:
        s["res_ok"] = False


def _prune(model):
    for g in list(model):
        for et in list(model[g]):
            if not model[g][et]:
                del model[g][et]
        if not model[g]:
            del model[g]


def _do(s, op):
    net, model = s["net"], s["model"]
    k = op[0]
    s["flip"] = None
    if k == "create_group":
        ets, mem, rc = CREATE[op[1]]
        idxs = [_byname(net, et, m) for et, m in zip(ets, mem)]
        arg = [[NAME[et] % n for n in m] for et, m in zip(ets, mem)] if rc else idxs
        new_expected = (max(model) + 1) if model else 0
        gi = pp.create_group(net, list(ets), arg, name="gnew", reference_columns=rc)
        s["created"] = (int(gi), new_expected)
        model[int(gi)] = {et: set(ix) for et, ix in zip(ets, idxs)}
    elif k == "attach_to_group":
        _, g, et, nums, rc = op
        idx = _byname(net, et, nums)
        arg = [NAME[et] % n for n in nums] if rc else idx
        ppg.attach_to_group(net, g, et, [arg], reference_columns=rc)
        model[g].setdefault(et, set()).update(idx)
    elif k == "attach_to_groups":
        _, gs, et, nums = op
        idx = _byname(net, et, nums)
        ppg.attach_to_groups(net, gs, et, [idx])
        for g in gs:
            model[g].setdefault(et, set()).update(idx)
    elif k == "detach_from_group":
        _, g, et, nums = op
        idx = _byname(net, et, nums)
        ppg.detach_from_group(net, g, et, idx)
        if et in model[g]:
            model[g][et] -= set(idx)
    elif k == "detach_from_groups":
        _, et, nums = op
        idx = _byname(net, et, nums)
        ppg.detach_from_groups(net, et, idx)
        for g in model:
            if et in model[g]:
                model[g][et] -= set(idx)
    elif k == "drop_group":
        ppg.drop_group(net, op[1])
        del model[op[1]]
    elif k in ("drop_elements", "drop_buses", "drop_lines"):
        _, et, nums = op
        idx = _byname(net, et, nums)
        pre = {t: set(net[t].index.tolist()) for t in TYPES}
        if k == "drop_elements":
            tb.drop_elements(net, et, idx)
        elif k == "drop_buses":
            tb.drop_buses(net, idx)
        else:
            tb.drop_lines(net, idx)
        for t in TYPES:
            gone = pre[t] - set(net[t].index.tolist())
            for g in model:
                if t in model[g]:
                    model[g][t] -= gone
        _runpp(s)
    elif k == "reindex_elements":
        _, et, tag = op
        pairs = _pairs(net, et, REIDX[et][tag])
        lk = {a: b for a, b in pairs}
        tb.reindex_elements(net, et, lookup=dict(lk))
        if et == "group":
            for a, b in pairs:
                model[b] = model.pop(a)
        else:
            for g in model:
                if et in model[g]:
                    model[g][et] = set(lk.get(i, i) for i in model[g][et])
            _runpp(s)
    elif k == "reindex_buses":
        lk = {int(b): int(b) + 10 for b in net.bus.index}
        tb.reindex_buses(net, dict(lk))
        for g in model:
            if "bus" in model[g]:
                model[g]["bus"] = set(lk.get(i, i) for i in model[g]["bus"])
        _runpp(s)
    elif k == "set_group_reference_column":
        ppg.set_group_reference_column(net, op[1], op[2])
    elif k in ("set_group_out_of_service", "set_group_in_service"):
        pre = {t: net[t]["in_service"].copy() for t in TYPES if "in_service" in net[t].columns}
        val = k == "set_group_in_service"
        (ppg.set_group_in_service if val else ppg.set_group_out_of_service)(net, op[1])
        s["flip"] = (op[1], val, pre)
        _runpp(s)
    else:
        raise AssertionError("unknown op %r" % (op,))
    _prune(model)


def apply(s, op):
    s["viol"] = []
    s["created"] = None
    if s["dead"]:
        return "dead"
    try:
        _do(s, op)
    except Exception as e:
        s["dead"] = type(e).__name__
        s["dead_msg"] = "%s: %s" % (type(e).__name__, str(e)[:200])
        return "raised:" + type(e).__name__
    allv = judge(s, op)
    prev = s.get("bad", frozenset())
    keyed = [(_vkey(v), v) for v in allv]
    s["viol"] = [v for k, v in keyed if k not in prev]        # only what this op newly broke
    s["bad"] = frozenset(k for k, _ in keyed)
    tag = "ok" if not allv else "new_mismatch" if s["viol"] else "inherited_mismatch"
    return tag if s["res_ok"] else tag + "_pf_failed"


def _vkey(v):
    d = v["detail"]
    return (v["clause"], d.get("group"), d.get("element_type") or d.get("function"))


# ------------------------------------------------------------------------------------------------
# oracle
# ------------------------------------------------------------------------------------------------
def _v(clause, detail, op, **kw):
    toks = ["op=" + op[0]] + ["%s=%s" % kv for kv in sorted(kw.items())]
    detail = json.loads(_UUID.sub("<uuid>", json.dumps(core.jsonable(detail))))
    if "<uuid>" in json.dumps(detail):
        toks.append("uuid_member")          # pandapower generated a uuid name for a member
    return core.violation(clause, detail, tokens=toks, klass=op[0])


def judge(s, op):
    net, model = s["net"], s["model"]
    vs = []
    g = net.group
    real = sorted(set(int(i) for i in g.index.tolist()))
    # group rows: exactly the model's groups; a (group, type) row exists iff the model set is non-empty
    if real != sorted(model):
        vs.append(_v("group_rows", {"groups_in_net": real, "groups_in_model": sorted(model)}, op))
    if s.get("created") and s["created"][0] != s["created"][1]:
        vs.append(_v("group_rows", {"created_index": s["created"][0], "expected_free_index": s["created"][1]}, op))
    rows = {}
    for pos in range(len(g)):
        key = (int(g.index[pos]), g.element_type.iat[pos])
        rows.setdefault(key, []).append(g.element_index.iat[pos])
    for (gi, et), lst in sorted(rows.items()):
        if len(lst) > 1:
            vs.append(_v("group_rows", {"group": gi, "element_type": et, "duplicate_rows": len(lst)}, op, et=et))
        for mem in lst:
            n = len(mem) if hasattr(mem, "__len__") and not isinstance(mem, str) else 1
            if n == 0 or (gi in model and et not in model[gi]):
                vs.append(_v("empty_row_kept", {"group": gi, "element_type": et, "row_members": core.jsonable(mem),
                                                "model": sorted(model.get(gi, {}).get(et, []))}, op, et=et))
    for gi in sorted(model):
        if gi not in real:
            continue
        for et in TYPES:
            want = model[gi].get(et, set())
            try:
                got = ppg.group_element_index(net, gi, et).tolist()
            except Exception as e:
                vs.append(_v("members", {"group": gi, "element_type": et, "error": "%s: %s" % (type(e).__name__, e)}, op, et=et))
                continue
            rc = None
            if (gi, et) in rows:
                rcv = g.reference_column[(g.index == gi) & (g.element_type == et).values].iat[0]
                rc = None if rcv is None or pd.isnull(rcv) else str(rcv)
            if set(got) != want:
                vs.append(_v("members", {"group": gi, "element_type": et, "reference_column": rc,
                                         "group_element_index": sorted(got), "model": sorted(want)}, op, et=et, rc=rc))
            elif len(got) != len(want):
                vs.append(_v("member_multiplicity", {"group": gi, "element_type": et, "reference_column": rc,
                                                     "group_element_index": sorted(got), "model": sorted(want)}, op, et=et, rc=rc))
            elif want:
                gsave = net.group.copy(deep=True)       # isin_group normalises net.group in place
                try:
                    cnt = int(ppg.count_group_elements(net, gi).get(et, 0))
                    inn = bool(np.all(ppg.isin_group(net, et, sorted(want), index=gi)))
                except Exception as e:
                    cnt, inn = "%s: %s" % (type(e).__name__, e), None
                net.group = gsave
                if cnt != len(want) or inn is not True:
                    vs.append(_v("member_multiplicity", {"group": gi, "element_type": et, "count_group_elements": cnt,
                                                         "isin_group_all": inn, "model": sorted(want)}, op, et=et, rc=rc))
    # in / out of service flips exactly the members
    if s.get("flip"):
        gi, val, pre = s["flip"]
        for et in pre:
            post = net[et]["in_service"]
            mem = model.get(gi, {}).get(et, set())
            wrong = [int(i) for i in post.index if bool(post.at[i]) != (val if i in mem else bool(pre[et].at[i]))]
            if wrong:
                vs.append(_v("in_service_exactly_members", {"group": gi, "element_type": et, "set_to": val, "members": sorted(mem),
                                                            "wrong_rows": wrong}, op, et=et))
    # result functions act on exactly the members (only with fresh results of a converged power flow)
    if s["res_ok"]:
        for gi in sorted(model):
            if gi not in real:
                continue
            for fn, ci, name in ((ppg.group_res_p_mw, 0, "group_res_p_mw"), (ppg.group_res_q_mvar, 1, "group_res_q_mvar")):
                want = 0.
                for et, cols in RES_COL.items():
                    mem = sorted(model[gi].get(et, ()))
                    if mem:
                        want += float(np.nansum(net["res_" + et][cols[ci]].reindex(mem).values))
                try:
                    got = float(fn(net, gi))
                except Exception as e:
                    vs.append(_v("result_functions", {"group": gi, "function": name, "error": "%s: %s" % (type(e).__name__, e)}, op))
                    continue
                if not abs(got - want) <= 1e-9 + 1e-9 * abs(want):
                    vs.append(_v("result_functions", {"group": gi, "function": name, "returned": got, "sum_over_members": want,
                                                      "members": {et: sorted(v) for et, v in model[gi].items()}}, op))
    return vs


# ------------------------------------------------------------------------------------------------
# canonical form
# ------------------------------------------------------------------------------------------------
def canon(s):
    """net.group completely (rows in order, members in stored order, reference columns) + for every element table its
    index in row order with name / in_service and the bus columns (what drops cascade through) + res_ok.
    Dropped: electrical parameters and result VALUES - no group operation, drop or reindex reads them; results are a
    function of the kept fields (fresh runpp after every structural op) and only feed the numeric result clause."""
    if s["dead"]:
        return "DEAD"
    net = s["net"]
    out = {"group": [net.group.index.tolist(), net.group.values.tolist()], "res_ok": s["res_ok"],
           "bad": sorted(map(repr, s.get("bad", ()))),
           "model": {str(g): {et: sorted(v) for et, v in d.items()} for g, d in s["model"].items()}}
    for t in ("bus", "line", "load", "trafo3w", "trafo", "switch", "ext_grid"):
        df = net[t]
        cols = [c for c in ("name", "in_service", "bus", "from_bus", "to_bus", "hv_bus", "mv_bus", "lv_bus", "element", "et", "closed")
                if c in df.columns] + (["zid"] if "zid" in df.columns else [])
        out[t] = [df.index.tolist(), df[cols].values.tolist()]
        rt = "res_" + t
        if rt in net:
            out[rt] = net[rt].index.tolist()
    return _UUID.sub("<uuid>", json.dumps(out, sort_keys=True, default=_dflt))


def _dflt(o):
    if isinstance(o, np.integer):
        return int(o)
    if isinstance(o, np.floating):
        return float(o)
    if isinstance(o, np.bool_):
        return bool(o)
    if o is pd.NA:
        return None
    return repr(o)

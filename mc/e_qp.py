"""Reference optimum of a small DC-OPF by exhaustive active-set enumeration (agentE, C17).

    minimise   sum_i f_i(x_i)            f_i piecewise quadratic, continuous (pieces (x0, x1, a, b, c): a*x^2+b*x+c on [x0,x1])
    subject to A_eq x = b_eq ,  A_in x <= b_in ,  lo_i <= x_i <= hi_i

Every variable is, in turn, fixed at one of its break points / bounds or left free inside one of its pieces; every
inequality row is active or not.  For each of these finitely many combinations the stationarity (KKT) system of the
equality-constrained sub-problem is solved with numpy; every solution that is feasible for the full problem is a
candidate and the best candidate is the optimum.  This is exact for convex pieces (a >= 0): the optimum is a KKT
point of the sub-problem given by its own active set, and every candidate is feasible, hence not better than the
optimum.  No iterative solver, no tolerance-driven search.

dc_problem(net, ...) builds the DC-OPF of a pandapower net from the ELEMENT TABLES and the documented DC model
(lines: b = 1/x, |P| <= max_loading% * sqrt(3) * vn * max_i_ka * df * parallel; dc line: P withdrawn at from bus,
P*(1-loss%) - loss_mw injected at to bus; buses fused by closed bus-bus switches), independent of pd2ppc.
"""
import itertools

import numpy as np

INF = float("inf")


def fval(pieces, x):
    """value of a piecewise function at x (first/last piece extrapolated)"""
    for k, (x0, x1, a, b, c) in enumerate(pieces):
        if x <= x1 + 1e-12 or k == len(pieces) - 1:
            return a * x * x + b * x + c
    raise AssertionError


def pwl_pieces(points, lo, hi):
    """user pwl cost [[x0, x1, slope], ...] -> continuous pieces, f = slope_1 * x on the first segment
    (the constant part is 'neglected', create_pwl_cost docstring); first / last segment extended to [lo, hi]."""
    pcs = []
    y = points[0][0] * points[0][2]
    for k, (x0, x1, s) in enumerate(points):
        a0 = min(x0, lo) if k == 0 else x0
        a1 = max(x1, hi) if k == len(points) - 1 else x1
        # line through (x0, y) with slope s
        pcs.append((a0, a1, 0., float(s), float(y - s * x0)))
        y = y + s * (x1 - x0)
    return pcs


def solve(variables, A_eq, b_eq, A_in=None, b_in=None, ftol=1e-8, keep=False):
    """variables: list of {"lo":, "hi":, "pieces": [...]} (free variables: lo=-inf, hi=inf, one zero piece).
    Returns dict(cost, x, candidates, systems[, all])."""
    n = len(variables)
    A_eq = np.atleast_2d(np.asarray(A_eq, float)).reshape(-1, n)
    b_eq = np.asarray(b_eq, float).ravel()
    if A_in is None or len(A_in) == 0:
        A_in, b_in = np.zeros((0, n)), np.zeros(0)
    A_in = np.atleast_2d(np.asarray(A_in, float)).reshape(-1, n)
    b_in = np.asarray(b_in, float).ravel()
    states = []
    for v in variables:
        st = []
        lo, hi = v["lo"], v["hi"]
        pts = set()
        for (x0, x1, a, b, c) in v["pieces"]:
            l, h = max(x0, lo), min(x1, hi)
            if l > h + 1e-12:
                continue
            if h > l + 1e-12:
                st.append(("free", l, h, a, b))
            for p in (l, h):
                if np.isfinite(p):
                    pts.add(round(p, 12))
        for p in sorted(pts):
            st.append(("fix", p))
        states.append(st)
    best = None
    cands = []
    nsys = 0
    m_in = len(b_in)
    for combo in itertools.product(*states):
        fixed = [(i, s[1]) for i, s in enumerate(combo) if s[0] == "fix"]
        for act in itertools.product((0, 1), repeat=m_in):
            rows = [A_eq]
            rhs = [b_eq]
            if fixed:
                F = np.zeros((len(fixed), n))
                for r, (i, val) in enumerate(fixed):
                    F[r, i] = 1.
                rows.append(F)
                rhs.append(np.array([val for _, val in fixed]))
            ia = [j for j in range(m_in) if act[j]]
            if ia:
                rows.append(A_in[ia])
                rhs.append(b_in[ia])
            C = np.vstack(rows)
            d = np.concatenate(rhs)
            H = np.zeros(n)
            g = np.zeros(n)
            for i, s in enumerate(combo):
                if s[0] == "free":
                    H[i], g[i] = 2. * s[3], s[4]
            m = C.shape[0]
            K = np.zeros((n + m, n + m))
            K[:n, :n] = np.diag(H)
            K[:n, n:] = C.T
            K[n:, :n] = C
            r = np.concatenate([-g, d])
            nsys += 1
            sol, *_ = np.linalg.lstsq(K, r, rcond=None)
            if not np.all(np.isfinite(sol)):
                continue
            if np.abs(K @ sol - r).max() > ftol * max(1., np.abs(r).max()):
                continue            # inconsistent system: no stationary point with this active set
            x = sol[:n]
            ok = True
            for i, s in enumerate(combo):
                if s[0] == "free" and not (s[1] - ftol <= x[i] <= s[2] + ftol):
                    ok = False
                    break
            if not ok:
                continue
            if m_in and (A_in @ x - b_in).max() > ftol * max(1., np.abs(b_in).max()):
                continue
            cost = sum(fval(v["pieces"], x[i]) for i, v in enumerate(variables))
            if keep:
                cands.append((cost, x.copy()))
            if best is None or cost < best[0] - 1e-13:
                best = (cost, x.copy())
    out = {"cost": None if best is None else float(best[0]), "x": None if best is None else best[1],
           "systems": nsys}
    if keep:
        out["all"] = cands
    return out


def is_kkt_point(variables, A_eq, b_eq, A_in, b_in, x, atol=1e-3, btol=1e-4):
    """Does the feasible point x satisfy the first-order (KKT) conditions of the problem?  Used only to attribute a
    wrong dispatch to a recorded defect ('x is a stationary point of the objective the defect builds').
    Bounded least squares for the multipliers: g + A_eq' lam + mu_u - mu_l + A_in' nu = 0, mu, nu >= 0 on active rows."""
    from scipy.optimize import lsq_linear
    n = len(variables)
    x = np.asarray(x, float)
    A_eq = np.asarray(A_eq, float).reshape(-1, n)
    A_in = np.asarray(A_in, float).reshape(-1, n) if A_in is not None and len(A_in) else np.zeros((0, n))
    b_in = np.asarray(b_in, float).ravel() if b_in is not None else np.zeros(0)
    if np.abs(A_eq @ x - b_eq).max() > btol * max(1., np.abs(b_eq).max()):
        return False
    g_lo = np.zeros(n)
    cols = [A_eq.T]
    lb = [-INF] * A_eq.shape[0]
    ub = [INF] * A_eq.shape[0]
    for i, v in enumerate(variables):
        sl = []
        for (x0, x1, a, b, c) in v["pieces"]:
            if x0 - btol <= x[i] <= x1 + btol:
                sl.append(2. * a * x[i] + b)
        if not sl:
            return False
        g_lo[i] = min(sl)
        e = np.zeros((n, 1))
        e[i, 0] = 1.
        if max(sl) > min(sl):
            cols.append(e); lb.append(0.); ub.append(max(sl) - min(sl))
        scale = max(1., abs(x[i]))
        if np.isfinite(v["hi"]) and x[i] >= v["hi"] - btol * scale:
            cols.append(e); lb.append(0.); ub.append(INF)
        if np.isfinite(v["lo"]) and x[i] <= v["lo"] + btol * scale:
            cols.append(-e); lb.append(0.); ub.append(INF)
        if x[i] > v["hi"] + btol * scale or x[i] < v["lo"] - btol * scale:
            return False
    for j in range(len(b_in)):
        r = A_in[j] @ x - b_in[j]
        if r > btol * max(1., abs(b_in[j])):
            return False
        if r > -btol * max(1., abs(b_in[j])):
            cols.append(A_in[j].reshape(n, 1)); lb.append(0.); ub.append(INF)
    M = np.hstack(cols)
    res = lsq_linear(M, -g_lo, bounds=(np.array(lb), np.array(ub)))
    return bool(np.abs(M @ res.x + g_lo).max() <= atol * max(1., np.abs(g_lo).max()))


# ----------------------------------------------------------------------------------------------
# DC-OPF of a pandapower net from the element tables
# ----------------------------------------------------------------------------------------------
def _fused(net):
    parent = {int(b): int(b) for b in net.bus.index}

    def find(x):
        while parent[x] != x:
            x = parent[x]
        return x
    for _, sw in net.switch.iterrows():
        if sw["et"] == "b" and bool(sw["closed"]) and not (sw.get("z_ohm", 0.) > 0):
            a, b = find(int(sw["bus"])), find(int(sw["element"]))
            if a != b:
                parent[max(a, b)] = min(a, b)
    return {b: find(b) for b in parent}


def dc_problem(net, cost_of):
    """cost_of(tab, idx, lo, hi) -> pieces (user's p-cost in the element's own variable) or None.
    Returns (variables, A_eq, b_eq, A_in, b_in, names) or raises NotImplementedError for unsupported nets."""
    if len(net.trafo) or len(net.trafo3w) or len(net.impedance) or len(net.shunt) or len(net.ward) or len(net.xward):
        raise NotImplementedError("dc_problem: lines only")
    node = _fused(net)
    nodes = sorted(set(node.values()))
    nidx = {b: k for k, b in enumerate(nodes)}
    nn = len(nodes)
    names = []
    variables = []
    inj = []          # per controllable variable: list of (node, factor), constant injections go to `const`
    const = np.zeros(nn)

    def nd(b):
        return nidx[node[int(b)]]

    def add_var(tab, i, lo, hi, terms):
        pcs = cost_of(tab, i, lo, hi) or [(-INF, INF, 0., 0., 0.)]
        variables.append({"lo": float(lo), "hi": float(hi), "pieces": pcs})
        names.append((tab, int(i)))
        inj.append(terms)

    for i in net.ext_grid.index:
        if not net.ext_grid.in_service.at[i]:
            continue
        add_var("ext_grid", i, net.ext_grid.min_p_mw.at[i], net.ext_grid.max_p_mw.at[i], [(nd(net.ext_grid.bus.at[i]), 1.)])
    for i in net.gen.index:
        if not net.gen.in_service.at[i]:
            continue
        ctrl = bool(net.gen.controllable.at[i]) if "controllable" in net.gen else True
        if ctrl:
            add_var("gen", i, net.gen.min_p_mw.at[i], net.gen.max_p_mw.at[i], [(nd(net.gen.bus.at[i]), 1.)])
        else:
            const[nd(net.gen.bus.at[i])] += net.gen.p_mw.at[i] * net.gen.scaling.at[i]
    for tab, sign in (("sgen", 1.), ("load", -1.), ("storage", -1.)):
        t = net[tab]
        for i in t.index:
            if not t.in_service.at[i]:
                continue
            c = t.controllable.at[i] if "controllable" in t else False
            if c == c and bool(c):
                add_var(tab, i, t.min_p_mw.at[i], t.max_p_mw.at[i], [(nd(t.bus.at[i]), sign)])
            else:
                const[nd(t.bus.at[i])] += sign * t.p_mw.at[i] * t.scaling.at[i]
    for i in net.dcline.index:
        if not net.dcline.in_service.at[i]:
            continue
        d = net.dcline.loc[i]
        if not d.p_mw >= 0:
            raise NotImplementedError("reverse dc line")
        # documented model: P leaves the from bus, P*(1-l) - loss_mw enters the to bus
        add_var("dcline", i, 0., d.max_p_mw, [(nd(d.from_bus), -1.), (nd(d.to_bus), 1. - d.loss_percent / 100.)])
        const[nd(d.to_bus)] -= d.loss_mw
    nc = len(variables)
    # angle variables
    for k in range(nn):
        variables.append({"lo": -INF, "hi": INF, "pieces": [(-INF, INF, 0., 0., 0.)]})
        names.append(("theta", nodes[k]))
    n = nc + nn
    A = np.zeros((nn + 1, n))
    b = np.zeros(nn + 1)
    # node balance:  sum injections = sum_l b_l (theta_n - theta_m)
    for k, terms in enumerate(inj):
        for (nd_, f) in terms:
            A[nd_, k] += f
    b[:nn] = -const
    A_in, b_in = [], []
    for i in net.line.index:
        ln = net.line.loc[i]
        if not ln.in_service:
            continue
        f, t = nd(ln.from_bus), nd(ln.to_bus)
        if f == t:
            continue
        vn = net.bus.vn_kv.at[ln.from_bus]
        x_pu = ln.x_ohm_per_km * ln.length_km / ln.parallel / (vn * vn / net.sn_mva)
        bl = 1. / x_pu * net.sn_mva          # MW per rad
        A[f, nc + f] -= bl
        A[f, nc + t] += bl
        A[t, nc + t] -= bl
        A[t, nc + f] += bl
        ml = ln.get("max_loading_percent", np.nan)
        if ml == ml:
            rate = ml / 100. * ln.max_i_ka * ln.df * ln.parallel * np.sqrt(3.) * vn
            row = np.zeros(n)
            row[nc + f], row[nc + t] = bl, -bl
            A_in += [row, -row]
            b_in += [rate, rate]
    # reference angle
    eg = net.ext_grid[net.ext_grid.in_service]
    A[nn, nc + nd(eg.bus.values[0])] = 1.
    b[nn] = np.deg2rad(eg.va_degree.values[0])
    return variables, A, b, np.array(A_in).reshape(-1, n), np.array(b_in), names, nc

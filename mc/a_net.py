"""agentA helper: extra deviation kinds and small read-only helpers shared by checks C03 / C04 / C10.

Additional deviations (JSON lists, first item = kind); everything else is delegated to mc.netalpha.apply_dev:
  ["genx", bus, p, vm, qmin, qmax, scaling, slack, in_service, slack_weight]   (qmin/qmax may be "nan")
  ["egx", bus, vm, va, in_service, slack_weight]
  ["xwardx", bus, ps, pz, in_service, slack_weight]
  ["linex", from, to, {line parameter overrides}]
  ["impx", from, to, r, x, {kwargs}]                  symmetric impedance with optional gf_pu/gt_pu ...
  ["wardx", bus, ps, qs, pz, qz]                      ward with free constant-power / constant-impedance parts
  ["t3x", hv, mv, lv, {trafo3w parameter overrides}]  additional three-winding transformer
  ["zbus", at, p, q, zip_kind, scaling]               new bus hanging on `at` through a line, carrying ONE ZIP load
                                                      (alone on its node: recorded defect C01-zip is kept out)
"""
import numpy as np

import pandapower as pp

from mc import netalpha as na


def _f(x):
    return np.nan if x == "nan" else x


def apply_dev(net, d):
    k = d[0]
    if k == "genx":
        _, bus, p, vm, qmin, qmax, sc, slack, ins, sw = d
        pp.create_gen(net, bus, p, vm_pu=vm, min_q_mvar=_f(qmin), max_q_mvar=_f(qmax), scaling=sc, slack=slack,
                      in_service=ins, slack_weight=sw)
    elif k == "egx":
        _, bus, vm, va, ins, sw = d
        pp.create_ext_grid(net, bus, vm_pu=vm, va_degree=va, in_service=ins, slack_weight=sw, **na.EG)
    elif k == "xwardx":
        _, bus, ps, pz, ins, sw = d
        pp.create_xward(net, bus, ps, 0.1, pz, -0.2, 0.5, 2.0, 1.01, in_service=ins, slack_weight=sw)
    elif k == "linex":
        _, fb, tb, over = d
        prm = dict(na.LINE110 if na._vn(net, fb) > 50 else na.LINE)
        prm.update(over)
        pp.create_line_from_parameters(net, fb, tb, **prm, **na.SC_LINE)
    elif k == "impx":
        _, fb, tb, r, x, kw = d
        pp.create_impedance(net, fb, tb, r, x, 10., **kw)
    elif k == "wardx":
        _, bus, ps, qs, pz, qz = d
        pp.create_ward(net, bus, ps, qs, pz, qz)
    elif k == "t3x":
        _, hb, mb, lb, over = d
        prm = dict(na.TR3)
        prm.update(over)
        pp.create_transformer3w_from_parameters(net, hb, mb, lb, **prm)
    elif k == "zbus":
        _, at, p, q, zk, sc = d
        nb = pp.create_bus(net, na._vn(net, at))
        prm = na.LINE110 if na._vn(net, at) > 50 else na.LINE
        pp.create_line_from_parameters(net, at, nb, **prm, **na.SC_LINE)
        z = na.ZIP[zk]
        pp.create_load(net, nb, p, q, const_z_p_percent=z[0], const_i_p_percent=z[1], const_z_q_percent=z[2],
                       const_i_q_percent=z[3], scaling=sc)
    else:
        na.apply_dev(net, d)


def build(case):
    net = na.base(case["base"])
    for d in case.get("devs", ()):
        apply_dev(net, d)
    return net


def run_pf(net, opts):
    """like netalpha.run_pf, but distinguishes documented refusals by message class"""
    o = dict(opts)
    dc = o.pop("dc", False)
    try:
        if dc:
            pp.rundcpp(net, **o)
        else:
            pp.runpp(net, **o)
    except Exception as e:
        return type(e).__name__
    if not net.converged:
        return "not_converged"
    return "ok"


def energized(net, b):
    v = net.res_bus.vm_pu.get(b, np.nan)
    return bool(np.isfinite(v)) and bool(net.bus.at[b, "in_service"])


def pfsoln_path(net, opts):
    """Which result back-substitution the AC run used (replicates run_newton_raphson_pf._get_numba_functions on the
    internal ppc that the run left behind; read-only, evidence only)."""
    if opts.get("dc"):
        return "dc"
    o = net._options
    if not o.get("numba"):
        return "pypower"
    try:
        ppci = net._ppc["internal"]
        ngen = ppci["gen"].shape[0]
        bus = ppci["bus"]
        shunt = bool(np.any(bus[:, 4]) or np.any(bus[:, 5]))  # GS, BS
    except Exception:
        return "bypass_all_ref"      # powerflow._bypass_pf_and_set_results: no PQ/PV bus, Newton skipped
    if ngen == 1 and not o.get("voltage_depend_loads") and not o.get("distributed_slack") and not shunt:
        return "single_slack"
    return "numba_general"


def xward_internal_p(net, idx):
    """Active power flowing from the xward's bus into its internal r+jx branch, evaluated at the REPORTED voltages
    (res_bus of the xward bus, res_xward vm_internal_pu/va_internal_degree).  MW."""
    xw = net.xward.loc[idx]
    b = int(xw.bus)
    vn = float(net.bus.at[b, "vn_kv"])
    v = net.res_bus.at[b, "vm_pu"] * np.exp(1j * np.deg2rad(net.res_bus.at[b, "va_degree"])) * vn
    vi = net.res_xward.at[idx, "vm_internal_pu"] * np.exp(1j * np.deg2rad(net.res_xward.at[idx, "va_internal_degree"])) * vn
    z = complex(xw.r_ohm, xw.x_ohm)
    s = v * np.conj((v - vi) / z)
    return float(s.real)

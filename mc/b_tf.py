"""agentB helpers for C05 / C23: equivalent re-representations written HERE (not pandapower's toolbox),
result comparison through an explicit correspondence map, and the net alphabet shared by both checks.

A correspondence map `M` says where every result row of the ORIGINAL net is found in the TRANSFORMED net:
    M["bus"][b]            -> [b', ...]           all b' report the voltage of b; res_bus p/q of the b' sum to b
    M["el"][table][i]      -> [(table', i', flip)]  additive columns (p, q, losses, currents) of the images sum to
                                                   the original row, intensive columns (vm, loading) are equal;
                                                   flip swaps the from/to column names (line from/to swap)
Rows of the transformed net that are nobody's image (added out-of-service / zero-power elements, the new
bus-bus switch) are not judged.
"""
import copy

import numpy as np
import pandas as pd

import pandapower as pp

from mc import netalpha as na

# every table of the alphabet that references buses -> its bus columns
BUS_COLS = {
    "load": ["bus"], "sgen": ["bus"], "storage": ["bus"], "motor": ["bus"], "shunt": ["bus"], "ward": ["bus"],
    "xward": ["bus"], "gen": ["bus"], "ext_grid": ["bus"], "asymmetric_load": ["bus"], "asymmetric_sgen": ["bus"],
    "dcline": ["from_bus", "to_bus"], "line": ["from_bus", "to_bus"], "trafo": ["hv_bus", "lv_bus"],
    "trafo3w": ["hv_bus", "mv_bus", "lv_bus"], "impedance": ["from_bus", "to_bus"], "switch": ["bus"],
}
# tables outside the alphabet that would also reference buses; the harness refuses nets that use them
FOREIGN = ("svc", "ssc", "tcsc", "vsc", "measurement", "bus_dc", "line_dc", "b2b_vsc", "source_dc", "load_dc")
SWITCH_ET = {"line": "l", "trafo": "t", "trafo3w": "t3"}
RES_TABLES = ["load", "sgen", "storage", "motor", "shunt", "ward", "xward", "gen", "ext_grid", "asymmetric_load",
              "asymmetric_sgen", "dcline", "line", "trafo", "trafo3w", "impedance", "switch"]

TOL_V = 1e-7          # complex bus voltage, p.u. (NR vs NR, DESIGN 2.5)
TOL_S = 1e-5          # MW / Mvar absolute (+1e-7 relative)
TOL_I = 1e-6          # kA absolute (+1e-6 relative)
TOL_PCT = 1e-4        # loading percent absolute (+1e-6 relative)
TOL_DEG = 2e-5        # auxiliary angle columns


def check_alphabet(net):
    for t in FOREIGN:
        if t in net and isinstance(net[t], pd.DataFrame) and len(net[t]):
            raise RuntimeError("harness: table %s is outside the C05/C23 alphabet" % t)


# ----------------------------------------------------------------------------------------------
# correspondence maps
# ----------------------------------------------------------------------------------------------
def identity_map(net):
    M = {"bus": {int(b): [int(b)] for b in net.bus.index}, "el": {}}
    for t in RES_TABLES:
        if len(net[t]):
            M["el"][t] = {int(i): [(t, int(i), False)] for i in net[t].index}
    return M


def compose(M1, M2):
    """orig -M1-> mid -M2-> final"""
    M = {"bus": {}, "el": {}}
    for b, imgs in M1["bus"].items():
        out = []
        for m in imgs:
            out += M2["bus"].get(m, [])
        M["bus"][b] = out
    for t, rows in M1["el"].items():
        M["el"][t] = {}
        for i, imgs in rows.items():
            out = []
            for (t2, i2, fl) in imgs:
                for (t3, i3, fl3) in M2["el"].get(t2, {}).get(i2, []):
                    out.append((t3, i3, bool(fl) != bool(fl3)))
            M["el"][t][i] = out
    return M


# ----------------------------------------------------------------------------------------------
# comparison
# ----------------------------------------------------------------------------------------------
def _flipcol(c):
    if "_from_" in c:
        return c.replace("_from_", "_to_")
    if "_to_" in c:
        return c.replace("_to_", "_from_")
    return c


def _kind(c):
    if c.startswith("va_"):
        return "deg"
    if c.startswith("vm_"):
        return "v"
    if c == "loading_percent":
        return "pct"
    if c.startswith("i_"):
        return "i"
    return "s"


def _tol(kind, a):
    a = abs(a)
    if kind == "s":
        return TOL_S + 1e-7 * a
    if kind == "i":
        return TOL_I + 1e-6 * a
    if kind == "pct":
        return TOL_PCT + 1e-6 * a
    if kind == "v":
        return 1e-6
    return TOL_DEG


def compare(net_a, net_b, M, dc=False, skip_cols=()):
    """All differences between the results of net_a and the results of net_b read through M.
    Returns list of dicts {table, index, col, a, b}."""
    out = []
    ra, rb = net_a.res_bus, net_b.res_bus
    for b, imgs in M["bus"].items():
        if b not in ra.index:
            out.append({"table": "bus", "index": b, "col": "row", "a": "missing", "b": ""})
            continue
        vma, vaa = ra.at[b, "vm_pu"], ra.at[b, "va_degree"]
        if not imgs:
            continue
        ps, qs = 0., 0.
        for m in imgs:
            if m not in rb.index:
                out.append({"table": "bus", "index": b, "col": "row", "a": float(vma), "b": "missing image %s" % m})
                continue
            vmb, vab = rb.at[m, "vm_pu"], rb.at[m, "va_degree"]
            if np.isnan(vma) != np.isnan(vmb) or (np.isnan(vaa) != np.isnan(vab)):
                out.append({"table": "bus", "index": b, "col": "nan_pattern", "a": [float(vma), float(vaa)],
                            "b": [float(vmb), float(vab)], "image": m})
            elif not np.isnan(vma):
                za = vma * np.exp(1j * np.deg2rad(vaa if not np.isnan(vaa) else 0.))
                zb = vmb * np.exp(1j * np.deg2rad(vab if not np.isnan(vab) else 0.))
                if abs(za - zb) > TOL_V:
                    out.append({"table": "bus", "index": b, "col": "v_complex", "a": [float(vma), float(vaa)],
                                "b": [float(vmb), float(vab)], "image": m, "absdiff": float(abs(za - zb))})
            ps += rb.at[m, "p_mw"]
            qs += rb.at[m, "q_mvar"]
        for col, sa, sb in (("p_mw", ra.at[b, "p_mw"], ps), ("q_mvar", ra.at[b, "q_mvar"], qs)):
            if (dc and col == "q_mvar") or b in M.get("nopq", ()):
                continue
            if np.isnan(sa) != np.isnan(sb) or (not np.isnan(sa) and abs(sa - sb) > _tol("s", sa)):
                out.append({"table": "bus", "index": b, "col": col, "a": float(sa), "b": float(sb)})
    for t, rows in M["el"].items():
        resa = net_a.get("res_" + t)
        if resa is None or not len(resa):
            continue
        for i, imgs in rows.items():
            if i not in resa.index:
                continue
            if not imgs:
                continue
            for col in resa.columns:
                if col in skip_cols or (dc and (col.startswith("q") or col.startswith("ql"))):
                    continue
                a = resa.at[i, col]
                if not isinstance(a, (float, np.floating, int, np.integer)):
                    continue
                kind = _kind(col)
                vals = []
                missing = False
                for img in imgs:
                    t2, i2, fl = img[0], img[1], img[2]
                    r2 = net_b.get("res_" + t2)
                    c2 = _flipcol(col) if fl else col
                    if len(img) > 3:
                        c2 = img[3].get(c2, c2)
                    if r2 is None or i2 not in r2.index or c2 not in r2.columns:
                        missing = True
                        break
                    vals.append(r2.at[i2, c2])
                if missing:
                    if t2 != t and (r2 is not None and i2 in r2.index):
                        continue        # column does not exist for the image's element type (e.g. i_ka)
                    out.append({"table": t, "index": i, "col": col, "a": float(a), "b": "missing image"})
                    continue
                if kind in ("s", "i"):
                    cands = [float(np.sum(vals))]
                else:
                    cands = [float(v) for v in vals]
                cross = any(img[0] != t for img in imgs)
                if not cross and "in_service" in net_a[t].columns and i in net_a[t].index:
                    cross = not bool(net_a[t].at[i, "in_service"])
                for bv in cands:
                    if cross and ((np.isnan(a) and bv == 0.) or (a == 0. and np.isnan(bv))):
                        # "no power": 0 in one result table, NaN in another (element type changed) or for an
                        # out-of-service element (which of the two is reported is the subject of C07, not of C05/C23)
                        continue
                    if np.isnan(a) != np.isnan(bv):
                        out.append({"table": t, "index": i, "col": col, "a": float(a), "b": bv})
                        break
                    if np.isnan(a):
                        continue
                    d = abs(a - bv)
                    if kind == "deg":
                        d = abs((a - bv + 180.) % 360. - 180.)
                    if d > _tol(kind, a):
                        out.append({"table": t, "index": i, "col": col, "a": float(a), "b": bv})
                        break
    return out


# ----------------------------------------------------------------------------------------------
# re-representations (own code; each returns (net2, M, note))
# ----------------------------------------------------------------------------------------------
def relabel_table(net, table, lut):
    """Give table rows new index labels (row order untouched) and update every reference."""
    lut = {int(k): int(v) for k, v in lut.items()}
    if table == "bus":
        net.bus.index = pd.Index([lut[int(b)] for b in net.bus.index], dtype=np.int64)
        for t, cols in BUS_COLS.items():
            if len(net[t]):
                for c in cols:
                    net[t][c] = np.array([lut[int(b)] for b in net[t][c].values], dtype=np.int64)
        if len(net.switch):
            m = (net.switch.et == "b").values
            el = net.switch["element"].values.copy()
            el[m] = [lut[int(b)] for b in el[m]]
            net.switch["element"] = el.astype(np.int64)
        return
    net[table].index = pd.Index([lut[int(i)] for i in net[table].index], dtype=np.int64)
    if table in SWITCH_ET and len(net.switch):
        m = (net.switch.et == SWITCH_ET[table]).values
        el = net.switch["element"].values.copy()
        el[m] = [lut[int(e)] for e in el[m]]
        net.switch["element"] = el.astype(np.int64)


LUTS = {
    "gap": lambda idx: {int(i): 3 * k + 2 for k, i in enumerate(idx)},            # 2,5,8.. (non-contiguous)
    "perm": lambda idx: {int(i): int(j) for i, j in zip(idx, list(idx)[::-1])},   # same label set, reversed
    "shift": lambda idx: {int(i): int(i) + 7 for i in idx},
    "hole0": lambda idx: {int(i): k + 1 for k, i in enumerate(idx)},              # 1..n: len(table) is a used label
    "gapperm": lambda idx: {int(i): 4 * (len(idx) - 1 - k) + 1 for k, i in enumerate(idx)},  # descending labels with gaps
}


def t_relabel(net, table, how):
    n2 = copy.deepcopy(net)
    lut = LUTS[how](list(net[table].index))
    relabel_table(n2, table, lut)
    M = identity_map(net)
    if table == "bus":
        M["bus"] = {b: [lut[b]] for b in M["bus"]}
    elif table in M["el"]:
        M["el"][table] = {i: [(table, lut[i], False)] for i in M["el"][table]}
    return n2, M


def t_relabel_all(net, how):
    """every table relabelled at once (used as a pre-representation by C23).  how == "skew": the gapped labels
    2,5,8.. for the bus table and the tables at odd positions of RES_TABLES, 5,8,11.. for those at even positions, so
    that the index sets of neighbouring tables (line / trafo / trafo3w ...) overlap WITHOUT being aligned: the same
    label names the k-th row of one table and the (k+1)-th row of another."""
    n2 = copy.deepcopy(net)
    M = identity_map(net)
    for table in ["bus"] + RES_TABLES:
        if not len(net[table]):
            continue
        if how == "skew":
            off = 1 if (table != "bus" and RES_TABLES.index(table) % 2 == 0) else 0
            lut = {int(i): 3 * (k + off) + 2 for k, i in enumerate(net[table].index)}
        else:
            lut = LUTS[how](list(net[table].index))
        relabel_table(n2, table, lut)
        if table == "bus":
            M["bus"] = {b: [lut[b]] for b in M["bus"]}
        else:
            M["el"][table] = {i: [(table, lut[i], False)] for i in M["el"][table]}
    return n2, M


def t_rowperm_all(net):
    n2 = copy.deepcopy(net)
    for table in ["bus"] + RES_TABLES:
        if len(net[table]) >= 2:
            n2[table] = n2[table].iloc[::-1]
    return n2, identity_map(net)


def t_split_all(net):
    """every constant-power load and every sgen split 30/70"""
    n2, M = copy.deepcopy(net), identity_map(net)
    for table in ("load", "sgen"):
        for idx in net[table].index:
            if table == "load" and _is_zip(net, idx):
                continue
            p, q = float(net[table].at[idx, "p_mw"]), float(net[table].at[idx, "q_mvar"])
            ni = _append_row_copy(n2, table, idx, p_mw=p * 0.7, q_mvar=q * 0.7)
            n2[table].at[idx, "p_mw"] = p * 0.3
            n2[table].at[idx, "q_mvar"] = q * 0.3
            M["el"][table][int(idx)] = [(table, int(idx), False), (table, ni, False)]
    return n2, M


def t_swap_all(net):
    n2, M = copy.deepcopy(net), identity_map(net)
    for idx in net.line.index:
        f, t = n2.line.at[idx, "from_bus"], n2.line.at[idx, "to_bus"]
        n2.line.at[idx, "from_bus"], n2.line.at[idx, "to_bus"] = t, f
        M["el"]["line"][int(idx)] = [("line", int(idx), True)]
    return n2, M


def t_rowperm(net, table, how):
    n2 = copy.deepcopy(net)
    n = len(net[table])
    order = list(range(n))[::-1] if how == "rev" else (list(range(1, n)) + [0])
    n2[table] = n2[table].iloc[order]
    return n2, identity_map(net)


def t_sn(net):
    n2 = copy.deepcopy(net)
    n2.sn_mva = 100. if net.sn_mva < 50 else 1.
    return n2, identity_map(net)


def _append_row_copy(net, table, idx, new_idx=None, **changes):
    row = net[table].loc[[idx]].copy()
    ni = int(net[table].index.max()) + 1 if new_idx is None else new_idx
    row.index = pd.Index([ni], dtype=np.int64)
    for k, v in changes.items():
        row[k] = v
    dt = net[table].dtypes
    net[table] = pd.concat([net[table], row])
    for c in net[table].columns:
        if net[table][c].dtype != dt[c]:
            try:
                net[table][c] = net[table][c].astype(dt[c])
            except Exception:
                pass
    return ni


def t_split_pq(net, table, idx, frac=0.3):
    """one load / sgen -> two at the same bus carrying frac and 1-frac of p and q (everything else copied)"""
    n2 = copy.deepcopy(net)
    p, q = float(net[table].at[idx, "p_mw"]), float(net[table].at[idx, "q_mvar"])
    ni = _append_row_copy(n2, table, idx, p_mw=p * (1 - frac), q_mvar=q * (1 - frac))
    n2[table].at[idx, "p_mw"] = p * frac
    n2[table].at[idx, "q_mvar"] = q * frac
    if "sn_mva" in n2[table].columns and table == "sgen":
        pass
    M = identity_map(net)
    M["el"][table][int(idx)] = [(table, int(idx), False), (table, ni, False)]
    return n2, M


def t_unparallel(net, idx):
    """line with parallel=n -> n identical lines with parallel=1 (line switches replicated)"""
    n2 = copy.deepcopy(net)
    n = int(net.line.at[idx, "parallel"])
    n2.line.at[idx, "parallel"] = 1
    imgs = [("line", int(idx), False)]
    M = identity_map(net)
    for _ in range(n - 1):
        ni = _append_row_copy(n2, "line", idx)
        imgs.append(("line", ni, False))
        for s in net.switch.index[(net.switch.et == "l") & (net.switch.element == idx)]:
            ns = _append_row_copy(n2, "switch", s, element=ni)
            M["el"]["switch"][int(s)].append(("switch", ns, False))   # the line's switch current splits as well
    M["el"]["line"][int(idx)] = imgs
    return n2, M


def t_swapline(net, idx):
    n2 = copy.deepcopy(net)
    f, t = n2.line.at[idx, "from_bus"], n2.line.at[idx, "to_bus"]
    n2.line.at[idx, "from_bus"], n2.line.at[idx, "to_bus"] = t, f
    M = identity_map(net)
    M["el"]["line"][int(idx)] = [("line", int(idx), True)]
    return n2, M


def t_add(net, what, bus):
    """add an out-of-service element or an in-service element of zero power at `bus` (real create_* calls)"""
    n2 = copy.deepcopy(net)
    vn = float(net.bus.at[bus, "vn_kv"])
    other = [int(b) for b in net.bus.index if b != bus and float(net.bus.at[b, "vn_kv"]) == vn]
    if what == "oos_load":
        pp.create_load(n2, bus, 5., 2., in_service=False)
    elif what == "oos_sgen":
        pp.create_sgen(n2, bus, 5., 2., in_service=False)
    elif what == "oos_gen":
        pp.create_gen(n2, bus, 3., vm_pu=1.05, in_service=False)
    elif what == "oos_ext_grid":
        pp.create_ext_grid(n2, bus, vm_pu=1.07, va_degree=5., in_service=False)
    elif what == "oos_shunt":
        pp.create_shunt(n2, bus, 2., 1., in_service=False)
    elif what == "oos_ward":
        pp.create_ward(n2, bus, 1., 1., 1., 1., in_service=False)
    elif what == "oos_xward":
        pp.create_xward(n2, bus, 1., 1., 1., 1., 0.5, 2., 1.05, in_service=False)
    elif what == "oos_storage":
        pp.create_storage(n2, bus, 2., 10., q_mvar=1., in_service=False)
    elif what == "oos_motor":
        pp.create_motor(n2, bus, 1., 0.9, in_service=False)
    elif what == "oos_line":
        pp.create_line_from_parameters(n2, bus, other[0], in_service=False, **na.LINE)
    elif what == "oos_impedance":
        pp.create_impedance(n2, bus, other[0], 0.01, 0.01, 10., in_service=False)
    elif what == "oos_dcline":
        pp.create_dcline(n2, bus, other[0], 1., 1., 0.01, 1.01, 1.0, in_service=False)
    elif what == "oos_bus":
        # out-of-service bus carrying in-service bus elements, tied by an out-of-service line (an in-service line to
        # it would be an energised open-ended line: physically different, not an equivalent representation)
        nb = pp.create_bus(n2, vn, in_service=False)
        pp.create_line_from_parameters(n2, bus, nb, in_service=False, **na.LINE)
        pp.create_load(n2, nb, 1., 1.)
        pp.create_gen(n2, nb, 1., vm_pu=1.04)
    elif what == "open_bb_switch":
        pp.create_switch(n2, bus, other[0], "b", closed=False)
    elif what == "zero_load":
        pp.create_load(n2, bus, 0., 0.)
    elif what == "zero_sgen":
        pp.create_sgen(n2, bus, 0., 0.)
    elif what == "zero_storage":
        pp.create_storage(n2, bus, 0., 10., q_mvar=0.)
    elif what == "zero_shunt":
        pp.create_shunt(n2, bus, 0., 0.)
    elif what == "zero_ward":
        pp.create_ward(n2, bus, 0., 0., 0., 0.)
    elif what == "zero_scaled_load":
        pp.create_load(n2, bus, 3., 1., scaling=0.)
    elif what == "zero_motor":
        pp.create_motor(n2, bus, 0., 0.9)
    elif what == "zero_asym_load":
        pp.create_asymmetric_load(n2, bus, 0., 0., 0., 0., 0., 0.)
    else:
        raise ValueError(what)
    return n2, identity_map(net)


ADD_THOROUGH_ONLY = ("oos_sgen", "oos_storage", "zero_storage", "zero_sgen", "oos_load", "oos_shunt", "oos_ward",
                     "oos_motor", "oos_dcline", "zero_asym_load")     # PQ-like duplicates of kinds kept in quick
NEED_OTHER = ("oos_line", "oos_impedance", "oos_dcline", "open_bb_switch")
ADD_CORE = ["oos_gen", "oos_ext_grid", "oos_xward", "oos_bus", "zero_load", "zero_shunt", "open_bb_switch"]
ADD_KINDS = ["oos_load", "oos_sgen", "oos_gen", "oos_ext_grid", "oos_shunt", "oos_ward", "oos_xward", "oos_storage",
             "oos_motor", "oos_line", "oos_impedance", "oos_dcline", "oos_bus", "open_bb_switch", "zero_load",
             "zero_sgen", "zero_storage", "zero_shunt", "zero_ward", "zero_scaled_load", "zero_motor", "zero_asym_load"]


def terminals(net, bus):
    """every (table, index, bus column) attached to `bus` (switch rows: line/trafo switches sitting at the bus and
    bus-bus switches with either side there)"""
    out = []
    for t, cols in BUS_COLS.items():
        if t == "switch" or not len(net[t]):
            continue
        for c in cols:
            for i in net[t].index[(net[t][c] == bus).values]:
                out.append([t, int(i), c])
    return out


def t_splitbus(net, bus, move, direction):
    """bus -> bus + new bus fused by a closed z=0 bus-bus switch; the terminals in `move` go to the new bus
    (line/trafo switches follow their element's terminal; bus-bus switches stay)."""
    n2 = copy.deepcopy(net)
    nb = int(net.bus.index.max()) + 1
    row = net.bus.loc[[bus]].copy()
    row.index = pd.Index([nb], dtype=np.int64)
    row["name"] = "split_of_%s" % bus
    dt = n2.bus.dtypes
    n2.bus = pd.concat([n2.bus, row])
    for c in n2.bus.columns:
        if n2.bus[c].dtype != dt[c]:
            try:
                n2.bus[c] = n2.bus[c].astype(dt[c])
            except Exception:
                pass
    for (t, i, c) in move:
        n2[t].at[i, c] = nb
        if t in SWITCH_ET and len(n2.switch):
            m = (n2.switch.et == SWITCH_ET[t]) & (n2.switch.element == i) & (n2.switch.bus == bus)
            n2.switch.loc[m, "bus"] = nb
    if direction == "old_new":
        pp.create_switch(n2, bus, nb, "b", closed=True, z_ohm=0.)
    else:
        pp.create_switch(n2, nb, bus, "b", closed=True, z_ohm=0.)
    M = identity_map(net)
    M["bus"][int(bus)] = [int(bus), nb]
    return n2, M


def t_chain(net, bus, L, orient, order, place, pos0=0):
    """bus -> L buses coupled IN A ROW by L-1 closed z=0 bus-bus switches.  The original bus sits at position pos0 of the
    row, the new buses (labels max+1..) fill the other positions in ascending order.  orient[j] = 0: switch j is
    (bus=node j, element=node j+1), 1: reversed; `order` is the creation order of the switches (a permutation);
    place = "spread": terminal k of the bus goes to row position (L-1-k) mod L, "ends": bus elements to the far end,
    branches stay, "stay": nothing moves."""
    n2 = copy.deepcopy(net)
    first = int(net.bus.index.max()) + 1
    new = list(range(first, first + L - 1))
    row = net.bus.loc[[bus]].copy()
    dt = n2.bus.dtypes
    rows = []
    for nb in new:
        r = row.copy()
        r.index = pd.Index([nb], dtype=np.int64)
        r["name"] = "chain_of_%s" % bus
        rows.append(r)
    n2.bus = pd.concat([n2.bus] + rows)
    for c in n2.bus.columns:
        if n2.bus[c].dtype != dt[c]:
            try:
                n2.bus[c] = n2.bus[c].astype(dt[c])
            except Exception:
                pass
    nodes = list(new)
    nodes.insert(pos0, int(bus))
    terms = terminals(net, bus)
    for k, (t, i, c) in enumerate(terms):
        if place == "spread":
            tgt = nodes[(L - 1 - k) % L]
        elif place == "ends":
            tgt = nodes[L - 1] if t not in ("line", "trafo", "trafo3w", "impedance", "dcline") else int(bus)
        else:
            tgt = int(bus)
        if tgt == int(bus):
            continue
        n2[t].at[i, c] = tgt
        if t in SWITCH_ET and len(n2.switch):
            m = (n2.switch.et == SWITCH_ET[t]) & (n2.switch.element == i) & (n2.switch.bus == bus)
            n2.switch.loc[m, "bus"] = tgt
    for j in order:
        a, b = nodes[j], nodes[j + 1]
        if orient[j]:
            a, b = b, a
        pp.create_switch(n2, a, b, "b", closed=True, z_ohm=0.)
    M = identity_map(net)
    M["bus"][int(bus)] = [int(x) for x in nodes]
    return n2, M


def enum_chains(net, bus, L, places=("spread",), pos0s=(0,)):
    """every orientation (2^(L-1)) x every creation order ((L-1)!) of the coupling switches"""
    import itertools
    T = []
    for place in places:
        for pos0 in pos0s:
            for orient in itertools.product((0, 1), repeat=L - 1):
                for order in itertools.permutations(range(L - 1)):
                    T.append(["chain", int(bus), L, list(orient), list(order), place, pos0])
    return T


# ----------------------------------------------------------------------------------------------
# enumeration of (transformation, target) for one net
# ----------------------------------------------------------------------------------------------
def _is_zip(net, idx):
    r = net.load.loc[idx]
    return any(abs(float(r.get(c, 0.) or 0.)) > 0 for c in ("const_z_p_percent", "const_i_p_percent",
                                                             "const_z_q_percent", "const_i_q_percent"))


def has_zip(net):
    return any(_is_zip(net, i) for i in net.load.index)


def enum_transforms(net, tier, hot):
    """Deterministic list of [descriptor, level] of every applicable (transformation, target).
    level 0: run under every option set of the case; in the quick tier level 1 = only under the first option set
    (ac), level 2 = under the first two (ac, ac without numba: the numpy bus-fusing path), 3 = first and last (ac, dc),
    4 = thorough tier only."""
    quick = tier == "quick"
    T = [[["sn"], 0]]
    for tab in ["bus"] + RES_TABLES:
        n = len(net[tab])
        if not n:
            continue
        lvl = 0 if tab in ("bus", "switch", "xward", "trafo3w") else 3      # 3 = first and last option set (ac, dc)
        hows = ["gap", "gapperm", "hole0"] if quick else ["gap", "perm", "shift", "gapperm", "hole0"]
        for how in hows:
            if how == "perm" and n < 2:
                continue
            if how == "hole0" and tab != "bus":
                T.append([["relabel", tab, how], 1 if tab in ("switch", "xward", "trafo3w", "trafo", "line") else 4])
            else:
                T.append([["relabel", tab, how], lvl])
        if n >= 2:
            T.append([["rowperm", tab, "rev"], lvl])
            if n >= 3 and not quick:
                T.append([["rowperm", tab, "rot"], lvl])
    for tab in ("load", "sgen"):
        for i in net[tab].index:
            if tab == "load" and _is_zip(net, i):
                T.append([["split_zip", int(i)], 0])
            else:
                T.append([["split", tab, int(i)], 0])
    for i in net.line.index:
        if int(net.line.at[i, "parallel"]) > 1:
            T.append([["unparallel", int(i)], 0])
        T.append([["swapline", int(i)], 0])
    for k, b in enumerate(hot):
        for what in ADD_KINDS:
            if quick and ((k > 0 and what not in ADD_CORE) or what in ADD_THOROUGH_ONLY):
                continue
            if what in NEED_OTHER and not any(b2 != b and net.bus.at[b2, "vn_kv"] == net.bus.at[b, "vn_kv"]
                                              for b2 in net.bus.index):
                continue        # no second bus of the same voltage level to connect to
            T.append([["add", what, int(b)], 0 if (what in ADD_CORE and k == 0) else 1])
    for b in net.bus.index:
        terms = terminals(net, b)
        subs = []
        n = len(terms)
        full = n <= (3 if quick else 6)
        for mask in range(1, 2 ** n):
            sel = [terms[k] for k in range(n) if mask >> k & 1]
            if full or len(sel) == 1 or len(sel) == n or (len(sel) == n - 1 and not quick):
                subs.append(sel)
        be = [t for t in terms if t[0] not in ("line", "trafo", "trafo3w", "impedance", "dcline")]
        if be and be not in subs:
            subs.append(be)
        subs.append([])       # an empty new bus hanging on the switch
        for k, sel in enumerate(subs):
            simple = len(sel) == 0 or len(sel) == n
            da, db = ("old_new", "new_old") if k % 2 == 0 else ("new_old", "old_new")
            T.append([["splitbus", int(b), sel, da], 0 if simple else 2])
            T.append([["splitbus", int(b), sel, db], 1 if simple else 4])   # 4: thorough only (traded for the chains)
    return T


def enum_composite(net, hot):
    """the small set used for the k=2 networks of the thorough tier: every transformation kind once, applied to all
    of its targets at the same time (bus splits: the bus elements of each collision bus, and each single terminal)"""
    T = [["sn"], ["relabel_all", "gap"], ["relabel_all", "gapperm"], ["rowperm_all"], ["split_all"], ["swap_all"]]
    for i in net.line.index:
        if int(net.line.at[i, "parallel"]) > 1:
            T.append(["unparallel", int(i)])
    for what in ADD_CORE:
        if what in NEED_OTHER and not any(b2 != hot[0] and net.bus.at[b2, "vn_kv"] == net.bus.at[hot[0], "vn_kv"]
                                          for b2 in net.bus.index):
            continue
        T.append(["add", what, int(hot[0])])
    for b in hot:
        terms = terminals(net, b)
        be = [t for t in terms if t[0] not in ("line", "trafo", "trafo3w", "impedance", "dcline")]
        for sel in ([be] if be else []) + [[t] for t in terms] + [terms]:
            T.append(["splitbus", int(b), sel, "old_new"])
    return T


def level_applies(level, opt, case_opts, tier):
    if tier != "quick" or level == 0:
        return True
    k = case_opts.index(opt)
    if level == 4:
        return False
    if level == 1:
        return k == 0
    if level == 2:
        return k <= 1
    return k == 0 or k == len(case_opts) - 1


def apply_transform(net, tf):
    k = tf[0]
    if k == "sn":
        return t_sn(net)
    if k == "relabel":
        return t_relabel(net, tf[1], tf[2])
    if k == "relabel_all":
        return t_relabel_all(net, tf[1])
    if k == "rowperm":
        return t_rowperm(net, tf[1], tf[2])
    if k == "split":
        return t_split_pq(net, tf[1], tf[2])
    if k == "split_zip":
        return t_split_pq(net, "load", tf[1])
    if k == "unparallel":
        return t_unparallel(net, tf[1])
    if k == "swapline":
        return t_swapline(net, tf[1])
    if k == "add":
        return t_add(net, tf[1], tf[2])
    if k == "splitbus":
        return t_splitbus(net, tf[1], [tuple(x) for x in tf[2]], tf[3])
    if k == "chain":
        return t_chain(net, tf[1], tf[2], tf[3], tf[4], tf[5], tf[6] if len(tf) > 6 else 0)
    if k == "id":
        return copy.deepcopy(net), identity_map(net)
    if k == "rowperm_all":
        return t_rowperm_all(net)
    if k == "split_all":
        return t_split_all(net)
    if k == "swap_all":
        return t_swap_all(net)
    raise ValueError("unknown transformation %r" % (tf,))

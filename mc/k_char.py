"""Helpers of check C32 (agentK): finite alphabets of characteristic data and the evaluation oracle.

Everything is a plain enumeration: x = every strictly increasing subset (size 2..5) of a 7-value set, y = every
distinct ordered selection from a 5-element multiset, class/interpolator = every kind the code can build.
"""
import itertools
import json
import math

import numpy as np

X_ALPHA = [-1.0, 0.0, 0.5, 1.0, 2.0, 10.0, 1e3]
Y_MULTISET = [-2.0, 0.0, 1.0, 1.0, 5.0]
X_LOG = [1e-5, 0.5, 1.0, 10.0, 1e3]               # positive, 8 decades incl. a value below 1e-4 (log10 is taken of the data)
Y_LOG_MULTISET = [1e-6, 0.01, 1.0, 1.0, 500.0]    # positive, 8.7 decades, a tie, values on both sides of 1 (log sign change)

# interp1d kinds that scipy offers + the spline order each needs (n points > order)
INTERP1D_KINDS = ["linear", "nearest", "nearest-up", "zero", "slinear", "quadratic", "cubic", "previous", "next"]
MIN_POINTS = {"quadratic": 3, "cubic": 4, "slinear": 2, "zero": 2}
# kinds whose interpolant never leaves [min, max] of the two neighbouring support values
SHAPE_PRESERVING = {"char", "linear", "slinear", "Pchip", "nearest", "nearest-up", "zero", "previous", "next"}

RTOL = 1e-9


def x_subsets(alpha, sizes=(2, 3, 4, 5)):
    out = []
    for n in sizes:
        for c in itertools.combinations(alpha, n):
            out.append(list(c))
    return out


def y_assignments(multiset, n):
    """every distinct ordered selection of n values from the multiset (deterministic order)"""
    seen, out = set(), []
    for perm in itertools.permutations(multiset, n):
        if perm not in seen:
            seen.add(perm)
            out.append(list(perm))
    return out


def monotone(y):
    d = np.diff(np.asarray(y, float))
    return bool(np.all(d >= 0) or np.all(d <= 0))


def eval_grid(x):
    """support points, 9 interior points per interval, two points outside on each side"""
    pts = []
    for a, b in zip(x[:-1], x[1:]):
        pts.append(("sup", a))
        for k in range(1, 10):
            pts.append(("int", a + (b - a) * k / 10.0))
    pts.append(("sup", x[-1]))
    span = x[-1] - x[0]
    outside = [x[0] - span, x[0] - 0.25 * span, x[-1] + 0.25 * span, x[-1] + span]
    return pts, outside


def same(a, b):
    """identical evaluations: bitwise equal floats, NaN == NaN"""
    a, b = np.asarray(a, float), np.asarray(b, float)
    if a.shape != b.shape:
        return False
    return bool(np.all((a == b) | (np.isnan(a) & np.isnan(b))))


def scale_of(y):
    return max(1.0, float(np.max(np.abs(y))))


def judge_values(kind_key, x, y, vals_sup, vals_grid, grid, relative=False):
    """clauses 'support_points' and 'within_neighbours' on already evaluated numbers.
    vals_sup: c(x_i); vals_grid: c(g) for every (tag, g) in grid. Returns list of (clause, detail).
    relative=True (logarithmic classes, data over many decades): tolerance 1e-9 relative to each value itself."""
    bad = []
    sc = scale_of(y)
    for xi, yi, vi in zip(x, y, vals_sup):
        if not (math.isfinite(vi) and abs(vi - yi) <= RTOL * (abs(yi) if relative else max(sc, abs(yi)))):
            bad.append(("support_points", {"x_i": xi, "y_i": yi, "value": float(vi)}))
            break
    if kind_key in SHAPE_PRESERVING and monotone(y):
        j = 0
        for (tag, g), v in zip(grid, vals_grid):
            while j + 1 < len(x) - 1 and g >= x[j + 1]:
                j += 1
            lo, hi = min(y[j], y[j + 1]), max(y[j], y[j + 1])
            tol_lo, tol_hi = (RTOL * abs(lo), RTOL * abs(hi)) if relative else (RTOL * sc, RTOL * sc)
            if not (math.isfinite(v) and lo - tol_lo <= v <= hi + tol_hi):
                bad.append(("within_neighbours", {"x": g, "value": float(v), "interval": [x[j], x[j + 1]],
                                                  "neighbours": [y[j], y[j + 1]]}))
                break
    return bad


def jdump(obj):
    return json.dumps(obj, sort_keys=True)

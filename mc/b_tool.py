"""agentB: C23 - the real pandapower toolbox transformations, their applicable targets and the correspondence maps.

Every function here calls the REAL toolbox function on a deep copy of a SOLVED net and returns (net2, M, note);
M is a correspondence map as in mc.b_tf (derived from the function's return value, from tag columns carried
through the call, or from the documented behaviour).  note == "refused" means the function declined the target
(e.g. only_valid_replace) and nothing is compared.
"""
import copy
import warnings

import numpy as np
import pandas as pd

import pandapower as pp
import pandapower.toolbox as tb

from mc import netalpha as na
from mc import b_tf

TAG = "b_tag"


class HarnessError(Exception):
    pass

BRANCH_BUSCOLS = {"line": ["from_bus", "to_bus"], "trafo": ["hv_bus", "lv_bus"], "trafo3w": ["hv_bus", "mv_bus", "lv_bus"],
                  "impedance": ["from_bus", "to_bus"], "dcline": ["from_bus", "to_bus"]}


def _tag(net):
    for t in ["bus"] + b_tf.RES_TABLES:
        if len(net[t]):
            net[t][TAG] = np.array(net[t].index.values, dtype=np.int64)


def _map_from_tags(net_old, net_new):
    M = {"bus": {}, "el": {}}
    inv = {int(tag): int(i) for i, tag in zip(net_new.bus.index, net_new.bus[TAG].values)} if len(net_new.bus) else {}
    M["bus"] = {int(b): ([inv[int(b)]] if int(b) in inv else []) for b in net_old.bus.index}
    for t in b_tf.RES_TABLES:
        if not len(net_old[t]):
            continue
        inv = {}
        if len(net_new[t]) and TAG in net_new[t].columns:
            for i, tag in zip(net_new[t].index, net_new[t][TAG].values):
                if not pd.isnull(tag):
                    inv[int(tag)] = int(i)
        M["el"][t] = {int(i): ([(t, inv[int(i)], False)] if int(i) in inv else []) for i in net_old[t].index}
    return M


def _unmap_line_switches(M, net, lines):
    """impedances carry no switches: the line switches of a replaced line are dropped with it (no image)"""
    for s in net.switch.index:
        if net.switch.at[s, "et"] == "l" and int(net.switch.at[s, "element"]) in [int(i) for i in lines]:
            M["el"]["switch"][int(s)] = []


def _prune_dead(M, net_old):
    """rows that vanished may only be rows without a result (NaN / zero everywhere); others stay in M so that the
    comparison reports the missing image"""
    for b in list(M["bus"]):
        if not M["bus"][b]:
            r = net_old.res_bus.loc[b]
            if np.isnan(r.vm_pu):
                continue
            M["bus"][b] = [-1]          # energised bus vanished -> reported as missing image
    for t, rows in M["el"].items():
        res = net_old.get("res_" + t)
        for i in list(rows):
            if rows[i] or res is None or i not in res.index:
                continue
            vals = [v for c, v in res.loc[i].items() if isinstance(v, (float, np.floating)) and not c.startswith("v")]
            if any(np.isfinite(v) and abs(v) > 1e-9 for v in vals):
                rows[i] = [(t, -1, False)]
    return M


# ----------------------------------------------------------------------------------------------
# connectivity used to pick "a supplied island"
# ----------------------------------------------------------------------------------------------
def islands(net):
    """Components w.r.t. every in-service branch element (whatever its switches say) and every closed bus-bus switch.
    Cutting a net along these components removes only out-of-service branches and open bus-bus switches, i.e.
    nothing that carries current."""
    parent = {int(b): int(b) for b in net.bus.index}

    def find(x):
        while parent[x] != x:
            parent[x] = parent[parent[x]]
            x = parent[x]
        return x

    def union(a, b):
        ra, rb = find(int(a)), find(int(b))
        if ra != rb:
            parent[max(ra, rb)] = min(ra, rb)
    for t, cols in BRANCH_BUSCOLS.items():
        for i in net[t].index:
            if not bool(net[t].at[i, "in_service"]):
                continue
            bs = [net[t].at[i, c] for c in cols]
            for b in bs[1:]:
                union(bs[0], b)
    for i in net.switch.index:
        if net.switch.at[i, "et"] == "b" and bool(net.switch.at[i, "closed"]):
            union(net.switch.at[i, "bus"], net.switch.at[i, "element"])
    comps = {}
    for b in parent:
        comps.setdefault(find(b), []).append(b)
    return [sorted(v) for _, v in sorted(comps.items())]


def supplied(net, comp):
    s = set(comp)
    eg = net.ext_grid[net.ext_grid.in_service & net.ext_grid.bus.isin(s)]
    eg = eg[net.bus.loc[eg.bus.values, "in_service"].values] if len(eg) else eg
    if len(eg):
        return True
    if len(net.gen):
        g = net.gen[net.gen.in_service & net.gen.slack & net.gen.bus.isin(s)]
        g = g[net.bus.loc[g.bus.values, "in_service"].values] if len(g) else g
        return len(g) > 0
    return False


# ----------------------------------------------------------------------------------------------
# companion net for merge_nets (disjoint from every case net by construction: own objects)
# ----------------------------------------------------------------------------------------------
_COMP = {}      # solved companion per option set (constant input, never modified: deep-copied on use)


def companion():
    net = na.base("T3")
    pp.create_load(net, 3, 0.7, 0.2)
    pp.create_sgen(net, 2, 0.3, 0.05)
    return net


# ----------------------------------------------------------------------------------------------
# enumeration
# ----------------------------------------------------------------------------------------------
def enum_tools(net, tier):
    T = [["cont_bus", 0], ["cont_bus", 5], ["cont_elem", 0], ["drop_oos"], ["drop_inactive"],
         ["merge", "case_first"], ["merge", "case_second"]]
    if tier != "quick":
        T.append(["cont_elem", 3])
    declining = 0
    for i in net.line.index:
        if int(net.line.at[i, "parallel"]) > 1:
            T.append(["merge_parallel", int(i)])
        if float(net.line.at[i, "c_nf_per_km"]) != 0. or float(net.line.at[i, "g_us_per_km"]) != 0.:
            # only_valid_replace declines lines with shunt admittance: quick keeps one such target per net
            declining += 1
            if tier == "quick" and declining > 1:
                continue
        T.append(["line2imp", int(i), "net"])
        T.append(["line2imp2line", int(i)])
        if tier != "quick":
            T.append(["line2imp", int(i), 10.])
    if len(net.line) > 1:
        T.append(["line2imp", "all", "net"])
        # multi-line calls: every ORDERED pair of lines of which at least one is replaceable (the other may be declined
        # by only_valid_replace, sit at another voltage level, ...): per-call state must not leak between lines
        ok = [int(i) for i in net.line.index if float(net.line.at[i, "c_nf_per_km"]) == 0.
              and float(net.line.at[i, "g_us_per_km"]) == 0.]
        for i in net.line.index:
            for j in net.line.index:
                if i != j and (int(i) in ok or int(j) in ok):
                    T.append(["line2imp", [int(i), int(j)], "net"])
    for i in net.impedance.index:
        T.append(["imp2line", int(i)])
        T.append(["imp2line2imp", int(i)])
    for i in net.ext_grid.index:
        T.append(["eg2gen", int(i)])
    if len(net.ext_grid) > 1:
        T.append(["eg2gen", "all"])
    for i in net.gen.index:
        T.append(["gen2eg", int(i)])
    for i in net.ward.index:
        T.append(["ward", int(i)])
    for i in net.xward.index:
        T.append(["xward", int(i)])
    comps = islands(net)
    for comp in comps:
        if supplied(net, comp):
            T.append(["subnet", comp])
    for s in net.switch.index:
        r = net.switch.loc[s]
        if r.et == "b" and bool(r.closed) and not (r.z_ohm > 0) and net.bus.at[r.bus, "in_service"] and \
                net.bus.at[r.element, "in_service"]:
            T.append(["fuse", int(r.bus), int(r.element)])
            T.append(["fuse", int(r.element), int(r.bus)])
    return T


def line_targets(net, t):
    if t[1] == "all":
        return list(net.line.index)
    return list(t[1]) if isinstance(t[1], (list, tuple)) else [t[1]]


def clause_of(t):
    return {"cont_bus": "continuous_bus_index", "cont_elem": "continuous_elements_index", "drop_oos": "drop_out_of_service",
            "drop_inactive": "drop_inactive", "merge": "merge_nets", "line2imp": "line_to_impedance",
            "line2imp2line": "line_impedance_round_trip", "imp2line": "impedance_to_line",
            "imp2line2imp": "impedance_line_round_trip", "merge_parallel": "merge_parallel_line", "eg2gen": "ext_grid_to_gen",
            "gen2eg": "gen_to_ext_grid", "ward": "ward_to_internal", "xward": "xward_to_internal", "subnet": "select_subnet",
            "fuse": "fuse_buses"}[t[0]]


# ----------------------------------------------------------------------------------------------
# application
# ----------------------------------------------------------------------------------------------
def apply_tool(net, t, opts):
    """net: SOLVED original (not modified). returns (net2 or (netA, netB...), M, note, extra)"""
    k = t[0]
    n2 = copy.deepcopy(net)
    skip = ()
    extra = {}
    if k == "cont_bus":
        _tag(n2)
        lut = tb.create_continuous_bus_index(n2, start=t[1])
        M = _map_from_tags(net, n2)
        # the function returns the mapping old -> new: it must agree with where the rows went
        extra["lookup_ok"] = all(M["bus"][int(b)] == [int(lut[b])] for b in net.bus.index)
        extra["contiguous"] = sorted(n2.bus.index) == list(range(t[1], t[1] + len(n2.bus)))
    elif k == "cont_elem":
        _tag(n2)
        tb.create_continuous_elements_index(n2, start=t[1])
        M = _map_from_tags(net, n2)
    elif k == "drop_oos":
        _tag(n2)
        tb.drop_out_of_service_elements(n2)
        M = _prune_dead(_map_from_tags(net, n2), net)
    elif k == "drop_inactive":
        _tag(n2)
        tb.drop_inactive_elements(n2)
        extra["raw_map"] = _map_from_tags(net, n2)
        M = _prune_dead(_map_from_tags(net, n2), net)
    elif k == "merge":
        key = repr(sorted(opts.items()))
        if key not in _COMP:
            comp = companion()
            oc = na.run_pf(comp, opts)
            if oc != "ok":
                raise HarnessError("companion net does not solve: " + oc)
            _COMP[key] = comp
        comp = copy.deepcopy(_COMP[key])
        ca, cb = copy.deepcopy(net), copy.deepcopy(comp)
        _tag(ca)
        _tag(cb)
        for tt in ["bus"] + b_tf.RES_TABLES:        # tags of the companion are shifted to stay unique
            if len(cb[tt]):
                cb[tt][TAG] = cb[tt][TAG] + 1000
        first, second = (ca, cb) if t[1] == "case_first" else (cb, ca)
        with warnings.catch_warnings():
            warnings.simplefilter("ignore")
            n2, lut = tb.merge_nets(first, second, validate=False, merge_results=False, std_prio_on_net1=True,
                                    return_net2_reindex_lookup=True, net2_reindex_log_level=None)
        M = _prune_dead(_map_from_tags(net, n2), net)
        M2 = {"bus": {}, "el": {}}
        inv = {int(tag): int(i) for i, tag in zip(n2.bus.index, n2.bus[TAG].values)}
        M2["bus"] = {int(b): ([inv[int(b) + 1000]] if int(b) + 1000 in inv else [-1]) for b in comp.bus.index}
        for tt in b_tf.RES_TABLES:
            if not len(comp[tt]):
                continue
            inv = {int(tag): int(i) for i, tag in zip(n2[tt].index, n2[tt][TAG].values) if not pd.isnull(tag)}
            M2["el"][tt] = {int(i): ([(tt, inv[int(i) + 1000], False)] if int(i) + 1000 in inv else [(tt, -1, False)])
                            for i in comp[tt].index}
        extra["second"] = (comp, M2)
        # documented: elements of the first net keep their indices
        firstnet = net if t[1] == "case_first" else comp
        Mf = M if t[1] == "case_first" else M2
        extra["first_keeps_index"] = all(v == [b] for b, v in Mf["bus"].items()) and all(
            imgs == [(tt, i, False)] for tt, rows in Mf["el"].items() for i, imgs in rows.items())
    elif k == "line2imp":
        idx = line_targets(net, t)
        sn = None if t[2] == "net" else t[2]
        new = tb.replace_line_by_impedance(n2, index=list(idx), sn_mva=sn, only_valid_replace=True)
        replaced = [i for i in idx if i not in n2.line.index]
        if not replaced:
            return n2, None, "refused", extra
        if len(new) != len(replaced):
            raise HarnessError("replace_line_by_impedance returned %s for %s" % (new, replaced))
        M = b_tf.identity_map(net)
        for i, j in zip(replaced, new):
            M["el"]["line"][int(i)] = [("impedance", int(j), False)]
        _unmap_line_switches(M, net, replaced)
    elif k == "line2imp2line":
        new = tb.replace_line_by_impedance(n2, index=[t[1]], only_valid_replace=True)
        if not new:
            return n2, None, "refused", extra
        back = tb.replace_impedance_by_line(n2, index=list(new), only_valid_replace=True,
                                            max_i_ka=float(net.line.at[t[1], "max_i_ka"]) * int(net.line.at[t[1], "parallel"]))
        if len(back) != 1:
            return n2, None, "refused_back", extra
        M = b_tf.identity_map(net)
        M["el"]["line"][int(t[1])] = [("line", int(back[0]), False)]
        if ((net.switch.et == "l") & (net.switch.element == t[1]) & ~net.switch.closed).any():
            # a switched-off line comes back as an out-of-service line without switch: electrically the same for the
            # rest of the net (judged), but its own row reports 0 / bus voltage instead of NaN (not judged)
            M["el"]["line"][int(t[1])] = []
        _unmap_line_switches(M, net, [t[1]])
        skip = ("loading_percent",)
    elif k == "imp2line":
        new = tb.replace_impedance_by_line(n2, index=[t[1]], only_valid_replace=True)
        if not new:
            return n2, None, "refused", extra
        M = b_tf.identity_map(net)
        M["el"]["impedance"][int(t[1])] = [("line", int(new[0]), False)]
    elif k == "imp2line2imp":
        new = tb.replace_impedance_by_line(n2, index=[t[1]], only_valid_replace=True)
        if not new:
            return n2, None, "refused", extra
        back = tb.replace_line_by_impedance(n2, index=list(new), sn_mva=float(net.impedance.at[t[1], "sn_mva"]),
                                            only_valid_replace=True)
        if len(back) != 1:
            return n2, None, "refused_back", extra
        M = b_tf.identity_map(net)
        M["el"]["impedance"][int(t[1])] = [("impedance", int(back[0]), False)]
    elif k == "merge_parallel":
        tb.merge_parallel_line(n2, t[1])
        M = b_tf.identity_map(net)
    elif k == "eg2gen":
        idx = list(net.ext_grid.index) if t[1] == "all" else [t[1]]
        new = tb.replace_ext_grid_by_gen(n2, ext_grids=idx, slack=True)
        M = b_tf.identity_map(net)
        for i, j in zip(idx, new):
            M["el"]["ext_grid"][int(i)] = [("gen", int(j), False)]
    elif k == "gen2eg":
        new = tb.replace_gen_by_ext_grid(n2, gens=[t[1]])
        M = b_tf.identity_map(net)
        M["el"]["gen"][int(t[1])] = [("ext_grid", int(new[0]), False)]
        skip = ("vm_pu", "va_degree")
    elif k == "ward":
        l0, s0 = set(n2.load.index), set(n2.shunt.index)
        tb.replace_ward_by_internal_elements(n2, wards=[t[1]])
        nl, ns = sorted(set(n2.load.index) - l0), sorted(set(n2.shunt.index) - s0)
        if len(nl) != 1 or len(ns) != 1:
            raise HarnessError("ward replacement created %s loads %s shunts" % (nl, ns))
        M = b_tf.identity_map(net)
        M["el"]["ward"][int(t[1])] = [("load", int(nl[0]), False), ("shunt", int(ns[0]), False)]
    elif k == "xward":
        l0, s0, i0 = set(n2.load.index), set(n2.shunt.index), set(n2.impedance.index)
        tb.replace_xward_by_internal_elements(n2, xwards=[t[1]])
        nl, ns, ni = sorted(set(n2.load.index) - l0), sorted(set(n2.shunt.index) - s0), sorted(set(n2.impedance.index) - i0)
        if len(nl) != 1 or len(ns) != 1 or len(ni) != 1:
            raise HarnessError("xward replacement created %s %s %s" % (nl, ns, ni))
        M = b_tf.identity_map(net)
        M["el"]["xward"][int(t[1])] = [("load", int(nl[0]), False), ("shunt", int(ns[0]), False),
                                       ("impedance", int(ni[0]), False, {"p_mw": "p_from_mw", "q_mvar": "q_from_mvar"})]
        skip = ("vm_pu", "va_internal_degree", "vm_internal_pu")
        M["nopq"] = [int(net.xward.at[t[1], "bus"])]     # part of the xward is now a branch: res_bus p/q not comparable
    elif k == "subnet":
        comp = [int(b) for b in t[1]]
        n2 = tb.select_subnet(net, comp)
        s = set(comp)
        M = b_tf.identity_map(net)
        M["bus"] = {b: v for b, v in M["bus"].items() if b in s}
        for tt in list(M["el"]):
            if tt == "switch":
                inv_et = {v: k for k, v in b_tf.SWITCH_ET.items()}
                keep = []
                for i in net.switch.index:
                    et, el = net.switch.at[i, "et"], int(net.switch.at[i, "element"])
                    if int(net.switch.at[i, "bus"]) not in s:
                        continue
                    if et == "b" and el not in s:
                        continue
                    if et in inv_et and not all(int(net[inv_et[et]].at[el, c]) in s for c in b_tf.BUS_COLS[inv_et[et]]):
                        continue        # switch of a branch that leaves the selection
                    keep.append(i)
            else:
                cols = b_tf.BUS_COLS[tt]
                keep = [i for i in net[tt].index if all(int(net[tt].at[i, c]) in s for c in cols)]
            M["el"][tt] = {int(i): M["el"][tt][int(i)] for i in keep}
        skip = ()
    elif k == "fuse":
        b1, b2 = t[1], t[2]
        tb.fuse_buses(n2, b1, b2, drop=True)
        M = b_tf.identity_map(net)
        M["bus"][int(b2)] = [int(b1)]
        M["nopq"] = [int(b1), int(b2)]
        # bus-bus switches between b1 and b2 become inner branches and are dropped
        for i in net.switch.index:
            r = net.switch.loc[i]
            if r.et == "b" and {int(r.bus), int(r.element)} == {int(b1), int(b2)}:
                M["el"]["switch"][int(i)] = []
    else:
        raise ValueError("unknown tool %r" % (t,))
    return n2, M, ("ok", skip), extra

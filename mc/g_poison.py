"""C20: the value alphabet ("poisoned" cells / slots) and the deviation menus.

A deviation is a JSON list; values are referred to by KEY (so that NaN / inf / 2**53+1 survive the JSON replay
file).  Kinds:
  ["cell", table, rowpos, column, valkey]   set one cell; a column that does not exist is created as a CUSTOM column
                                            (filler chosen from the value kind so that the dtype stays natural)
  ["col", table, kind]                      add a custom column of a special dtype (nullable / narrow / category ...)
  ["attr", key, valkey]                     net[key] = value            (name, f_hz, sn_mva)
  ["std", element, typename, field, valkey] net.std_types[element][typename][field] = value
  ["stdname", valkey]                       a line std type whose NAME is the string
  ["upo", key, valkey]                      net.user_pf_options[key] = value  (via set_user_pf_options)
  ["ctrl", rowpos, attr, valkey]            attribute of a controller object
  ["char", rowpos, attr, pos, valkey]       element of x_vals / y_vals of a characteristic
  ["dfdata", col, rowpos, valkey]           one cell of the DFData frame of the ConstControl
  ["pwl", pos, valkey]                      one number inside pwl_cost.points
  ["geo", table, rowpos, valkey]            geodata of a bus / line: coordinates carrying the float, or None
  ["index", table, variant]                 non-default index: "gap" (labels with gaps, non-monotonic) / "perm" (rows permuted)
  ["results"]                               run a power flow before saving (result tables non-empty)
"""
import numpy as np
import pandas as pd

import pandapower as pp
from pandapower.toolbox import reindex_buses, reindex_elements

LONG = "".join(chr(97 + (i * 7) % 26) if i % 9 else " " for i in range(200))

VAL = {
    # strings
    "s_empty": "", "s_1": "1", "s_1.0": "1.0", "s_nan": "nan", "s_None": "None", "s_True": "True", "s_uni": "ä€",
    "s_long": LONG,
    # strings chosen from branches visible in the (de)serialisation code
    "s_null": "null", "s_NA": "NA", "s_module": "a_module_b", "s_json": "{\"a\": 1}", "s_list": "[1, 2]", "s_quote": "q\"u'o\\te",
    "s_nl": "l1\nl2\tt", "s_space": " pad ", "s_date": "2020-01-01", "s_inf": "inf", "s_false": "false", "s_1e5": "1e5",
    "s_zero": "0", "s_0x": "007",
    # floats
    "f_nan": float("nan"), "f_inf": float("inf"), "f_-inf": float("-inf"), "f_-0": -0.0, "f_tiny": 5e-324, "f_huge": 1e308,
    "f_0.3": 0.1 + 0.2, "f_third": 1. / 3., "f_small": 1e-10 / 3., "f_17": 123456789.12345678, "f_1e16": 1e16 + 2.,
    "f_max": 1.7976931348623157e308, "f_1e-7": 1.2345678901234567e-7, "f_int": 3.0, "f_neg": -2.5e-3, "f_1e15": 999999999999999.9,
    # ints
    "i_0": 0, "i_-1": -1, "i_big": 2 ** 53 + 1, "i_min": -2 ** 63, "i_max": 2 ** 63 - 1, "i_7": 7,
    # bools / None
    "b_T": True, "b_F": False, "none": None,
}


def val(key):
    return VAL[key]


def kind_of(key):
    return {"s": "str", "f": "float", "i": "int", "b": "bool", "n": "none"}[key[0]]


def _filler(kind):
    return {"str": "x", "float": 1.5, "int": 7, "bool": False, "none": "x"}[kind]


def _custom_column(n, kind):
    """custom columns of special dtypes; n rows"""
    def cyc(vals):
        return [vals[i % len(vals)] for i in range(n)]
    if kind == "Int64NA":
        return pd.array(cyc([1, pd.NA, 2 ** 53 + 1, -1]), dtype="Int64")
    if kind == "Int64":
        return pd.array(cyc([1, 0, 2 ** 53 + 1, -1]), dtype="Int64")
    if kind == "booleanNA":
        return pd.array(cyc([True, pd.NA, False]), dtype="boolean")
    if kind == "boolean":
        return pd.array(cyc([True, False]), dtype="boolean")
    if kind == "string":
        return pd.array(cyc(["a", "1", "", "nan"]), dtype="string")
    if kind == "stringNA":
        return pd.array(cyc(["a", pd.NA, "1"]), dtype="string")
    if kind == "Float64NA":
        return pd.array(cyc([1.5, pd.NA, 1. / 3.]), dtype="Float64")
    if kind == "category":
        return pd.Categorical(cyc(["a", "b", "a"]))
    if kind == "datetime":
        return pd.to_datetime(cyc(["2020-01-01 00:00:00", "2021-06-30 12:00:00"]))
    if kind == "int32":
        return np.array(cyc([1, -1, 2 ** 31 - 1]), dtype="int32")
    if kind == "uint8":
        return np.array(cyc([0, 255, 7]), dtype="uint8")
    if kind == "float32":
        return np.array(cyc([0.1, 1.5, 3.0]), dtype="float32")
    if kind == "int64big":
        return np.array(cyc([2 ** 53 + 1, 0, -1]), dtype="int64")
    if kind == "mixed":
        return pd.Series(cyc([1, "1", 1.5, True, None, "x"]), dtype=object).values
    if kind == "bool":
        return np.array(cyc([True, False]), dtype=bool)
    if kind == "allnan":
        return np.full(n, np.nan)
    if kind == "allnone":
        return pd.Series([None] * n, dtype=object).values
    if kind == "datecol":     # a column whose NAME looks like a date to pandas.read_json
        return pd.Series(cyc(["2020-01-01", "2021-06-30"]), dtype=object).values
    if kind == "tscol":
        return np.array(cyc([1.6e9, 1.7e9]), dtype="float64")
    if kind == "intname":     # handled by caller (non-string column label)
        return np.array(cyc([1.5, 2.5]), dtype="float64")
    raise ValueError(kind)


COL_NAMES = {"datecol": "date", "tscol": "timestamp", "intname": 5}


def _reindex(net, table, variant):
    idx = list(net[table].index)
    if variant == "gap":
        # labels with gaps, not monotonic: second label -> +10, last label -> +3
        look = {i: i for i in idx}
        if len(idx) > 2:
            look[idx[1]], look[idx[-1]] = idx[1] + 10, idx[-1] + 3
        else:
            look[idx[0]] = idx[0] + 10
        if table == "bus":
            reindex_buses(net, look)
        else:
            reindex_elements(net, table, lookup=look)
    elif variant == "perm":
        order = idx[1:] + idx[:1]
        order[0], order[-2] = order[-2], order[0]
        net[table] = net[table].loc[order]
        rt = "res_" + table
        if rt in net and len(net[rt]) == len(order):
            net[rt] = net[rt].loc[order]
    elif variant == "named":
        net[table].index.name = "idx"
    elif variant == "int32":
        net[table].index = net[table].index.astype("int32")
    else:
        raise ValueError(variant)


def apply(net, dev):
    k = dev[0]
    if k == "cell":
        _, tab, row, col, vk = dev
        v = val(vk)
        df = net[tab]
        if col not in df.columns:
            fill = _filler(kind_of(vk))
            if isinstance(fill, str):
                df[col] = pd.Series([fill] * len(df), index=df.index, dtype=object)
            else:
                df[col] = fill
        kind = kind_of(vk)
        if kind in ("str", "none") and df[col].dtype != object:
            df[col] = df[col].astype(object)
        if kind == "float" and df[col].dtype.kind in "iu":
            df[col] = df[col].astype("float64")
        if kind == "int" and df[col].dtype.kind == "u" and v < 0:
            df[col] = df[col].astype("int64")
        ci = df.columns.get_loc(col)
        if v is None:
            s = df[col].astype(object)
            s.iloc[row] = None
            df[col] = s
        else:
            df.iloc[row, ci] = v
    elif k == "col":
        _, tab, kind = dev
        df = net[tab]
        df[COL_NAMES.get(kind, "c_" + kind)] = _custom_column(len(df), kind)
    elif k == "attr":
        net[dev[1]] = val(dev[2])
    elif k == "std":
        _, el, tn, field, vk = dev
        net.std_types[el][tn][field] = val(vk)
    elif k == "stdname":
        pp.create_std_type(net, {"r_ohm_per_km": 0.2, "x_ohm_per_km": 0.3, "c_nf_per_km": 10., "max_i_ka": 0.3, "type": "cs"},
                           val(dev[1]), element="line")
    elif k == "upo":
        pp.set_user_pf_options(net, **{dev[1]: val(dev[2])})
    elif k == "ctrl":
        _, row, attr, vk = dev
        setattr(net.controller.object.iloc[row], attr, val(vk))
    elif k == "char":
        _, row, attr, pos, vk = dev
        getattr(net.characteristic.object.iloc[row], attr)[pos] = val(vk)
    elif k == "dfdata":
        _, col, row, vk = dev
        df = net.controller.object.iloc[0].data_source.df
        if col not in df.columns:
            df[col] = _filler(kind_of(vk))
            if kind_of(vk) in ("str", "none"):
                df[col] = df[col].astype(object)
        df.iloc[row, df.columns.get_loc(col)] = val(vk)
    elif k == "pwl":
        _, pos, vk = dev
        pts = net.pwl_cost.points.iloc[0]
        pts[pos][2] = val(vk)
    elif k == "geo":
        _, tab, row, vk = dev
        v = val(vk)
        ci = net[tab].columns.get_loc("geo")
        if v is None:
            s = net[tab]["geo"].astype(object)
            s.iloc[row] = None
            net[tab]["geo"] = s
        elif tab == "bus":
            net[tab].iloc[row, ci] = '{"coordinates":[%r,0.5], "type":"Point"}' % (v,)
        else:
            net[tab].iloc[row, ci] = '{"coordinates":[[0.0,0.0],[%r,1.0]], "type":"LineString"}' % (v,)
    elif k == "index":
        _reindex(net, dev[1], dev[2])
    elif k == "results":
        pass  # handled by the check (power flow before saving)
    else:
        raise ValueError("unknown deviation %r" % (dev,))


def slot_of(dev):
    """two deviations writing the same slot are incompatible"""
    k = dev[0]
    if k == "cell":
        return ("cell",) + tuple(dev[1:4])
    if k == "col":
        return ("col", dev[1], dev[2])
    if k in ("attr", "upo"):
        return (k, dev[1])
    if k == "std":
        return ("std",) + tuple(dev[1:4])
    if k == "ctrl":
        return ("ctrl", dev[1], dev[2])
    if k == "char":
        return ("char",) + tuple(dev[1:4])
    if k == "dfdata":
        return ("dfdata", dev[1], dev[2])
    if k == "pwl":
        return ("pwl", dev[1])
    if k == "geo":
        return ("geo", dev[1], dev[2])
    if k == "index":
        return ("index", dev[1])
    return tuple(map(str, dev))


# --------------------------------------------------------------------------------------------------------
# menus
# --------------------------------------------------------------------------------------------------------
STR_CORE = ["s_empty", "s_1", "s_1.0", "s_nan", "s_None", "s_True", "s_uni", "s_long"]
STR_EXT = ["s_null", "s_NA", "s_module", "s_json", "s_list", "s_quote", "s_nl", "s_space", "s_date", "s_inf", "s_false", "s_1e5",
           "s_zero", "s_0x"]
FLT_CORE = ["f_nan", "f_inf", "f_-inf", "f_-0", "f_tiny", "f_huge", "f_0.3", "f_third"]
FLT_EXT = ["f_small", "f_17", "f_1e16", "f_max", "f_1e-7", "f_int", "f_neg", "f_1e15"]
INT_CORE = ["i_0", "i_-1", "i_big"]
INT_EXT = ["i_min", "i_max"]
# values whose only effect on a power flow is to amplify round-off that the statement allows (loading = i / 3e-11 kA; an
# angle of 1e16 degrees of which 15 significant digits are kept): they are placed in columns that do not enter the
# calculation, so that the results clause compares like with like
PF_NEUTRAL_ONLY = ("f_small", "f_tiny", "f_1e16", "f_1e15")
PF_NEUTRAL_SLOTS = (("load", "sn_mva"), ("storage", "soc_percent"), ("measurement", "value"), ("poly_cost", "cp1_eur_per_mw"),
                    ("load", "cust_f"), ("bus", "max_vm_pu"), ("bus_dc", "vn_kv"), ("vsc", "r_ohm"))
COL_KINDS = ["Int64NA", "booleanNA", "string", "stringNA", "Int64", "boolean", "Float64NA", "category", "datetime", "int32",
             "uint8", "float32", "int64big", "mixed", "bool", "allnan", "allnone", "datecol", "tscol", "intname"]


def menu(level="quick"):
    """the k=1 menu.  level: 'core' (pairs in the quick tier), 'quick', 'thorough'"""
    m = []
    strs = STR_CORE + (STR_EXT if level != "core" else ["s_module", "s_null"])
    flts = FLT_CORE + (FLT_EXT if level != "core" else [])
    ints = INT_CORE + (INT_EXT if level != "core" else [])
    # strings in name / type / custom columns
    for s in strs:
        m.append(["cell", "bus", 1, "name", s])
        m.append(["cell", "bus", 2, "cust_s", s])
    str_slots = [("bus", 0, "type"), ("bus", 3, "zone"), ("line", 0, "name"), ("line", 1, "type"), ("load", 0, "type"),
                 ("trafo", 0, "name"), ("switch", 1, "type"), ("measurement", 0, "name"), ("gen", 0, "name"), ("sgen", 0, "type"),
                 ("group", 0, "name"), ("line", 0, "cust_s"), ("load", 1, "cust_s"), ("trafo3w", 0, "name"), ("bus_dc", 0, "name"),
                 ("poly_cost", 0, "cust_s"), ("measurement", 2, "side")]
    if level == "core":
        str_slots = str_slots[:3]
    for i, (t, r, c) in enumerate(str_slots):
        # every slot gets a rotating window of the alphabet (all slots x all strings is the thorough tier)
        sel = strs if level == "thorough" else [strs[(i * 3 + j) % len(strs)] for j in range(4)]
        for s in sel:
            m.append(["cell", t, r, c, s])
    m.append(["cell", "bus", 1, "name", "none"])
    m.append(["cell", "bus", 2, "cust_s", "none"])
    m.append(["cell", "line", 0, "std_type", "none"])
    # floats in float columns (pf-neutral and pf-relevant) and custom float columns
    for f in flts:
        if f not in PF_NEUTRAL_ONLY:
            m.append(["cell", "line", 0, "max_i_ka", f])
        m.append(["cell", "bus", 2, "cust_f", f])
    flt_slots = [("load", 0, "sn_mva"), ("gen", 0, "max_q_mvar"), ("bus", 1, "max_vm_pu"), ("trafo", 0, "pfe_kw"),
                 ("line", 1, "c_nf_per_km"), ("shunt", 0, "q_mvar"), ("ext_grid", 0, "va_degree"), ("storage", 0, "soc_percent"),
                 ("measurement", 1, "value"), ("poly_cost", 0, "cp1_eur_per_mw"), ("load", 1, "p_mw"), ("line", 2, "df"),
                 ("trafo", 0, "tap_pos"), ("load", 0, "cust_f"), ("switch", 0, "z_ohm"), ("xward", 0, "r_ohm"),
                 ("impedance", 0, "rft_pu"), ("dcline", 0, "loss_percent"), ("bus_dc", 1, "vn_kv"), ("vsc", 0, "r_ohm")]
    if level == "core":
        flt_slots = flt_slots[:4]
    for i, (t, r, c) in enumerate(flt_slots):
        sel = flts if level == "thorough" else [flts[(i * 3 + j) % len(flts)] for j in range(4)]
        for f in sel:
            if f in PF_NEUTRAL_ONLY and (t, c) not in PF_NEUTRAL_SLOTS:
                continue
            m.append(["cell", t, r, c, f])
    # ints in int / custom columns
    for iv in ints:
        m.append(["cell", "bus", 2, "cust_i", iv])
        m.append(["cell", "line", 1, "cust_i", iv])
        m.append(["cell", "switch", 0, "cust_i", iv])
    m.append(["cell", "shunt", 0, "max_step", "i_0"])
    m.append(["cell", "measurement", 1, "element", "i_0"])
    m.append(["cell", "line", 1, "cust_f", "i_7"])          # python int written into a float column
    # bools
    m += [["cell", "bus", 6, "in_service", "b_T"], ["cell", "load", 1, "in_service", "b_F"], ["cell", "bus", 2, "cust_b", "b_T"],
          ["cell", "switch", 1, "closed", "b_F"], ["cell", "gen", 0, "slack", "b_T"]]
    # special custom columns (nullable dtypes ...) on several tables
    kinds = COL_KINDS if level != "core" else ["Int64NA", "booleanNA", "string", "mixed"]
    for kd in kinds:
        m.append(["col", "bus", kd])
    for t in (["line", "load", "trafo", "switch", "measurement"] if level != "core" else ["line"]):
        for kd in (kinds if level == "thorough" else ["Int64NA", "booleanNA", "stringNA", "mixed"]):
            m.append(["col", t, kd])
    # non-table content
    for s in (strs if level != "core" else ["s_empty", "s_1", "s_module"]):
        m.append(["attr", "name", s])
    for f in (["f_third", "f_0.3", "f_1e-7", "f_17"] if level != "core" else ["f_third"]):
        m.append(["attr", "f_hz", f])
        m.append(["attr", "sn_mva", f])
    m.append(["attr", "sn_mva", "i_7"])
    for f in (flts if level != "core" else ["f_nan", "f_inf", "f_third"]):
        m.append(["std", "line", "my_line", "alpha", f])
    for s in (STR_CORE if level != "core" else ["s_1", "s_empty"]):
        m.append(["std", "line", "my_line", "type", s])
        m.append(["stdname", s])
    for iv in ints:
        m.append(["std", "line", "my_line", "q_mm2", iv])
    m += [["std", "line", "my_line", "type", "none"], ["std", "trafo", "my_trafo", "tap_pos", "b_T"]]
    for f in (["f_third", "f_tiny", "f_1e-7", "f_0.3"] if level != "core" else ["f_third"]):
        m.append(["upo", "tolerance_mva", f])
    m += [["upo", "max_iteration", "i_7"], ["upo", "init", "s_1"], ["upo", "numba", "b_F"], ["upo", "delta_q", "f_-0"],
          ["upo", "check_connectivity", "none"]]
    for f in (flts if level != "core" else ["f_nan", "f_inf", "f_third"]):
        m.append(["ctrl", 1, "vm_set_pu", f])
        m.append(["dfdata", "ld0", 1, f])
        m.append(["char", 0, "y_vals", 1, f])
    m += [["ctrl", 0, "scale_factor", "f_third"], ["ctrl", 0, "profile_name", "s_1"], ["ctrl", 1, "side", "s_uni"],
          ["ctrl", 1, "tol", "f_tiny"], ["ctrl", 0, "values", "i_big"], ["ctrl", 1, "trafobus", "i_0"], ["ctrl", 0, "applied", "b_T"],
          ["char", 1, "x_vals", 0, "f_third"], ["char", 1, "y_vals", 4, "f_0.3"], ["char", 0, "x_vals", 0, "i_7"],
          ["dfdata", "cust", 0, "s_1"], ["dfdata", "ld0", 0, "i_7"]]
    for f in (["f_third", "f_0.3", "f_nan", "f_inf", "f_1e-7"] if level != "core" else ["f_third"]):
        m.append(["pwl", 1, f])
        m.append(["geo", "bus", 1, f])
        m.append(["geo", "line", 0, f])
    m += [["geo", "bus", 2, "none"], ["geo", "line", 1, "none"]]
    # non-default index
    for t in ("bus", "line", "load"):
        m.append(["index", t, "gap"])
        m.append(["index", t, "perm"])
    if level != "core":
        m += [["index", "bus", "named"], ["index", "trafo", "gap"], ["index", "switch", "perm"]]
    m.append(["results"])
    # de-duplicate, keep order
    seen, out = set(), []
    for d in m:
        key = repr(d)
        if key not in seen:
            seen.add(key)
            out.append(d)
    return out


MINI = [["cell", "bus", 1, "name", "s_1"], ["cell", "bus", 2, "cust_s", "s_nan"], ["cell", "line", 0, "name", "s_uni"],
        ["cell", "bus", 2, "cust_s", "none"], ["cell", "line", 0, "max_i_ka", "f_nan"], ["cell", "bus", 2, "cust_f", "f_third"],
        ["cell", "bus", 3, "cust_f", "f_-0"], ["cell", "load", 0, "sn_mva", "f_huge"], ["cell", "bus", 2, "cust_i", "i_big"],
        ["cell", "line", 1, "cust_i", "i_-1"], ["col", "bus", "Int64"], ["col", "bus", "booleanNA"], ["col", "line", "stringNA"],
        ["col", "load", "mixed"], ["attr", "name", "s_1"], ["std", "line", "my_line", "alpha", "f_third"],
        ["upo", "tolerance_mva", "f_third"], ["ctrl", 1, "vm_set_pu", "f_third"], ["dfdata", "ld0", 1, "f_third"],
        ["index", "bus", "gap"], ["index", "line", "perm"], ["index", "load", "perm"], ["geo", "bus", 2, "none"], ["results"]]


SEQ_MENU = [["col", "bus", "stringNA"], ["col", "load", "Int64"], ["cell", "bus", 1, "name", "s_1"], ["cell", "bus", 2, "cust_f", "f_third"],
            ["attr", "name", "s_module"], ["index", "bus", "gap"], ["index", "line", "perm"], ["results"]]


def pairs(menu_):
    """all unordered pairs of deviations that write different slots"""
    out = []
    for i in range(len(menu_)):
        for j in range(i + 1, len(menu_)):
            if slot_of(menu_[i]) != slot_of(menu_[j]):
                out.append([menu_[i], menu_[j]])
    return out

"""C21: deviation menus inside the converters' documented scope, the conversion routes and the oracle.

Scope (docstrings of to_ppc / from_ppc / to_mpc / from_mpc): pi transformer model, symmetric branch data, constant
power loads (to_ppc does not convert the voltage dependent part), no dclines / wards / three-winding transformers
(from_ppc creates bus, load, sgen, shunt, ext_grid, gen, line, trafo, impedance only).  Open switches, out-of-service
elements and fused buses are resolved by to_ppc (it returns the internal, in-service-only case); the bus mapping is
net._pd2ppc_lookups["bus"] (pandapower bus -> row of the returned case == bus index of the converted net).
"""
import os
import shutil
import tempfile

import numpy as np

import pandapower as pp
from pandapower.converter.pypower import to_ppc, from_ppc

from mc import netalpha as na

PF = dict(trafo_model="pi", calculate_voltage_angles=True, voltage_depend_loads=False)
TOL = 1e-6
ROUTES = ["ppc_flat", "ppc_results", "mpc_flat"]


SHIFTER20 = dict(vn_hv_kv=20., vn_lv_kv=20., shift_degree=5., sn_mva=10., vk_percent=6., vkr_percent=0.5)     # ratio exactly 1
SHIFTER110 = dict(vn_hv_kv=110., vn_lv_kv=110., shift_degree=5., sn_mva=100.)
COST_BASES = {"R3c": "R3", "T3c": "T3"}       # the same nets with cost data: to_ppc converts them in 'opf' mode
LIM = dict(min_p_mw=0., max_p_mw=3., min_q_mvar=-2., max_q_mvar=2.)


def cost_menu(basename):
    """opf-mode conversion (net has cost data): controllable elements become generator rows with their own VG.
    A second ext_grid is left out: the opf-mode case has one reference bus by construction (the others become PV)."""
    src = COST_BASES[basename]
    b0, b1 = na.HOT[src][0], na.HOT[src][-1]
    vs = 1.02
    m = [["cgen", b0, 1.0, 1.01], ["cgen", b0, 0.5, 1.01], ["cgen", b1, 0.8, 0.99], ["cgen", 0, 0.4, vs],
         ["csgen", b0, 0.5, 0.1], ["csgen", b1, 0.3, -0.1], ["csgen", 0, 0.2, 0.05], ["csgen", 1, 0.2, 0.],
         ["cload", b0, 0.6, 0.2], ["load", b0, 1.5, 0.5, "P", 1., True], ["sgen", b0, 0.8, -0.2, 1., True],
         ["shunt", b0, 0.1, -0.5, 1, 1.0, True], ["cgen", b0, 0.7, 1.01, False], ["csgen", b0, 0.4, 0.1, False], ["pwlcost"], ["sn", 100.],
         ["set", "switch", 0, "closed", False], ["set", "ext_grid", 0, "vm_pu", 1.03]]
    if src == "T3":
        m += [["set", "trafo", 0, "tap_pos", 2], ["set", "trafo", 0, "tap_side", "lv"]]
    else:
        m += [["set", "line", 1, "parallel", 2], ["set", "switch", 1, "closed", False]]
    return m


def apply_dev(net, d):
    k = d[0]
    if k == "cgen":
        bus, p, vm = d[1:4]
        pp.create_gen(net, bus, p, vm_pu=vm, controllable=True, in_service=d[4] if len(d) > 4 else True, **LIM)
    elif k == "csgen":
        bus, p, q = d[1:4]
        pp.create_sgen(net, bus, p, q, controllable=True, in_service=d[4] if len(d) > 4 else True, **LIM)
    elif k == "pwlcost":       # the cost of the ext_grid as a piecewise linear function instead of a polynomial
        net.poly_cost.drop(net.poly_cost.index, inplace=True)
        pp.create_pwl_cost(net, 0, "ext_grid", [[-10., 0., 1.], [0., 10., 2.]])
    elif k == "cload":
        _, bus, p, q = d
        pp.create_load(net, bus, p, q, controllable=True, **LIM)
    else:
        na.apply_dev(net, d)


def build(case):
    b = case["base"]
    if b in COST_BASES:
        net = na.base(COST_BASES[b])
        net.bus["min_vm_pu"] = 0.9
        net.bus["max_vm_pu"] = 1.1
        pp.create_poly_cost(net, 0, "ext_grid", 2.5)
    else:
        net = na.base(b)
    for d in case.get("devs", ()):
        apply_dev(net, d)
    return net


def menu(basename):
    if basename in COST_BASES:
        return cost_menu(basename)
    hot = na.HOT[basename]
    s = 20. if basename == "M4" else 1.
    b0 = hot[0]
    m = []
    for b in hot:
        m += [["load", b, 1.5 * s, 0.5 * s, "P", 1., True],
              ["sgen", b, 0.8 * s, -0.2 * s, 1., True],
              ["gen", b, 1.0 * s, 1.01, "wide", False, True],
              ["shunt", b, 0.1 * s, -0.5 * s, 1, 1.0, True]]
    m += [["load", b0, 1.0 * s, 0.2 * s, "P", 1., False],            # out of service load
          ["load", b0, -0.7 * s, 0.1 * s, "P", 1., True],            # negative load -> sgen in the case file
          ["load", b0, 0., 0.4 * s, "P", 1., True],                   # p == 0, q != 0
          ["load", b0, 1.0 * s, 0.5 * s, "P", 0.5, True],            # scaling
          ["sgen", b0, 0.5 * s, 0.1 * s, 0.5, True],
          ["sgen", b0, 0.5 * s, 0.1 * s, 1., False],
          ["sgen", b0, 2.5 * s, 0.0, 1., True],                       # net injection at the bus
          ["gen", b0, 0.7 * s, 1.0, "tight", False, True],
          ["gen", b0, 0.5 * s, 1.01, "none", False, True],            # second gen, same set point as the first
          ["gen", b0, 0.6 * s, 1.0, "wide", False, False],            # out of service gen
          ["gen", b0, -0.3 * s, 1.01, "wide", False, True],           # negative p gen
          ["gen", 0, 0.4 * s, {"R3": 1.02, "M4": 1.01, "T3": 1.02, "W3": 1.02}[basename], "wide", False, True],   # gen at the slack bus
          ["shunt", b0, 0.05 * s, 0.3 * s, 2, 0.9, True],             # step 2, vn_kv != bus vn
          ["shunt", b0, 0.1 * s, 0.2 * s, 1, 1.0, False],
          ["ext_grid", b0, 1.0, 0., True],
          ["ext_grid", b0, 1.01, -1.0, True],                         # second slack with an angle
          ["ext_grid", b0, 1.01, 1.0, False],
          ["sn", 100.]]
    if basename == "R3":
        m += [["trafo", 1, 2, dict(SHIFTER20)], ["trafo", 1, 2, dict(SHIFTER20, tap_pos=1)], ["trafo", 1, 2, dict(SHIFTER20, shift_degree=0.)]]
        m += [["set", "switch", 0, "closed", False], ["set", "switch", 0, "z_ohm", 0.5],
              ["set", "switch", 1, "closed", False], ["switch", 2, 1, "l", False, 0.], ["switch", 1, 0, "l", True, 0.],
              ["set", "line", 1, "in_service", False], ["set", "line", 1, "parallel", 2], ["set", "line", 0, "parallel", 3],
              ["set", "bus", 3, "in_service", False], ["set", "bus", 2, "in_service", False],
              ["line", 0, 2, 1, True], ["line", 0, 2, 2, True], ["line", 1, 2, 1, False], ["impedance", 1, 2, False],
              ["swapline", 1], ["bus", 2, True], ["bus", 1, False],
              ["set", "line", 0, "g_us_per_km", 5.], ["set", "line", 1, "df", 0.5], ["set", "line", 0, "length_km", 0.4]]
    elif basename == "M4":
        m += [["trafo", 1, 3, dict(SHIFTER110)], ["trafo", 1, 3, dict(SHIFTER110, shift_degree=-5., tap_pos=-2)]]
        m += [["set", "switch", 0, "closed", False], ["set", "line", 0, "in_service", False], ["set", "line", 4, "in_service", False],
              ["set", "line", 2, "parallel", 2], ["set", "bus", 3, "in_service", False], ["line", 0, 2, 1, True],
              ["line", 1, 3, 1, False], ["impedance", 1, 3, False], ["swapline", 1], ["bus", 2, True], ["switch", 2, 1, "l", False, 0.],
              ["set", "line", 4, "g_us_per_km", 2.], ["set", "ext_grid", 0, "va_degree", 5.]]
    elif basename == "W3":
        m += [["set", "switch", 0, "closed", False], ["switch", 0, 0, "t3", False, 0.], ["switch", 2, 0, "t3", False, 0.],
              ["set", "trafo3w", 0, "tap_pos", 2], ["set", "trafo3w", 0, "tap_pos", -3],
              ["set", "trafo3w", 0, "tap_side", "mv"], ["set", "trafo3w", 0, "tap_side", "lv"], ["set", "trafo3w", 0, "tap_at_star_point", True],
              ["set", "trafo3w", 0, "shift_mv_degree", 30.], ["set", "trafo3w", 0, "shift_lv_degree", 150.],
              ["set", "trafo3w", 0, "vk_mv_percent", 25.],      # negative reactance of the hv star leg
              ["set", "trafo3w", 0, "vk_hv_percent", 30.],      # negative reactance of the lv star leg
              ["set", "trafo3w", 0, "vk_lv_percent", 30.],      # negative reactance of the mv star leg
              ["set", "trafo3w", 0, "vkr_mv_percent", 2.], ["set", "trafo3w", 0, "pfe_kw", 0.], ["set", "trafo3w", 0, "tap_neutral", 1],
              ["set", "trafo3w", 0, "tap_step_degree", 10.], ["set", "trafo3w", 0, "tap_changer_type", "Ideal"],
              ["set", "trafo3w", 0, "in_service", False], ["set", "bus", 2, "in_service", False], ["set", "line", 0, "in_service", False],
              ["set", "ext_grid", 0, "va_degree", 5.]]
    elif basename == "T3":
        m += [["trafo", 1, 2, dict(SHIFTER20)]]
        m += [["set", "switch", 0, "closed", False], ["set", "switch", 0, "z_ohm", 0.5],
              ["set", "switch", 1, "closed", False], ["switch", 1, 0, "t", False, 0.], ["switch", 2, 0, "l", False, 0.],
              ["set", "trafo", 0, "tap_pos", 2], ["set", "trafo", 0, "tap_pos", -3], ["set", "trafo", 0, "tap_pos", 9],
              ["set", "trafo", 0, "tap_side", "lv"], ["set", "trafo", 0, "tap_neutral", 1],
              ["set", "trafo", 0, "shift_degree", 150.], ["set", "trafo", 0, "shift_degree", 30.],
              ["set", "trafo", 0, "tap_changer_type", "Ideal"], ["set", "trafo", 0, "tap_changer_type", "Symmetrical"],
              ["set", "trafo", 0, "tap_step_degree", 30.], ["set", "trafo", 0, "tap_step_percent", 0.],
              ["set", "trafo", 0, "parallel", 2], ["set", "trafo", 0, "in_service", False],
              ["set", "trafo", 0, "pfe_kw", 0.], ["set", "trafo", 0, "i0_percent", 0.], ["set", "trafo", 0, "vn_lv_kv", 21.],
              ["set", "trafo", 0, "vn_hv_kv", 115.], ["set", "trafo", 0, "vkr_percent", 0.],
              ["trafo", 0, 1], ["trafo", 0, 1, {"tap_pos": 1}], ["trafo", 0, 1, {"in_service": False}],
              ["set", "line", 0, "in_service", False], ["set", "line", 0, "parallel", 2], ["line", 1, 2, 1, True],
              ["bus", 2, True], ["set", "ext_grid", 0, "va_degree", 5.]]
    return m


def reduced_menu(basename):
    """sub-menu for the k=2 product of the quick tier: one specimen per mechanism"""
    if basename in COST_BASES:
        return [d for d in menu(basename) if d not in (["csgen", 1, 0.2, 0.], ["sn", 100.], ["sgen", na.HOT[COST_BASES[basename]][0], 0.8, -0.2, 1., True])]
    b0 = na.HOT[basename][0]
    drop_struct = {"R3": [["trafo", 1, 2, dict(SHIFTER20, tap_pos=1)], ["trafo", 1, 2, dict(SHIFTER20, shift_degree=0.)],
                          ["set", "line", 0, "parallel", 3], ["line", 0, 2, 2, True], ["set", "line", 0, "length_km", 0.4], ["bus", 1, False],
                          ["switch", 1, 0, "l", True, 0.]],
                   "T3": [["set", "trafo", 0, "tap_neutral", 1], ["set", "trafo", 0, "vkr_percent", 0.], ["line", 1, 2, 1, True],
                          ["set", "trafo", 0, "tap_step_percent", 0.], ["set", "trafo", 0, "tap_pos", 9],
                          ["set", "trafo", 0, "shift_degree", 30.], ["set", "trafo", 0, "vn_hv_kv", 115.],
                          ["trafo", 0, 1, {"in_service": False}], ["set", "line", 0, "parallel", 2], ["set", "trafo", 0, "i0_percent", 0.],
                          ["set", "switch", 0, "z_ohm", 0.5]],
                   "M4": [["trafo", 1, 3, dict(SHIFTER110, shift_degree=-5., tap_pos=-2)], ["set", "line", 0, "in_service", False]],
                   "W3": [["set", "trafo3w", 0, "vkr_mv_percent", 2.], ["set", "trafo3w", 0, "pfe_kw", 0.], ["set", "trafo3w", 0, "tap_neutral", 1],
                          ["set", "trafo3w", 0, "tap_step_degree", 10.], ["set", "bus", 2, "in_service", False],
                          ["set", "line", 0, "in_service", False], ["switch", 2, 0, "t3", False, 0.], ["set", "ext_grid", 0, "va_degree", 5.],
                          ["sn", 100.]]}.get(basename, [])
    few_bus_elements = basename == "W3"
    out = []
    n_kind = {}
    for d in menu(basename):
        if d[0] in ("load", "sgen", "gen", "shunt", "ext_grid"):
            if d[1] not in (b0, 0):
                continue
            n_kind[d[0]] = n_kind.get(d[0], 0) + 1
            # first specimen + the out-of-service / sign / slack-bus variants
            keep = n_kind[d[0]] == 1 or d[-1] is False or (d[0] == "load" and d[2] < 0) or (d[0] == "gen" and (d[1] == 0 or d[4] == "tight")) \
                or (d[0] == "shunt" and d[5] == 2) or (d[0] == "ext_grid" and d[3] != 0. and d[-1])
            if not keep or (few_bus_elements and not (n_kind[d[0]] == 1 and d[0] in ("load", "gen", "shunt"))):
                continue
        elif d in drop_struct:
            continue
        out.append(d)
    return out


def compatible(devs):
    """keep cases inside the scope: at most one tap-changer-type deviation etc. is ensured by netalpha.field_of"""
    return True


# --------------------------------------------------------------------------------------------------------
def convert(net, route):
    """net must hold a converged result when route uses init='results'.  Returns (converted net, lookup)"""
    kw = dict(trafo_model="pi", calculate_voltage_angles=True)
    init = "results" if route.endswith("results") else "flat"
    if route.startswith("ppc"):
        ppc = to_ppc(net, init=init, **kw)
        look = np.array(net._pd2ppc_lookups["bus"], copy=True)
        n2 = from_ppc(ppc, f_hz=net.f_hz)
        return n2, look, int(ppc["bus"].shape[0])
    from pandapower.converter.matpower import to_mpc, from_mpc
    d = tempfile.mkdtemp(prefix="c21_", dir="/tmp")
    try:
        f = os.path.join(d, "case.mat")
        mpc = to_mpc(net, f, init=init, **kw)
        look = np.array(net._pd2ppc_lookups["bus"], copy=True)
        nb = int(mpc["mpc"]["bus"].shape[0])
        n2 = from_mpc(f, f_hz=net.f_hz)
        return n2, look, nb
    finally:
        shutil.rmtree(d, ignore_errors=True)


def slack_buses(net):
    b = set(int(x) for x in net.ext_grid.bus[net.ext_grid.in_service].values)
    if len(net.gen):
        b |= set(int(x) for x in net.gen.bus[net.gen.in_service & net.gen.slack].values)
    return b


def summary(net):
    """complex bus voltages, per-bus net injection, total losses (= - sum of bus consumption incl. shunts)"""
    rb = net.res_bus
    v = rb.vm_pu.values * np.exp(1j * np.deg2rad(rb.va_degree.values))
    return dict(zip(rb.index.tolist(), v)), rb


def compare(orig, conv, look, nb):
    """orig, conv: converged nets.  Returns list of diff dicts."""
    diffs = []
    vo, rbo = summary(orig)
    vc, rbc = summary(conv)
    supplied = [b for b in orig.bus.index if np.isfinite(rbo.vm_pu.at[b])]
    # bus voltages
    seen_rows = set()
    for b in supplied:
        i = int(look[b])
        if i >= nb or i not in vc:
            diffs.append({"clause": "bus_mapping", "bus": int(b), "row": i, "n_case_buses": nb})
            continue
        seen_rows.add(i)
        if not np.isfinite(vc[i]) or abs(vo[b] - vc[i]) > TOL:
            diffs.append({"clause": "bus_voltage", "bus": int(b), "row": i, "orig": [abs(vo[b]), float(np.angle(vo[b], deg=True))],
                          "conv": [float(abs(vc[i])), float(np.angle(vc[i], deg=True))]})
    # rows of the case that no pandapower bus maps to are the auxiliary buses to_ppc creates for open branch
    # switches / branches at out-of-service buses: legitimately energised, nothing to compare them with
    # slack powers: net injection at the buses that carry a slack element (robust against gen -> sgen re-kinding)
    so = sorted(set(int(look[b]) for b in slack_buses(orig) if b in supplied))
    sc = sorted(int(b) for b in slack_buses(conv) if np.isfinite(rbc.vm_pu.at[b]))
    if so != sc:
        diffs.append({"clause": "slack_buses", "orig_rows": so, "conv": sc})
    else:
        for i in so:
            ob = [b for b in supplied if int(look[b]) == i]
            po = -float(rbo.p_mw.loc[ob].sum())
            qo = -float(rbo.q_mvar.loc[ob].sum())
            pc, qc = -float(rbc.p_mw.at[i]), -float(rbc.q_mvar.at[i])
            scale = max(1., abs(po), abs(qo))
            if abs(po - pc) > TOL * scale or abs(qo - qc) > TOL * scale:
                diffs.append({"clause": "slack_power", "row": i, "orig": [po, qo], "conv": [pc, qc]})
    # element-level slack power when both sides have exactly the ext_grids and no other machine at those buses
    lo = -float(np.nansum(rbo.p_mw.values))
    lc = -float(np.nansum(rbc.p_mw.values))
    scale = max(1., abs(lo), float(np.nansum(np.abs(rbo.p_mw.values))))
    if abs(lo - lc) > TOL * scale:
        diffs.append({"clause": "total_losses", "orig": lo, "conv": lc})
    # branch-table losses (reported pl_mw), where every branch of the original has a loss column
    has_z_switch = bool(len(orig.switch) and ((orig.switch.et == "b") & orig.switch.closed & (orig.switch.z_ohm > 0)).any())
    if not has_z_switch:
        def pl(n):
            t = 0.
            for tab in ("line", "trafo", "trafo3w", "impedance"):
                r = n.get("res_" + tab)
                if r is not None and len(r):
                    t += float(np.nansum(r.pl_mw.values))
            return t
        a, b_ = pl(orig), pl(conv)
        if abs(a - b_) > TOL * scale:
            diffs.append({"clause": "total_losses", "table_sum_orig": a, "table_sum_conv": b_})
    return diffs


def run_pf(net):
    try:
        pp.runpp(net, **PF)
    except Exception as e:
        return type(e).__name__
    return "ok" if net.converged else "not_converged"

"""Shared runner machinery: parallel map after warm-up, reports, evidence, known findings, replays.

Every check module (checks/Cxx.py) exposes

    PROPERTY = "Cxx"; LEVEL = "exploration" | "model_checking" | "fault_enumeration"
    def explore(tier, seed) -> Report
    def replay(case) -> list[Violation-dict]          # re-run exactly one case descriptor

The runner (mc/run.py) turns a Report into evidence/<id>.json, replays/<id>/*.json,
KNOWN-FINDING / VIOLATION lines and the exit code.
"""
import copy
import hashlib
import json
import math
import multiprocessing as mp
import os
import sys
import time
import warnings

VERIF = os.path.dirname(os.path.dirname(os.path.abspath(__file__)))
def _default_nproc():
    """16 workers on an idle machine; fewer when the machine is already oversubscribed (shared development)."""
    try:
        load = os.getloadavg()[0]
    except OSError:
        load = 0.
    n = os.cpu_count() or 16
    if load > 2 * n:
        return max(4, n // 4)
    if load > n:
        return max(4, n // 2)
    return n


NPROC = int(os.environ.get("VERIF_NPROC", "0") or 0) or _default_nproc()


# ----------------------------------------------------------------------------------------------
# descriptors
# ----------------------------------------------------------------------------------------------
def jsonable(x):
    """Canonical JSON-able form of a case descriptor (tuples -> lists, numpy scalars -> python)."""
    import numpy as np
    if isinstance(x, dict):
        return {str(k): jsonable(v) for k, v in x.items()}
    if isinstance(x, (list, tuple)):
        return [jsonable(v) for v in x]
    if isinstance(x, (set, frozenset)):
        return sorted(jsonable(v) for v in x)
    if isinstance(x, (np.bool_,)):
        return bool(x)
    if isinstance(x, np.integer):
        return int(x)
    if isinstance(x, np.floating):
        x = float(x)
    if isinstance(x, float):
        if math.isnan(x):
            return "nan"
        if math.isinf(x):
            return "inf" if x > 0 else "-inf"
        return x
    if isinstance(x, (str, int, bool)) or x is None:
        return x
    return repr(x)


def dhash(desc):
    return hashlib.sha1(json.dumps(jsonable(desc), sort_keys=True).encode()).hexdigest()[:12]


def tokens_of(desc):
    """Flat set of string tokens of a descriptor; used by known-finding signatures."""
    out = set()

    def rec(x, prefix=""):
        if isinstance(x, dict):
            for k, v in x.items():
                if isinstance(v, (dict, list, tuple)):
                    rec(v, prefix + str(k) + ".")
                else:
                    out.add("%s%s=%s" % (prefix, k, v))
        elif isinstance(x, (list, tuple)):
            if x and all(not isinstance(v, (dict, list, tuple)) for v in x):
                out.add(prefix + ":".join(str(v) for v in x))
                if isinstance(x[0], str):
                    out.add(prefix + x[0])
            else:
                for v in x:
                    rec(v, prefix)
        else:
            out.add(prefix + str(x))
    rec(jsonable(desc))
    return out


# ----------------------------------------------------------------------------------------------
# report
# ----------------------------------------------------------------------------------------------
class Report:
    def __init__(self, prop, level, tier, seed):
        self.prop, self.level, self.tier, self.seed = prop, level, tier, seed
        self.evaluations = 0
        self.nontrivial = set()       # hashes/signatures of distinct non-trivial cases
        self.outcomes = {}            # outcome class -> count
        self.rule = ""
        self.samples = []
        self.violations = []          # dicts: clause, case, detail, tokens(optional)
        self.extra = {}               # states, transitions, bounds, ...
        self.assumptions = []
        self.exhaustive = True
        self.t0 = time.time()

    def outcome(self, name, n=1):
        self.outcomes[name] = self.outcomes.get(name, 0) + n

    def add_case_result(self, case, res, sample_every=None):
        """res: dict(outcome=str, sig=str|None, violations=[dict(clause, detail)], n=int)"""
        self.evaluations += res.get("n", 1)
        self.outcome(res.get("outcome", "ok"))
        sig = res.get("sig")
        if sig is not None:
            if isinstance(sig, (list, tuple, set)):
                self.nontrivial.update(sig)
            else:
                self.nontrivial.add(sig)
        for v in res.get("violations", ()):
            v = dict(v)
            v.setdefault("case", case)
            self.violations.append(v)
        for k, n in res.get("counts", {}).items():
            self.extra[k] = self.extra.get(k, 0) + n


def violation(clause, detail, case=None, **kw):
    d = {"clause": clause, "detail": jsonable(detail)}
    if case is not None:
        d["case"] = case
    d.update(kw)
    return d


# ----------------------------------------------------------------------------------------------
# parallel map (fork after warm-up; deterministic: results in case order)
# ----------------------------------------------------------------------------------------------
_WORK_FN = None


def _call(i_case):
    i, case = i_case
    warnings.simplefilter("ignore")
    try:
        return i, _WORK_FN(case)
    except BaseException as e:  # harness error: never a verdict
        import traceback
        return i, {"outcome": "HARNESS_ERROR", "harness_error": "%s: %s\n%s" % (
            type(e).__name__, e, traceback.format_exc()), "violations": []}


def pmap(fn, cases, nproc=None, order_seed=0):
    """Apply fn to every case. Returns results in case order regardless of scheduling.
    order_seed rotates the order in which the (complete) case list is walked."""
    global _WORK_FN
    nproc = nproc or NPROC
    n = len(cases)
    if n == 0:
        return []
    idx = list(range(n))
    if order_seed:
        r = order_seed % n
        idx = idx[r:] + idx[:r]
    _WORK_FN = fn
    out = [None] * n
    if nproc <= 1 or n < 4:
        for i in idx:
            out[i] = _call((i, cases[i]))[1]
        return out
    ctx = mp.get_context("fork")
    chunk = max(1, min(64, n // (nproc * 8) or 1))
    with ctx.Pool(nproc) as pool:
        for i, res in pool.imap_unordered(_call, [(i, cases[i]) for i in idx], chunksize=chunk):
            out[i] = res
    return out


def run_cases(report, fn, cases, nproc=None, max_samples=4):
    """E1 driver: run fn over all cases in parallel and merge into report."""
    results = pmap(fn, cases, nproc=nproc, order_seed=report.seed)
    herr = []
    for case, res in zip(cases, results):
        if res.get("outcome") == "HARNESS_ERROR":
            herr.append((case, res["harness_error"]))
            continue
        report.add_case_result(case, res)
    if herr:
        sys.stderr.write("HARNESS ERROR in %d cases; first:\n%s\n%s\n" % (
            len(herr), json.dumps(jsonable(herr[0][0])), herr[0][1]))
        raise SystemExit(2)
    # samples: first, middle, last
    if cases and len(report.samples) < max_samples:
        for i in sorted({0, len(cases) // 2, len(cases) - 1}):
            report.samples.append(jsonable(cases[i]))
    return results


# ----------------------------------------------------------------------------------------------
# warm-up
# ----------------------------------------------------------------------------------------------
def quiet():
    import logging
    warnings.simplefilter("ignore")
    logging.disable(logging.CRITICAL)
    try:
        import numpy as np
        np.seterr(all="ignore")
    except Exception:
        pass


def warm(pf=True, dc=False, opf=False, sc=False):
    """Compile numba kernels once in the parent so forked workers inherit them."""
    quiet()
    import pandapower as pp
    net = pp.create_empty_network()
    b0 = pp.create_bus(net, 20.); b1 = pp.create_bus(net, 20.); b2 = pp.create_bus(net, 20.)
    pp.create_ext_grid(net, b0, s_sc_max_mva=1000., rx_max=0.1, s_sc_min_mva=800., rx_min=0.1)
    pp.create_line_from_parameters(net, b0, b1, 1., 0.1, 0.1, 10., 1.)
    pp.create_line_from_parameters(net, b1, b2, 1., 0.1, 0.1, 10., 1.)
    pp.create_load(net, b2, 1., .2)
    pp.create_gen(net, b1, 0.5, 1.0, min_q_mvar=-1, max_q_mvar=1, min_p_mw=0, max_p_mw=2, controllable=True)
    pp.create_shunt(net, b2, 0.1)
    if pf:
        pp.runpp(net)
        pp.runpp(net, enforce_q_lims=True)
        n2 = copy.deepcopy(net)
        n2.gen.drop(n2.gen.index, inplace=True)
        n2.shunt.drop(n2.shunt.index, inplace=True)
        pp.runpp(n2)
    if dc:
        pp.rundcpp(net)
    if opf:
        pp.create_poly_cost(net, 0, "gen", 1.)
        pp.create_poly_cost(net, 0, "ext_grid", 2.)
        try:
            pp.runopp(net)
            pp.rundcopp(net)
        except Exception:
            pass
    if sc:
        import pandapower.shortcircuit as sc_
        try:
            sc_.calc_sc(net, case="max")
        except Exception:
            pass


# ----------------------------------------------------------------------------------------------
# known findings
# ----------------------------------------------------------------------------------------------
def load_findings(prop):
    import glob
    out = []
    for path in [os.path.join(VERIF, "known_findings.json")] + sorted(glob.glob(os.path.join(VERIF, "known_findings.d", "*.json"))):
        if not os.path.exists(path):
            continue
        with open(path) as f:
            data = json.load(f)
        out += [e for e in data.get("findings", []) if e.get("property") == prop]
    return out


def match_finding(v, findings):
    """A violation is attributed to an OPEN finding iff same clause and the violation's tokens
    contain all signature tokens (and none of the signature's 'absent' tokens)."""
    toks = set(v.get("tokens") or ()) | tokens_of(v.get("case"))
    for f in findings:
        if f.get("status") != "open":
            continue
        sig = f.get("signature", {})
        if sig.get("clause") not in (None, v.get("clause")):
            if not (isinstance(sig.get("clause"), list) and v.get("clause") in sig["clause"]):
                continue
        if not all(t in toks for t in sig.get("tokens", [])):
            continue
        anyof = sig.get("any_of")
        if anyof and not any(t in toks for t in anyof):
            continue
        if any(t in toks for t in sig.get("absent", [])):
            continue
        return f
    return None


# ----------------------------------------------------------------------------------------------
# finishing: evidence + replays + exit code
# ----------------------------------------------------------------------------------------------
def finish(report, min_report=25):
    prop = report.prop
    findings = load_findings(prop)
    known_hits, fresh = {}, []
    for v in report.violations:
        f = match_finding(v, findings)
        if f is not None:
            known_hits.setdefault(f["id"], [f, 0])[1] += 1
        else:
            fresh.append(v)
    # minimal first: fewer deviations / shorter histories first
    def size(v):
        c = v.get("case")
        try:
            return len(json.dumps(jsonable(c)))
        except Exception:
            return 0
    fresh.sort(key=size)
    if fresh and os.environ.get("VERIF_TRIAGE"):
        groups = {}
        for v in fresh:
            groups.setdefault((v.get("clause"), v.get("klass")), []).append(v)
        for key, vs in sorted(groups.items(), key=lambda kv: -len(kv[1]))[:40]:
            sys.stdout.write("TRIAGE %5d %s toks=%s\n        e.g. %s :: %s\n" % (
                len(vs), key, sorted(t for t in (vs[0].get("tokens") or ()))[:12],
                json.dumps(jsonable(vs[0].get("case")))[:260], json.dumps(jsonable(vs[0].get("detail")))[:260]))
    scratch = bool(os.environ.get("VERIF_REPO"))      # run against another checkout: keep committed artefacts untouched
    rdir = os.path.join(VERIF, "replays", "_scratch", prop) if scratch else os.path.join(VERIF, "replays", prop)
    lines = []
    seen_classes = set()
    for v in fresh:
        cls = (v.get("clause"), v.get("klass"))
        if cls in seen_classes and len(lines) >= min_report:
            continue
        seen_classes.add(cls)
        os.makedirs(rdir, exist_ok=True)
        body = {"property": prop, "clause": v.get("clause"), "case": jsonable(v.get("case")),
                "detail": jsonable(v.get("detail"))}
        path = os.path.join(rdir, "%s.json" % dhash(body["case"] if body["case"] is not None else body))
        with open(path, "w") as fh:
            json.dump(body, fh, indent=1, sort_keys=True)
        if len(lines) < min_report:
            lines.append("VIOLATION property=%s replay=%s" % (prop, path))
            sys.stdout.write("  clause=%s detail=%s\n" % (v.get("clause"), json.dumps(jsonable(v.get("detail")))[:400]))
            sys.stdout.write(lines[-1] + "\n")
    for fid, (f, n) in sorted(known_hits.items()):
        sys.stdout.write("KNOWN-FINDING: property=%s %s [%s, %d cases]\n" % (prop, f.get("what", ""), fid, n))
    wall = time.time() - report.t0
    cov = {
        "evaluations": int(report.evaluations),
        "distinct_nontrivial": int(len(report.nontrivial)),
        "rule": report.rule,
        "samples": report.samples[:6] or ["(none)"],
        "exhaustive": bool(report.exhaustive),
        "outcomes": report.outcomes,
        "known_finding_hits": {k: n for k, (f, n) in known_hits.items()},
    }
    cov.update(jsonable(report.extra))
    ev = {"property_id": prop, "tier": report.tier, "seed": int(report.seed), "level": report.level,
          "coverage": cov, "assumptions": report.assumptions, "wall_s": round(wall, 2),
          "violations": len(fresh)}
    edir = os.path.join(VERIF, "evidence", "_scratch") if scratch else os.path.join(VERIF, "evidence")
    os.makedirs(edir, exist_ok=True)
    with open(os.path.join(edir, "%s.json" % prop), "w") as fh:
        json.dump(ev, fh, indent=1, sort_keys=True)
    sys.stdout.write("%s tier=%s evaluations=%d distinct_nontrivial=%d outcomes=%s violations=%d known=%d wall=%.1fs %s\n" % (
        prop, report.tier, report.evaluations, len(report.nontrivial),
        json.dumps(report.outcomes, sort_keys=True)[:300], len(fresh),
        sum(n for _, n in known_hits.values()), wall,
        " ".join("%s=%s" % kv for kv in sorted(report.extra.items()) if isinstance(kv[1], (int, float, str, bool)))))
    return 1 if fresh else 0

"""C31 helpers (agentL): networks with several tap-table transformers, the characteristic table alphabet,
the 'same transformer with the row values entered directly' construction and the predicate that recomputes
what the recorded defect (lookup keyed by id only) does."""
import cmath
import copy
import math

import numpy as np
import pandas as pd

import pandapower as pp

from mc import netalpha as na

STEPS = [-2, -1, 0, 1, 2]

# per characteristic id: one value per step (-2..2).  The neutral row is deliberately NOT the identity and the
# profiles of different ids differ in every column, so that a value taken from a foreign row or a foreign id
# is visible in the results.
P2W = {
    0: {"voltage_ratio": [0.94, 0.97, 1.01, 1.03, 1.06], "angle_deg": [-3.0, -1.5, 0.5, 1.5, 3.0],
        "vk_percent": [11.0, 11.5, 12.2, 12.6, 13.0], "vkr_percent": [0.35, 0.38, 0.42, 0.44, 0.47]},
    1: {"voltage_ratio": [1.05, 1.02, 0.995, 0.98, 0.96], "angle_deg": [2.0, 1.0, -0.25, -1.0, -2.0],
        "vk_percent": [13.5, 12.8, 11.9, 11.6, 11.2], "vkr_percent": [0.5, 0.45, 0.4, 0.39, 0.36]},
    2: {"voltage_ratio": [0.98, 0.99, 1.005, 1.015, 1.02], "angle_deg": [-1.0, -0.5, 0.2, 0.6, 1.2],
        "vk_percent": [10.5, 11.2, 12.4, 12.9, 13.3], "vkr_percent": [0.3, 0.33, 0.43, 0.46, 0.49]},
}
P3W = {
    0: {"voltage_ratio": [0.95, 0.975, 1.008, 1.025, 1.05], "angle_deg": [-2.0, -1.0, 0.4, 1.0, 2.0],
        "vk_hv_percent": [9.5, 9.8, 10.1, 10.3, 10.6], "vkr_hv_percent": [0.26, 0.28, 0.31, 0.33, 0.35],
        "vk_mv_percent": [10.4, 10.7, 11.1, 11.3, 11.6], "vkr_mv_percent": [0.27, 0.29, 0.32, 0.34, 0.36],
        "vk_lv_percent": [11.4, 11.7, 12.1, 12.3, 12.6], "vkr_lv_percent": [0.28, 0.3, 0.33, 0.35, 0.37]},
    1: {"voltage_ratio": [1.04, 1.02, 0.996, 0.985, 0.97], "angle_deg": [1.5, 0.75, -0.3, -0.75, -1.5],
        "vk_hv_percent": [10.8, 10.4, 9.9, 9.7, 9.4], "vkr_hv_percent": [0.36, 0.33, 0.29, 0.27, 0.25],
        "vk_mv_percent": [11.8, 11.4, 10.9, 10.7, 10.4], "vkr_mv_percent": [0.37, 0.34, 0.3, 0.28, 0.26],
        "vk_lv_percent": [12.8, 12.4, 11.9, 11.7, 11.4], "vkr_lv_percent": [0.38, 0.35, 0.31, 0.29, 0.27]},
}
# one characteristic id = one profile over all table columns (2W and 3W transformers may share an id and then
# share its voltage_ratio / angle_deg columns)
PROF = {cid: dict(P3W.get(cid, {}), **P2W[cid]) for cid in P2W}
COLS2 = ["voltage_ratio", "angle_deg", "vk_percent", "vkr_percent"]
COLS3 = ["voltage_ratio", "angle_deg", "vk_hv_percent", "vkr_hv_percent", "vk_mv_percent", "vkr_mv_percent",
         "vk_lv_percent", "vkr_lv_percent"]
ALLCOLS = ["voltage_ratio", "angle_deg", "vk_percent", "vkr_percent", "vk_hv_percent", "vkr_hv_percent",
           "vk_mv_percent", "vkr_mv_percent", "vk_lv_percent", "vkr_lv_percent"]
NOMINAL = {"voltage_ratio": 1.0, "angle_deg": 0.0, "vk_percent": na.TR["vk_percent"], "vkr_percent": na.TR["vkr_percent"],
           "vk_hv_percent": na.TR3["vk_hv_percent"], "vkr_hv_percent": na.TR3["vkr_hv_percent"],
           "vk_mv_percent": na.TR3["vk_mv_percent"], "vkr_mv_percent": na.TR3["vkr_mv_percent"],
           "vk_lv_percent": na.TR3["vk_lv_percent"], "vkr_lv_percent": na.TR3["vkr_lv_percent"]}

_BASES = {}


def _tr(**kw):
    d = dict(na.TR)
    d.update(tap_min=-2, tap_max=2, tap_neutral=0, tap_pos=0)
    d.update(kw)
    return d


def _tr3(**kw):
    d = dict(na.TR3)
    d.update(tap_min=-2, tap_max=2, tap_neutral=0, tap_pos=0)
    d.update(kw)
    return d


def _mk(kind):
    net = pp.create_empty_network(sn_mva=1.)
    pp.create_bus(net, 110., name="hv")
    pp.create_ext_grid(net, 0, vm_pu=1.02)
    ln = dict(na.LINE)
    ln["length_km"] = 6.0
    if kind in ("TT2", "TT3"):
        n = 2 if kind == "TT2" else 3
        for i in range(n):
            b = pp.create_bus(net, 20., name="lv%d" % i)
            pp.create_transformer_from_parameters(net, 0, b, **_tr())
            pp.create_load(net, b, [8., 5., 3.][i], [2., 1.5, 0.5][i])
        for i in range(n - 1):
            pp.create_line_from_parameters(net, 1 + i, 2 + i, **ln)
    elif kind == "WW2":
        for i in range(2):
            m = pp.create_bus(net, 20., name="mv%d" % i)
            l = pp.create_bus(net, 10., name="lv%d" % i)
            pp.create_transformer3w_from_parameters(net, 0, m, l, **_tr3())
            pp.create_load(net, m, [6., 4.][i], [1.5, 1.][i])
            pp.create_load(net, l, [3., 2.][i], [1., 0.4][i])
        pp.create_line_from_parameters(net, 1, 3, **ln)
    elif kind == "MIX":
        m = pp.create_bus(net, 20., name="mv")
        l = pp.create_bus(net, 10., name="lv")
        b = pp.create_bus(net, 20., name="lv2")
        pp.create_transformer3w_from_parameters(net, 0, m, l, **_tr3())
        pp.create_transformer_from_parameters(net, 0, b, **_tr())
        pp.create_load(net, m, 6., 1.5)
        pp.create_load(net, l, 3., 1.)
        pp.create_load(net, b, 5., 1.5)
        pp.create_line_from_parameters(net, m, b, **ln)
    else:
        raise ValueError(kind)
    return net


def base(kind):
    if kind not in _BASES:
        _BASES[kind] = _mk(kind)
    return copy.deepcopy(_BASES[kind])


def units(kind):
    """[(element table, index)] in the order used by the case descriptor lists"""
    return {"TT2": [("trafo", 0), ("trafo", 1)], "TT3": [("trafo", 0), ("trafo", 1), ("trafo", 2)],
            "WW2": [("trafo3w", 0), ("trafo3w", 1)], "MIX": [("trafo3w", 0), ("trafo", 0)]}[kind]


def row_values(tab, cid, step, cols):
    """the table row (id, step) of profile set `cols` ('all' or one column name varies; the rest is nominal)"""
    prof = PROF[cid]
    k = STEPS.index(int(step))
    out = {}
    for c in (COLS2 if tab == "trafo" else COLS3):
        out[c] = prof[c][k] if (cols == "all" or cols == c) else NOMINAL[c]
    return out


def make_table(case):
    """net.trafo_characteristic_table for the ids used in the case (shared table for 2W and 3W ids)"""
    used = {}
    for (tab, _), cid, istab in zip(units(case["kind"]), case["ids"], case["table"]):
        if istab:
            used.setdefault(cid, set()).add(tab)
    rows = []
    for cid in sorted(used):
        steps = STEPS if not case.get("rev") else STEPS[::-1]
        for s in steps:
            r = {"id_characteristic": cid, "step": s}
            for c in ALLCOLS:
                r[c] = np.nan
            for tab in sorted(used[cid]):
                r.update(row_values(tab, cid, s, case["cols"]))
            rows.append(r)
    return pd.DataFrame(rows, columns=["id_characteristic", "step"] + ALLCOLS)


def build_table_net(case):
    net = base(case["kind"])
    for (tab, idx), cid, istab, side, tap in zip(units(case["kind"]), case["ids"], case["table"], case["sides"], case["taps"]):
        t = net[tab]
        t.at[idx, "tap_side"] = side
        t.at[idx, "tap_pos"] = float(tap)
        if istab:
            t.at[idx, "tap_dependency_table"] = True
            t.at[idx, "id_characteristic_table"] = cid
        if tab == "trafo3w" and case.get("star"):
            t.at[idx, "tap_at_star_point"] = True
    net["trafo_characteristic_table"] = make_table(case)
    return net


def enter_directly(net, case, rows):
    """`rows[i]` = dict of row values for unit i (None: unit is not tap-table dependent).  Returns a copy of `net`
    where every table dependent transformer has tap_dependency_table=False and carries the row's values itself:
    vk/vkr columns overwritten; ratio r and angle a through a 'Ratio' tap changer standing one step from neutral
    with the complex step  s = r*exp(ja) - 1  (tap_step_percent = 100|s|, tap_step_degree = arg s), which is the
    documented tap model  n = 1 + (tap_pos - tap_neutral) * tap_step_percent/100 * exp(j tap_step_degree)."""
    d = copy.deepcopy(net)
    for (tab, idx), row in zip(units(case["kind"]), rows):
        if row is None:
            continue
        t = d[tab]
        t.at[idx, "tap_dependency_table"] = False
        t.at[idx, "id_characteristic_table"] = pd.NA
        n = row["voltage_ratio"] * cmath.exp(1j * math.radians(row["angle_deg"]))
        # tap_at_star_point: the documented star point model turns n into 1/n on the star side for the directly
        # entered tap changer, and the table path inverts the row's ratio / negates its angle likewise -> same n.
        s = n - 1.0
        t.at[idx, "tap_changer_type"] = "Ratio"
        t.at[idx, "tap_neutral"] = float(t.at[idx, "tap_pos"]) - 1.0
        t.at[idx, "tap_min"] = float(t.at[idx, "tap_pos"]) - 3.0
        t.at[idx, "tap_max"] = float(t.at[idx, "tap_pos"]) + 3.0
        t.at[idx, "tap_step_percent"] = 100.0 * abs(s)
        t.at[idx, "tap_step_degree"] = math.degrees(cmath.phase(s)) if abs(s) > 0 else 0.0
        for c, v in row.items():
            if c not in ("voltage_ratio", "angle_deg"):
                t.at[idx, c] = v
    if "trafo_characteristic_table" in d:
        del d["trafo_characteristic_table"]
    return d


def own_rows(case):
    out = []
    for (tab, _), cid, istab, tap in zip(units(case["kind"]), case["ids"], case["table"], case["taps"]):
        out.append(row_values(tab, cid, tap, case["cols"]) if istab else None)
    return out


def defect_rows(case):
    """Rows the recorded defect assigns: the lookups are dict(zip(id_characteristic, value)) built from the table
    rows (in table order) matching ANY (id, step) pair of the masked transformers, so every transformer of one
    mask group that shares an id gets the LAST such table row.  Mask groups: ratio/angle per effective tap side
    ('hv' / everything else -> 'lv'; swapped for tap_at_star_point) within one element table, vk/vkr all table
    dependent transformers of one element table."""
    us = units(case["kind"])
    order = STEPS if not case.get("rev") else STEPS[::-1]

    def last_step(cid, members):
        steps = [int(case["taps"][j]) for j in members if case["ids"][j] == cid]
        return max(steps, key=order.index)

    out = []
    for i, ((tab, _), cid, istab) in enumerate(zip(us, case["ids"], case["table"])):
        if not istab:
            out.append(None)
            continue

        def eff(j):
            e = "hv" if case["sides"][j] == "hv" else "lv"
            if us[j][0] == "trafo3w" and case.get("star"):
                e = "lv" if e == "hv" else "hv"
            return e
        same_tab = [j for j in range(len(us)) if us[j][0] == tab and case["table"][j]]
        g_ratio = [j for j in same_tab if eff(j) == eff(i)]
        r1 = row_values(tab, cid, last_step(cid, g_ratio), case["cols"])
        r2 = row_values(tab, cid, last_step(cid, same_tab), case["cols"])
        row = dict(r2)
        row["voltage_ratio"], row["angle_deg"] = r1["voltage_ratio"], r1["angle_deg"]
        out.append(row)
    return out


RES = ["res_bus", "res_trafo", "res_trafo3w", "res_line", "res_ext_grid"]


def res_diff(a, b):
    """largest absolute deviation over all result tables (NaN == NaN), and where"""
    worst, where = 0.0, None
    for tab in RES:
        x, y = a[tab], b[tab]
        if x.shape != y.shape:
            return float("inf"), tab + ".shape"
        if not len(x):
            continue
        xv, yv = x.values.astype(float), y.values.astype(float)
        nx, ny = np.isnan(xv), np.isnan(yv)
        if (nx != ny).any():
            return float("inf"), tab + ".nan"
        dv = np.abs(np.where(nx, 0., xv - yv))
        scale = np.maximum(1., np.abs(np.where(nx, 0., yv)))
        rel = dv / scale
        k = np.unravel_index(np.argmax(rel), rel.shape)
        if rel[k] > worst:
            worst, where = float(rel[k]), "%s.%s[%s]" % (tab, x.columns[k[1]], x.index[k[0]])
    return worst, where


def run(net, cva):
    try:
        pp.runpp(net, calculate_voltage_angles=cva)
    except Exception as e:  # counted, not judged
        return type(e).__name__
    return "ok" if net.converged else "not_converged"
